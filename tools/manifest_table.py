HOOK_COMMITS = []
ENGINES = [
    {"name": "E2", "path": "mc/props/c06.py", "kind_free_text": "explicit-state breadth-first search over call histories of a real Record (state = history replayed on a fresh object, canonical state hash, invariants in every state, differential oracles)",
     "serves_properties": ["C06", "C08", "C11"]},
    {"name": "E4", "path": "mc/props/c20.py", "kind_free_text": "fault enumeration: every fault kind at every conversion index x every pre-existing on-disk state; directory subsets x modes",
     "serves_properties": ["C20"]},
    {"name": "E3", "path": "mc/engine/choice.py + mc/instr/setorder.py", "kind_free_text": "stateless deviation-bounded choice exploration: the iteration order of every set created in antiSMASH code (AST import hook) is a choice; default run, then every single deviation, pairs, ...",
     "serves_properties": ["C13", "C17", "C18"]},
    {"name": "E1", "path": "mc/engine/core.py", "kind_free_text": "bounded exhaustive input enumeration of the real functions against set-of-bases / truth-table reference models, sharded over processes",
     "serves_properties": ["C01", "C02", "C03", "C04", "C05", "C07", "C08", "C09", "C14", "C15", "C16", "C19", "C10", "C12"]},
]
NOT_APPLICABLE = {}
CHECKS = {
    "C04": dict(engine="E1", level="exploration", ref="DESIGN.md 5/C04",
                technique="bounded exhaustive enumeration (small-scope model checking of the real functions vs a set-of-bases reference)",
                text="Every location pair / list / offset / extension on every ring and line up to the stated length is run through the real "
                     "functions and compared with a set-of-bases reference; exhaustive within the bound, so every coincidence class of the "
                     "integer arithmetic is reached.",
                note="Small-scope hypothesis (L <= 9 quick, <= 16 thorough); gene-like operands (2-4 exons, abutting exons, exons on both sides of the origin) for connect and offset on L <= 7-9; a multi-exon operand of connect is covered with its introns; reference model in mc/ref/bases.py is trusted; extension of multi-exon locations judged between 'outer ends' and 'span' (whether an extension that runs into an intron fills it is left open); Biopython location classes trusted."),
    "C01": dict(engine="E1", level="exploration", ref="DESIGN.md 5/C01",
                technique="bounded exhaustive enumeration of condition trees x gene worlds x hit assignments on the real evaluator vs truth-table semantics",
                text="Every condition tree up to the leaf bound is evaluated by the real DetectionRule.detect and apply_cluster_rules on every "
                     "gene world (boundary gaps around the cutoff, line/ring/origin) and every hit assignment, and compared with a 25-line "
                     "truth-table semantics of the documented meaning; exhaustive within the bound.",
                note="Bounds: <=2 leaves quick, <=3 thorough, <=2 neighbours; one hit per profile and gene, plus genes hit twice by one profile (strong+weak, either list order) in 1-neighbour worlds; profile names interchangeable; minscore inside cds(...) (accepted by the parser) judged as 'one single gene on its own'; reference semantics in mc/ref/rulesem.py trusted."),
    "C08": dict(engine="E1+E2", level="model_checking", ref="DESIGN.md 5/C08",
                technique="explicit-state BFS over add/create/clear histories of a real Record (membership and links in every state, build-order differential) + bounded exhaustive enumeration of gene layouts x query locations vs brute-force set-of-bases predicates",
                text="Every set of <=3-4 genes over all intervals of a tiny line/ring and every query location (simple and origin-spanning, both flags) "
                     "is looked up through the real Record and compared with brute force over all genes.",
                note="Small-scope (L<=12, <=4 genes); origin-spanning genes may be reported first or last for simple queries; build-order part shares the C06 state graph."),
    "C02": dict(engine="E1", level="exploration", ref="DESIGN.md 5/C02",
                technique="bounded exhaustive enumeration of rule texts (token lists from known ASTs, every layout deviation, every token-substring alias, every single-token corruption) on the real parser vs an independent reference recogniser",
                text="Every generated rule text is parsed by the real Parser; the result is read back structurally and compared (modulo a "
                     "semantics-preserving normal form, with a truth-table fallback through the real evaluator) with the AST it was built from / "
                     "with what an independent recogniser of the documented grammar derives; every single-token corruption must be rejected or "
                     "parse to the recogniser's meaning; shipped rule files and regenerated texts included.",
                note="Bounds: <=3 leaves, one corruption (incl. an unknown profile inside every used alias body), <=2 layout deviations; rules split over files x multipliers, also through create_rules on real files; SUPERIORS forks over five rules; reference recogniser mc/ref/grammar.py trusted; single-member (doubly negated, also doubly parenthesised) groups; self-referring aliases parsed under a 3 s interval timer (a hang is a violation); multiplier products judged exactly (0.7, 1.13, 2.3); shipped rules also through Ruleset.from_files / copy with multipliers; minscore inside cds() left to C01; one open finding (C02-F1)."),
    "C03": dict(engine="E1", level="exploration", ref="DESIGN.md 5/C03",
                technique="bounded exhaustive enumeration of gene layouts x hit tables x ruleset families through the real detection vs set-of-bases components/span/extension",
                text="Every layout of <=3-4 genes at every position of a tiny line/ring (incl. origin-spanning genes), every hit table and five ruleset "
                     "families (chain, condition menu, mixed cutoffs, SUPERIORS, EXTENDERS) run through the real detect_protoclusters_and_signatures; "
                     "anchors, groups (graph components at distance < cutoff), core span, extent and superior removal are judged in set-of-bases terms.",
                note="Small-scope (L in {13,16}, c in {2,3,5}, n in {0,1,4}) plus gap-word families: a three-level SUPERIORS hierarchy (4 genes, profiles a/b/c) and six genes round a ring joined only through extender genes; superiors judged against the reference cores of the superior rules; ring cores exact only below L/2; partial superior overlap not judged; extender admission modelled as closure at distance <= cutoff."),
    "C05": dict(engine="E1", level="exploration", ref="DESIGN.md 5/C05",
                technique="bounded exhaustive enumeration of protocluster multisets x all supply orders through the real candidate formation vs graph-component reference",
                text="Every multiset of <=3-4 real Protocluster objects from a slotted menu (nested, touching, identical, origin-spanning cores and extents) "
                     "is supplied to a real Record in every order; universal invariants (membership, span, no duplicates, order independence) and the "
                     "documented kinds (reference = connected components over set-of-bases overlap plus the documented de-duplication) are compared.",
                note="6-7 slots, <=4 protoclusters, plus five-protocluster families (two hybrids of different neighbourhood size + every further protocluster; >= 3 coinciding core boundaries); spans via the real connect_locations (C04); whole-record extents (clipped neighbourhoods) incl. two hybrid pairs at identical coordinates, sideloaded (strandless) and origin-crossing-core families; candidate numbering and member order compared across supply orders by content; kinds compared only where the reference is unambiguous (a weaker group built from two candidates with the same coordinates); a weaker group only joins candidates it was built from."),
    "C07": dict(engine="E1", level="exploration", ref="DESIGN.md 5/C07",
                technique="metamorphic exhaustive enumeration: every origin rotation and every rule permutation/sub-selection, differential against the base run",
                text="Every gap-word layout x hit table x ruleset family is run through detection -> candidates -> regions at every one of the L rotations "
                     "of the origin (records rebuilt from scratch) and for every permutation / sub-selection of the rules; coordinate-free descriptions "
                     "must be identical (rotation: when every base region spans < L/2).",
                note="L in {24,25}, <=3 genes, gaps {0,1,2,3,4,6}, plus layouts with a gene carrying a long intron and layouts with a short gene nested in a long one (ring of 36, optionally with an unrelated far gene) under extender rules and a rule with cutoff 0; descriptions computed by set-of-bases containment; no expected values needed."),
    "C06": dict(engine="E1+E2", level="model_checking", ref="DESIGN.md 5/C06",
                technique="explicit-state BFS over add/clear/create call histories of a real Record with a canonical state hash + bounded exhaustive enumeration of area sets vs connected components",
                text="Part A: every set of <=3-4 areas (subregions, candidate clusters via real protoclusters) on a slotted line/ring through "
                     "create_regions, judged against connected components of set-of-bases overlap, span == union, numbering. Part B: breadth-first "
                     "search over all call histories up to depth 6/8 of a 15-16 operation alphabet on real Records; numbering, identity, parent/child "
                     "links, no stale references, clear+create idempotence and build-order independence are checked in every state.",
                note="Canonicalisation drops only fields no public accessor exposes; enabling conditions follow the pipeline order (protoclusters -> candidates -> regions); depth bound 6 (quick) / 8 (thorough); input part: every set of <= 4 areas of the slotted menu (incl. one-sided neighbourhoods and a tight-core universe with small gaps between areas); features removed by clear_*() must no longer answer with a number nor keep a parent; regions added one by one with add_region() in every order."),
    "C09": dict(engine="E1", level="exploration", ref="DESIGN.md 5/C09",
                technique="bounded exhaustive enumeration of gene structures x protein ranges through the real coordinate mapping vs the transcript-order list",
                text="Every gene structure (strand, 1-3 exons at every cut incl. mid-codon, intron lengths, origin before/on every exon border/inside "
                     "every exon/inside every intron) x every protein range through get_sub_location_from_protein_coordinates, Prepeptide.to_biopython, "
                     "TTA markers, NRPS/PKS domain and motif feature generation; the returned location's transcript-order base list must equal "
                     "the gene's transcript slice (inside the gene, three bases per residue, same strand).",
                note="Coding lengths 12-24, <=4 exons, ring of 60, codon_start 1-3 through the real loader (a 5' exon that the frame offset would empty is degenerate input and not judged); Biopython extract() semantics is the trusted definition of 'encodes'; split TTA codons may be left unmarked; two open findings (C09-F1 precursor on a location with its stop codon, C09-F2 overlapping exons)."),
    "C15": dict(engine="E1", level="exploration", ref="DESIGN.md 5/C15",
                technique="exhaustive enumeration of all DNA strings over {A,T,G} up to a length bound (plus one-letter deviations) x direction x offset/wrap x minimum length vs an independent scanner, with extraction equality; bounded enumeration of gene layouts for the gap search",
                text="Every string over the three letters that form all start/stop codons up to length 9 (quick) / 12 (thorough), both directions, every "
                     "position of the window on a small ring (so every wrap point), five minimum lengths: reported ORFs must equal the reference scanner's "
                     "and extract to exactly the ORF; find_all_orfs on tiny records with <=2 genes, three area kinds and three overlaps must only return "
                     "valid ORFs outside gene interiors with matching translations.",
                note="Alphabet argument: other letters only act as 'not a start/stop'; minimum-length band between with/without stop codon accepted either way; gap search judged for soundness only, on the search windows themselves (sequence independent) and on the ORFs returned; one open finding (C15-F1, origin-crossing gene in an origin-spanning area)."),
    "C16": dict(engine="E1", level="exploration", ref="DESIGN.md 5/C16",
                technique="bounded exhaustive enumeration of ordered identifier lists from an adversarial pool through the real pre-processing; post-conditions of the statement",
                text="Every ordered list of <=3 (<=4 from a sub-pool) record ids from a pool built around each sanitising step (duplicates, ids equal after "
                     "removing illegal characters, equal 7/12-character prefixes, ids equal to another's shortened form, versioned accessions, contig/scaffold "
                     "numbers) with both header settings goes through the real pre_process_sequences in-process; ids must be pairwise distinct, legal, "
                     "<= 16 characters unless long headers are allowed, and remember their original. Gene names: every ordered triple of a 9-entry menu through add_cds_feature.",
                note="Pool of 44 ids plus a structured family of long ids (every 3-character head over {a,b,:}, with/without contig number, and their shortened forms); no-op gene finding module; families of 9..1100 ids competing for one generated name (counter digit boundaries); only record ids (not names) are judged for length/legality, as in the statement."),
    "C14": dict(engine="E1", level="exploration", ref="DESIGN.md 5/C14",
                technique="bounded exhaustive enumeration of domain strings (representative and full alphabets) and head/tail string pairs through the real module builder vs layout rules written from the docstring",
                text="Every domain string up to depth 3-5 over one representative per behavioural class of the ~75 profile names (full alphabet to depth 3 "
                     "as a cross-check) goes through build_modules_for_cds: no exception, in-order loss-free partition, per-module layout rules, "
                     "completeness and trans-AT flags recomputed independently, Module.from_json(to_json) identity. Every head x tail pair (three strand "
                     "pairs) goes through combine_modules: never raises, merged = head+tail(+trailing KR) in order, complete, bookkeeping exact.",
                note="Label sets are taken as data from the module, the rules are independent; bounded-exhaustive rather than a state graph because the builder's look-ahead makes prefixes non-mergeable (see DESIGN)."),
    "C19": dict(engine="E1", level="exploration", ref="DESIGN.md 5/C19",
                technique="bounded exhaustive enumeration of regions (area sets on slotted line/ring records) through the real layout code; invariants of the statement on every region",
                text="Every region of every record built from <=3-4 areas (subregions and real protoclusters of two products, nested/touching/origin-spanning/"
                     "whole-record) with genes incl. an origin-spanning one goes through build_area_rows and js.convert_regions: per kind the drawn extents "
                     "(halves of one group joined, modulo L) equal the features' extents, same-row areas are disjoint, everything lies in the announced range, "
                     "cores lie in their extents, gene drawings cover exactly the genes.",
                note="6-8 slots, every set of <= 4 areas (slot-aligned, one-sided neighbourhoods, and a tight-core universe with small gaps); gene tooltip rendering stubbed (no coordinates); uneven neighbourhoods; a gene with a slot-long intron; completeness judged on multisets because layout areas carry no identifiers; one open finding (C19-F1)."),
    "C20": dict(engine="E4", level="fault_enumeration", ref="DESIGN.md 5/C20",
                technique="exhaustive fault enumeration: every fault kind at every (record, module) conversion index against every pre-existing file state; every subset of a directory-content menu x run mode",
                text="For 1-3 records x 0-3 module results, each of six fault kinds is injected at every conversion position (and none) into "
                     "AntismashResults.write_to_file and dump_records, with the target file absent or present: the failure must reach the caller and "
                     "the bytes and mtime of an existing file must be unchanged; a fault-free write must produce the complete JSON. "
                     "prepare_output_directory is run on every subset of an 8-entry content menu x {fresh, reuse} x {absent, present, path is a file}.",
                note="Faults come from harness-supplied ModuleResults subclasses; hidden directory entries in the alphabet (open finding C20-F1); whole-pipeline ordering not runnable offline."),
    "C13": dict(engine="E3+E1", level="model_checking", ref="DESIGN.md 5/C13",
                technique="stateless exploration of all set-iteration orders (import hook makes them explicit choices) x bounded exhaustive enumeration of hit multisets; post-conditions + differential across orders",
                text="Every multiset of <=3-5 hits from a boundary menu is refined by the real refine_hmmscan_results in both modes under every iteration "
                     "order of the hit set (all n! for n<=4); hmmer.remove_overlapping and the detection filters are run on every permutation of their "
                     "input lists and every order of their internal sets. Post-conditions of the statement (sorted, no overlap beyond the margin, outputs are "
                     "inputs or legitimate merges, every drop is excused) and 'one result for all orders' are checked.",
                note="Set-order hook owns all sets created in antiSMASH code; profile lengths 40/100 put the 20% margin, 1.5x span and 50%/33% completeness thresholds on menu boundaries; merging of fragments is permitted by the statement but not demanded by the oracle; hits shorter than the overlap limit and a bystander profile in the filter menus; a third profile ten times as long as the first; 'of each overlapping group and of each profile' read as the two filter stages; three open findings (C13-F1 displaced by a discarded fragment, C13-F2 / C13-F3 single positional pass), listed exactly."),
    "C17": dict(engine="E3", level="model_checking", ref="DESIGN.md 5/C17",
                technique="stateless deviation-bounded exploration of set-iteration orders (AST import hook over the whole antismash package), differential against the default order; conformance runs in plain interpreters under varied PYTHONHASHSEED",
                text="Tie-laden scenarios run through detection -> annotation -> protoclusters -> candidates -> regions -> to_biopython -> GenBank/JSON "
                     "text (and refinement / detection filters) in a process where every set created in antiSMASH code iterates in an order chosen by the "
                     "explorer: default order, every single deviation at every choice point, all pairs (triples) on small scenarios. Every explored "
                     "order must produce byte-identical output. The same scenarios run uninstrumented in 8/32 child processes with different hash seeds "
                     "and allocation patterns; all must agree with each other and with the explored outcome.",
                note="Seed space 2^32 replaced by exhaustive ownership of set iteration order within the deviation bound; dict order is insertion order; sets inside Biopython/stdlib not instrumented; pair exploration capped at 4000 runs per scenario in thorough (cap reported); saved results of terpene / t2pks / RiPP modules filled from hand-made hit tables (external tools unavailable)."),
    "C18": dict(engine="E3+E4", level="model_checking", ref="DESIGN.md 5/C18",
                technique="explicit model of the pool's FIFO chunk dispatch whose every trace (completion order within a deviation bound) is replayed on the real multiprocessing pool under a controller gating each task with fork-inherited Events; fault enumeration of failing/hanging tasks",
                text="For every (n tasks, k workers) of the grid, every completion order within the deviation bound is executed on the real "
                     "parallel_function: tasks block on their own Events, the controller releases the task the schedule names once the real started-set "
                     "equals the model's. The returned list must equal the sequential result in argument order for every schedule; a task raising at any "
                     "position or hanging past the timeout must raise in the caller. Annotated records are compared across pickle and real pool round trips.",
                note="Model/implementation conformance is enforced at every step (divergence = harness error after a 60 s watchdog, never a verdict); worker counts 1-4 and 16; deviation bound 2 (quick) / 3 (thorough); content: generic deep object-state comparison of the catalogue records across pickle and a real pool; histories of batches with state changes in between; pre_process_sequences with 2-3 workers against 1 worker; lost workers (killed / SystemExit) through the real helper in a watched child process - open finding C18-F1."),
    "C10": dict(engine="E1", level="exploration", ref="DESIGN.md 5/C10",
                technique="bounded exhaustive enumeration of an annotated-record catalogue built by the real producers; write/read/write fixed point + canonical description equality",
                text="Every record of the catalogue (topology x 7 gene layouts x 5 rulesets x 6 sideload variants x subsets of 7 extra annotation kinds; "
                     "763 quick / 9690 thorough) is written to GenBank text and to the results JSON with the real writers, read back with the real readers "
                     "and written again: the first output must equal the second byte for byte and the canonical description (sequence, topology, every "
                     "emitted feature with qualifiers, area structure with numbers and cross references) must be unchanged.",
                note="HMMER look-ups replaced by fixed hit tables; three module effects that need external tools are stood in for by their one-line effect on the record (smCOG note on a gene, SMILES/polymer on a candidate cluster, a plain precursor peptide); all other producer code is real; strand-less area locations are identified with forward ones (GenBank cannot distinguish); four open findings (C10-F1 .. C10-F4)."),
    "C12": dict(engine="E1", level="exploration", ref="DESIGN.md 5/C12",
                technique="bounded exhaustive enumeration of every region of the annotated-record catalogue through the real region writer and readers; extraction equality + structural isomorphism + parent-unchanged",
                text="Every region of every catalogue record (first/later region, at a record end, origin-spanning, with origin-spanning genes, several "
                     "areas, precursor peptides, modules) is written with Region.write_to_genbank, parsed and loaded with Record.from_biopython: the file "
                     "holds exactly the region's sequence, every feature inside the region is present and extracts to the same bases, the loaded record has "
                     "one region with areas numbered from 1 and the same kinds/products/membership/cores/leader-tail pieces, and the full record and the "
                     "Biopython record passed in are unchanged.",
                note="Aperiodic catalogue sequence so extraction equality pins coordinates; product order compared as a multiset for linearised origin-spanning regions; feature keys ignore the writer's wrapping of identifiers longer than a line; five open findings (C12-F1 .. C12-F5)."),
    "C11": dict(engine="E2", level="model_checking", ref="DESIGN.md 5/C11",
                technique="explicit-state BFS over save/regenerate/option-change/tamper histories per results object (state = saved JSON + option vector + tamper flag, hashed), every regenerate transition executed on the real module-level regeneration against a fresh record; differential against fresh production under the changed settings",
                text="For every results object of five families (rule detection, sideloading, NRPS/PKS domains+modules, HMMer domains, TTA) produced by "
                     "the real producers over catalogue records, all histories up to depth 3/4 over {regenerate+save, set an option, bump/drop the schema "
                     "field, change the record id} are explored. Under unchanged settings the re-saved JSON must be byte-identical and the effect on a "
                     "fresh record identical; tampered results must be refused; under changed settings the result must be refused or equal a fresh run "
                     "under those settings (or the original where the module documents the option as ignored).",
                note="Fresh record = normalised input without antiSMASH annotations; HMMER look-ups stubbed with fixed tables; option menus: strictness x taxon x fungal neighbourhood multiplier x rule subset (rule detection), TTA threshold; BFS depth 4 (quick) / 6 (thorough); an accepted reuse under changed settings must equal a fresh run under those settings; modules needing external tools to produce results are out of scope."),
}
