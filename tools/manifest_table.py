HOOK_COMMITS = []
ENGINES = [
    {"name": "E1", "path": "mc/engine/core.py", "kind_free_text": "bounded exhaustive input enumeration of the real functions against set-of-bases / truth-table reference models, sharded over processes",
     "serves_properties": ["C04"]},
]
NOT_APPLICABLE = {}
CHECKS = {
    "C04": dict(engine="E1", level="exploration", ref="DESIGN.md 5/C04",
                technique="bounded exhaustive enumeration (small-scope model checking of the real functions vs a set-of-bases reference)",
                text="Every location pair / list / offset / extension on every ring and line up to the stated length is run through the real "
                     "functions and compared with a set-of-bases reference; exhaustive within the bound, so every coincidence class of the "
                     "integer arithmetic is reached.",
                note="Small-scope hypothesis (L <= 9 quick, <= 16 thorough); reference model in mc/ref/bases.py is trusted; Biopython location classes trusted."),
}
