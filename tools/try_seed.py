#!/usr/bin/env python3
"""try_seed.py <seed_dir> <check ids...> [--tier quick|thorough] [--no-tests]
Applies <seed_dir>/patch.diff to /repo, confirms the demo fails and the repo test baseline still passes, runs the given checks,
reverts /repo (always), confirms the demo passes on the clean tree. Prints a JSON summary."""
import json, os, subprocess, sys, time
args = [a for a in sys.argv[1:] if not a.startswith("--")]
tier = "quick"
if "--tier" in sys.argv:
    tier = sys.argv[sys.argv.index("--tier") + 1]
    args = [a for a in args if a != tier]
seed, checks = args[0], args[1:]
patch = os.path.join(seed, "patch.diff")
demo = os.path.join(seed, "demo.py")
env = dict(os.environ, PYTHONPATH="/repo")
def run(cmd, **kw):
    return subprocess.run(cmd, capture_output=True, text=True, **kw)
dirty = run(["git", "-C", "/repo", "status", "--porcelain", "-uno"]).stdout.strip()
assert not dirty, "repo must be clean: " + dirty
out = {"seed": seed}
r = run(["git", "-C", "/repo", "apply", "--check", patch])
if r.returncode:
    print(json.dumps({"seed": seed, "error": "patch does not apply: " + r.stderr[:300]})); sys.exit(2)
run(["git", "-C", "/repo", "apply", patch])
try:
    r = run(["/venv/bin/python", demo], cwd="/repo", env=env)
    out["demo_on_changed"] = r.returncode
    out["demo_tail"] = (r.stdout + r.stderr)[-300:]
    if "--no-tests" not in sys.argv:
        r = run(["python3", "/verif/tools/repo_tests.py"])
        out["repo_tests"] = r.stdout.strip().splitlines()[0] if r.stdout else r.stderr[-200:]
    out["checks"] = {}
    for cid in checks:
        t = time.time()
        r = run(["/verif/check", cid, "--tier", tier], cwd="/verif")
        viol = [l for l in r.stdout.splitlines() if l.startswith("VIOLATION")]
        clauses = [l.strip() for l in r.stdout.splitlines() if l.strip().startswith("clause=")]
        tail = [l for l in r.stdout.splitlines() if "per clause" in l]
        out["checks"][cid] = {"exit": r.returncode, "violations": len(viol), "first": clauses[:1], "summary": tail[-1][:400] if tail else "", "wall": round(time.time() - t, 1),
                              "stderr": r.stderr[-300:] if r.returncode == 2 else ""}
finally:
    run(["git", "-C", "/repo", "checkout", "--", "."])
    run(["git", "-C", "/verif", "checkout", "--", "evidence"])
r = run(["/venv/bin/python", demo], cwd="/repo", env=env)
out["demo_on_clean"] = r.returncode
print(json.dumps(out, indent=1))
