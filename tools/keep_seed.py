#!/usr/bin/env python3
"""keep_seed.py <seed_src_dir> <seed_id> <property> <caught_by comma list or 'none'> [extra note]
copies patch.diff, demo.py, NOTES.md into /verif/seeded/<seed_id>/ and writes meta.json from a fresh try_seed run"""
import json, os, shutil, subprocess, sys
src, sid, prop, caught = sys.argv[1:5]
note = sys.argv[5] if len(sys.argv) > 5 else ""
dst = f"/verif/seeded/{sid}"
os.makedirs(dst, exist_ok=True)
for name in ("patch.diff", "demo.py", "NOTES.md"):
    if os.path.exists(os.path.join(src, name)):
        shutil.copy(os.path.join(src, name), os.path.join(dst, name))
checks = [] if caught == "none" else caught.split(",")
r = subprocess.run(["python3", "/verif/tools/try_seed.py", dst] + checks, capture_output=True, text=True)
result = json.loads(r.stdout)
notes = open(os.path.join(dst, "NOTES.md")).read() if os.path.exists(os.path.join(dst, "NOTES.md")) else ""
meta = {
    "seed_id": sid,
    "property": prop,
    "origin": "written by an independent sub-agent given only the property text and a scratch worktree",
    "needs_to_manifest": notes[:1500],
    "confirmed": {
        "demo_exit_on_changed_tree": result.get("demo_on_changed"),
        "demo_exit_on_clean_tree": result.get("demo_on_clean"),
        "repo_baseline_with_change": result.get("repo_tests"),
        "commands": ["git -C /repo apply seeded/%s/patch.diff" % sid, "PYTHONPATH=/repo /venv/bin/python seeded/%s/demo.py" % sid,
                     "python3 tools/repo_tests.py", "./check <ID> --tier quick", "git -C /repo checkout -- ."],
    },
    "checks": {cid: {"exit": v["exit"], "first_violation": (v["first"] or [""])[0][:300], "summary": v["summary"][:300], "wall_s": v["wall"]}
               for cid, v in result.get("checks", {}).items()},
    "caught_by": [cid for cid, v in result.get("checks", {}).items() if v["exit"] == 1],
    "note": note,
}
json.dump(meta, open(os.path.join(dst, "meta.json"), "w"), indent=1)
print(sid, "caught_by", meta["caught_by"], "demo", meta["confirmed"]["demo_exit_on_changed_tree"], meta["confirmed"]["demo_exit_on_clean_tree"], meta["confirmed"]["repo_baseline_with_change"])
