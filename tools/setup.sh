#!/bin/sh
# offline setup: nothing to build; byte-compile the harness and validate the manifest and the known-findings file
cd "$(dirname "$0")/.." || exit 1
/venv/bin/python -m compileall -q mc tools >/dev/null || exit 1
/venv/bin/python - <<'PY' || exit 1
import json, jsonschema, os, gzip
m = json.load(open("MANIFEST.json"))
if os.path.exists("/root/.vp/MANIFEST.schema.json"):
    jsonschema.validate(m, json.load(open("/root/.vp/MANIFEST.schema.json")))
for line in open("KNOWN_FINDINGS.txt"):
    line = line.strip()
    if line.startswith("open:"):
        fields = dict(f.split("=", 1) for f in line[5:].split("::")[0].split())
        with gzip.open(fields["cases"], "rt") as h:
            sum(1 for _ in h)
print("setup ok:", len(m["checks"]), "checks")
PY
