#!/usr/bin/env python3
"""keep_seed_wt.py <worktree> <seed_id> <property> <check ids comma list>
Like keep_seed.py/try_seed.py but never touches /repo: the change stays applied in the sub-agent's scratch worktree
(<worktree>/seed_patch.diff, <worktree>/seed_demo.py), the repository's test baseline and the checks run against that worktree
(VERIF_REPO), so several seeds can be confirmed in parallel.  Evidence files written by those runs are NOT evidence of the
unchanged tree: run `git -C /verif checkout -- evidence` afterwards."""
import json, os, shutil, subprocess, sys, time
wt, sid, prop, caught = sys.argv[1:5]
dst = f"/verif/seeded/{sid}"
os.makedirs(dst, exist_ok=True)
shutil.copy(os.path.join(wt, "seed_patch.diff"), os.path.join(dst, "patch.diff"))
shutil.copy(os.path.join(wt, "seed_demo.py"), os.path.join(dst, "demo.py"))
patch, demo = os.path.join(dst, "patch.diff"), os.path.join(dst, "demo.py")
def run(cmd, **kw):
    return subprocess.run(cmd, capture_output=True, text=True, **kw)
env = dict(os.environ, PYTHONPATH=wt)
# bring the worktree to exactly HEAD + patch (drops the agent's scratch files from tracked paths only)
run(["git", "-C", wt, "checkout", "--", "."])
r = run(["git", "-C", wt, "apply", patch])
assert r.returncode == 0, "patch does not apply to HEAD: " + r.stderr[:300]
assert run(["git", "-C", "/repo", "apply", "--check", patch]).returncode == 0, "patch does not apply to /repo"
out = {}
r = run(["/venv/bin/python", demo], cwd=wt, env=env)
out["demo_on_changed"] = r.returncode
out["demo_tail"] = (r.stdout + r.stderr)[-300:]
r = run(["python3", "/verif/tools/repo_tests.py", wt])
out["repo_tests"] = r.stdout.strip().splitlines()[0] if r.stdout else r.stderr[-200:]
out["checks"] = {}
for cid in [c for c in caught.split(",") if c and c != "none"]:
    t = time.time()
    r = run(["/verif/check", cid, "--tier", "quick"], cwd="/verif", env=dict(os.environ, VERIF_REPO=wt))
    viol = [l for l in r.stdout.splitlines() if l.startswith("VIOLATION")]
    clauses = [l.strip() for l in r.stdout.splitlines() if l.strip().startswith("clause=")]
    tail = [l for l in r.stdout.splitlines() if "per clause" in l]
    out["checks"][cid] = {"exit": r.returncode, "violations": len(viol), "first": clauses[:1], "summary": tail[-1][:400] if tail else "",
                          "wall": round(time.time() - t, 1), "stderr": r.stderr[-300:] if r.returncode == 2 else ""}
run(["git", "-C", wt, "apply", "-R", patch])
r = run(["/venv/bin/python", demo], cwd=wt, env=env)
out["demo_on_clean"] = r.returncode
meta = {
    "seed_id": sid, "property": prop,
    "origin": "written by an independent sub-agent given only the property text and a scratch worktree",
    "needs_to_manifest": "",
    "confirmed": {"demo_exit_on_changed_tree": out["demo_on_changed"], "demo_exit_on_clean_tree": out["demo_on_clean"],
                  "repo_baseline_with_change": out["repo_tests"], "demo_tail_on_changed_tree": out["demo_tail"],
                  "commands": [f"git -C <scratch worktree> apply seeded/{sid}/patch.diff", f"PYTHONPATH=<worktree> /venv/bin/python seeded/{sid}/demo.py",
                               "python3 tools/repo_tests.py <worktree>", "VERIF_REPO=<worktree> ./check <ID> --tier quick", "git -C <worktree> apply -R ..."]},
    "checks": {cid: {"exit": v["exit"], "first_violation": (v["first"] or [""])[0][:300], "summary": v["summary"][:300], "wall_s": v["wall"]}
               for cid, v in out["checks"].items()},
    "caught_by": [cid for cid, v in out["checks"].items() if v["exit"] == 1],
    "note": "",
}
json.dump(meta, open(os.path.join(dst, "meta.json"), "w"), indent=1)
print(sid, "caught_by", meta["caught_by"], "demo", out["demo_on_changed"], out["demo_on_clean"], out["repo_tests"], {c: v["exit"] for c, v in out["checks"].items()})
