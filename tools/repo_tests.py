#!/usr/bin/env python3
"""Runs the repository's baseline test command (guard off) and compares with BASELINE.json's stable_pass list.
usage: repo_tests.py [repo_dir]   exit 0 iff every stable_pass test passed"""
import json, os, subprocess, sys, tempfile, xml.etree.ElementTree as ET
repo = sys.argv[1] if len(sys.argv) > 1 else "/repo"
base = json.load(open("/root/.vp/BASELINE.json"))
stable = set(base["stable_pass"])
with tempfile.TemporaryDirectory() as tmp:
    out = os.path.join(tmp, "j.xml")
    env = dict(os.environ); env.pop("ANTISMASH_VERIF", None)
    proc = subprocess.run(["/venv/bin/python", "-m", "pytest", "-q", "-p", "no:cacheprovider", "--timeout=900",
                           "--continue-on-collection-errors", f"--junitxml={out}"], cwd=repo, env=env,
                          capture_output=True, text=True)
    passed = set()
    for tc in ET.parse(out).getroot().iter("testcase"):
        if not any(ch.tag in ("failure", "error", "skipped") for ch in tc):
            passed.add(f"{tc.get('classname')}::{tc.get('name')}")
missing = sorted(stable - passed)
print(f"stable_pass={len(stable)} passed_now={len(passed)} stable_missing={len(missing)}")
for m in missing[:30]:
    print("  NOT PASSING:", m)
sys.exit(1 if missing else 0)
