#!/usr/bin/env python3
"""Regenerates MANIFEST.json from the table below and validates it."""
import json, os, sys
ROOT = os.path.dirname(os.path.dirname(os.path.abspath(__file__)))
sys.path.insert(0, ROOT)
from tools.manifest_table import CHECKS, NOT_APPLICABLE, ENGINES, HOOK_COMMITS

props = [json.loads(l) for l in open(os.path.join(ROOT, "properties.jsonl"))]
ids = [p["id"] for p in props]
checks = []
for pid in ids:
    if pid not in CHECKS:
        continue
    c = CHECKS[pid]
    checks.append({
        "property_id": pid,
        "quick_cmd": f"./check {pid} --tier quick",
        "thorough_cmd": f"./check {pid} --tier thorough",
        "evidence_file": f"/verif/evidence/{pid}.json",
        "replay_cmd_template": f"./check {pid} --replay {{path}}",
        "engine": c["engine"],
        "level_claimed": {"category": c["level"], "text": c["text"], "design_ref": c["ref"]},
        "level_note": c["note"],
        "technique": c["technique"],
    })
na = [{"property_id": pid, "reason": NOT_APPLICABLE.get(pid, "check not built yet in this session; see DESIGN.md section 5 for the plan")}
      for pid in ids if pid not in CHECKS]
manifest = {
    "version": 1,
    "setup_cmd": "./tools/setup.sh",
    "hooks": {
        "guard": "ANTISMASH_VERIF",
        "enable": "no source hooks are needed: checks import /repo (editable install in /venv) in a fresh process; "
                  "instrumentation (set-order import hook, gated pool tasks, fault-injecting results) lives in /verif/mc",
        "baseline_off_cmd": "cd /repo && /venv/bin/python -m pytest -ra -q -p no:cacheprovider --timeout=900 --continue-on-collection-errors",
        "source_commits": HOOK_COMMITS,
        "add_only": True,
    },
    "engines": ENGINES,
    "checks": checks,
    "not_applicable": na,
    "notes": "All checks execute the real antiSMASH functions from /repo's working tree; see DESIGN.md. "
             "KNOWN_FINDINGS.txt lists repaired (fixed:) and open findings.",
}
with open(os.path.join(ROOT, "MANIFEST.json"), "w") as handle:
    json.dump(manifest, handle, indent=1)
    handle.write("\n")
import jsonschema
jsonschema.validate(manifest, json.load(open("/root/.vp/MANIFEST.schema.json")))
print(f"MANIFEST.json: {len(checks)} checks, {len(na)} not_applicable")
