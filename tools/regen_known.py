#!/usr/bin/env python3
"""tools/regen_known.py <finding id> : maintenance (run by hand, never by a check).

Re-dumps the failing (case, clause) pairs of the finding's property for both tiers on the current /repo tree and rewrites
known/<finding>.cases.gz with exactly those pairs that satisfy the finding's PREDICATE below (the signature of its root
cause). Pairs that fail but do not match the predicate are printed and are NOT listed: they are new violations to triage."""
import gzip, json, os, subprocess, sys, tempfile


def has(case, extra):
    """is the catalogue extra part of the case ('*all*' stands for every extra)"""
    extras = case.get("extras", ())
    return extra in extras or "*all*" in extras


def overlapping_exons(case):
    """does the encoded gene location ("+20:22|21:31") have exons that share bases"""
    parts = [tuple(int(x) for x in part.split(":")) for part in case.get("loc", "+0:0")[1:].split("|")]
    return any(a[0] < b[1] and b[0] < a[1] for i, a in enumerate(parts) for b in parts[i + 1:])


C13_LENS = {"A": 40, "B": 100, "regulatorR": 40, "Z": 400}      # profile lengths of the C13 universe


PREDICATES = {
    # a hit of a much longer profile between two hits: each is only compared with the last hit kept, under that pair's margin
    "C13-F3": lambda case, clause: case.get("kind") == "refine" and clause == "outputs-overlap-beyond-margin"
    and any(h[0] == "Z" for h in case["hits"]),
    # sideloaded areas whose detail names are also names of qualifiers antiSMASH writes for the area itself
    "C10-F4": lambda case, clause: case.get("sideload") == "reserved-detail-keys" and clause in (
        "genbank-description-differs", "genbank-not-a-fixed-point", "json-description-differs", "json-not-a-fixed-point", "json-areas-differ"),
    "C12-F5": lambda case, clause: case.get("sideload") == "reserved-detail-keys" and clause in ("subregions-differ", "protoclusters-differ",
                                                                                                  "feature-missing-or-shifted", "feature-unexpected"),
    # a pool worker that is lost (killed, or left through SystemExit) while holding a task
    "C18-F1": lambda case, clause: case.get("kind") == "lost-worker" and case.get("position", -1) >= 0
    and clause == "worker-lost-call-never-returns",
    # a gene whose exons overlap (programmed frameshift) - any way of placing an annotation in it
    "C09-F2": lambda case, clause: overlapping_exons(case) and case.get("via") != "prepeptide-stop" and (
        clause.endswith("-not-three-per-residue") or clause.endswith("-wrong-bases") or clause.endswith("-raised")
        or clause.endswith("-outside-gene")),
    # a precursor peptide on a location that includes the stop codon, as the RiPP modules build it
    "C09-F1": lambda case, clause: case.get("via") == "prepeptide-stop" and clause in ("prepeptide-stop-not-three-per-residue", "prepeptide-stop-wrong-bases"),
    # a gene function without a product whose description has the shape 'name: text' (what the genefunctions tools write)
    "C10-F3": lambda case, clause: has(case, "smcog-function") and clause in ("genbank-description-differs", "json-description-differs"),
    # a spliced gene with one exon on either side of the few bases an origin-spanning region leaves out
    "C12-F4": lambda case, clause: case.get("sideload") == "around-intron" and clause in ("feature-missing-or-shifted", "region-genes-differ"),
    # a gene crossing the origin (start + length beyond the 36 bases of the gap-search ring) inside an origin-spanning search area
    "C15-F1": lambda case, clause: case.get("kind") == "gap" and case.get("area") == "cross"
    and any(g[0] + g[1] > 36 and g[1] > 2 * case.get("overlap", 0) for g in case.get("genes", ()))
    and clause in ("search-window-inside-gene", "gap-orf-inside-gene"),
    # a multi-exon gene whose exons lie in different parts of an origin-spanning region (the intron spans what the region leaves out)
    "C19-F1": lambda case, clause: clause == "exons-apart-gene-outside-range",
    # a hidden entry (index 8 of the directory menu) as the only foreign content of the output directory
    "C20-F1": lambda case, clause: case.get("kind") == "dir" and 8 in case.get("subset", ()) and clause == "foreign-content-accepted",
    # interplay of the refinement stages (merge -> overlap removal -> incomplete removal): an input is dropped although no kept
    # hit excuses it, and at least one input is a fragment (half its profile or less) - the displaced-by-a-discarded-fragment family
    "C13-F1": lambda case, clause: case.get("kind") == "refine" and clause == "input-dropped-without-reason"
    and any((h[2] - h[1]) / C13_LENS[h[0]] <= 0.5 for h in case["hits"]),
    # the same clause with complete hits only: the single positional pass of _remove_overlapping() (rising chains)
    "C13-F2": lambda case, clause: case.get("kind") == "refine" and clause == "input-dropped-without-reason"
    and all((h[2] - h[1]) / C13_LENS[h[0]] > 0.5 for h in case["hits"]),
    # an unknown identifier substituted into the EXTENDERS clause of a generated rule is accepted
    "C02-F1": lambda case, clause: clause == "accepted-ill-formed" and case.get("kind") == "corrupt" and case.get("op") == "replace"
    and case.get("rep") == "zz" and (bool(case.get("ext")) or case.get("origin") == "file"),
    # a Prepeptide on the frame-shifted gene of the 'codonstart' layout
    "C10-F1": lambda case, clause: (
        (case.get("layout") == "codonstart" and has(case, "prepeptide"))
        or (case.get("layout") == "origin-codonstart" and has(case, "prepeptide-plain")))
    and clause in ("genbank-description-differs", "genbank-not-a-fixed-point", "json-description-differs", "json-not-a-fixed-point"),
    # free-text qualifier values longer than a GenBank line without a space to wrap at
    "C10-F2": lambda case, clause: case.get("sideload") == "unbreakable-values" and clause == "genbank-description-differs",
    # a region ending exactly at the frame-adjusted end of a codon_start gene
    "C12-F3": lambda case, clause: case.get("layout") == "origin-reverse-codonstart" and case.get("sideload") == "origin-protos"
    and clause in ("region-genes-differ", "region-file-not-loadable"),
    # the same root cause as C10-F2 seen through a region file
    "C12-F2": lambda case, clause: case.get("sideload") == "unbreakable-values"
    and clause in ("feature-missing-or-shifted", "feature-unexpected", "subregions-differ"),
    # a Prepeptide on a gene that a sideloaded region boundary cuts
    "C12-F1": lambda case, clause: clause == "region-file-not-loadable" and (
        (has(case, "prepeptide") and case.get("sideload") in ("two-subs", "origin-sub", "origin-subs"))
        or (case.get("layout") == "long" and has(case, "prepeptide-long") and case.get("sideload") == "both")),
}

fid = sys.argv[1]
prop = fid.split("-")[0]
pred = PREDICATES[fid]
root = os.path.dirname(os.path.dirname(os.path.abspath(__file__)))
keep, other = set(), []
elsewhere = set()
for path in os.listdir(os.path.join(root, "known")):
    if path.startswith(prop + "-") and not path.startswith(fid + "."):
        for line in gzip.open(os.path.join(root, "known", path), "rt", encoding="utf-8"):
            key, _, clause = line.rstrip("\n").rpartition("\t")
            elsewhere.add((key, clause))
for tier in ("quick", "thorough"):
    with tempfile.NamedTemporaryFile(suffix=".txt", delete=False) as tmp:
        path = tmp.name
    subprocess.run([os.path.join(root, "check"), prop, "--tier", tier, "--dump-failing", path], capture_output=True, text=True, check=False)
    for line in open(path, encoding="utf-8"):
        key, _, clause = line.rstrip("\n").rpartition("\t")
        if not key:
            continue
        if pred(json.loads(key), clause):
            keep.add((key, clause))
        elif (key, clause) not in elsewhere:
            other.append((tier, key, clause))
    os.unlink(path)
subprocess.run(["git", "-C", root, "checkout", "--", "evidence"], check=False)
out = os.path.join(root, "known", f"{fid}.cases.gz")
old = set()
if os.path.exists(out):
    for line in gzip.open(out, "rt", encoding="utf-8"):
        key, _, clause = line.rstrip("\n").rpartition("\t")
        old.add((key, clause))
with gzip.GzipFile(out, "wb", mtime=0) as raw:
    raw.write("".join(f"{k}\t{c}\n" for k, c in sorted(keep)).encode())
print(f"{fid}: {len(keep)} pairs listed (was {len(old)}; +{len(keep - old)} -{len(old - keep)}); failing pairs NOT matching the predicate: {len(other)}")
for item in other[:10]:
    print("   unlisted:", item)
