#!/bin/sh
# tools/run_all.sh [tier] : run every check of the given tier on the current /repo tree, one line per check
tier=${1:-quick}
cd /verif || exit 2
for id in C01 C02 C03 C04 C05 C06 C07 C08 C09 C10 C11 C12 C13 C14 C15 C16 C17 C18 C19 C20; do
  s=$(date +%s)
  ./check $id --tier $tier > /tmp/run_all_$id.$tier.log 2>&1
  rc=$?
  e=$(date +%s)
  echo "$id tier=$tier exit=$rc wall=$((e-s))s viol=$(grep -c '^VIOLATION' /tmp/run_all_$id.$tier.log) known=$(grep -c '^KNOWN-FINDING' /tmp/run_all_$id.$tier.log)"
done
