import sys, json, logging
logging.disable(logging.CRITICAL)
sys.path.insert(0, "/verif")
from mc.props.c03 import *
case = json.loads(sys.argv[1])
spec = [f for f in families("thorough") if f[0] == case["family"]][0][1]
rec, feats = W.build_world(case["world"])
rs = make_ruleset(spec, case["hits"])
try:
    res = cluster_prediction.detect_protoclusters_and_signatures(rec, rs)
    for p in res.protoclusters:
        print(p.product, "core", p.core_location, "extent", p.location)
except Exception as e:
    import traceback; traceback.print_exc()
print(check_case(case["world"], case["hits"], spec))
