#!/usr/bin/env python3
"""prints the DESIGN.md section 8a table from seeded/*/meta.json"""
import glob, json, os, re
rows = []
for path in sorted(glob.glob(os.path.join(os.path.dirname(os.path.dirname(os.path.abspath(__file__))), "seeded", "*", "meta.json"))):
    m = json.load(open(path))
    patch = open(os.path.join(os.path.dirname(path), "patch.diff")).read()
    files = sorted({os.path.basename(l[6:].strip()) for l in patch.splitlines() if l.startswith("+++ b/")})
    note = m.get("summary") or ""
    if not note:
        text = m.get("needs_to_manifest", "")
        mt = re.search(r"[Cc]hange\**:?\**\s*(.*?)(?:\n\s*\n|\n- |\n\*\*)", text, re.S)
        note = (mt.group(1) if mt else text[:200]).replace("\n", " ").strip()
    clauses = "; ".join(sorted({(v.get("first_violation") or "").split(" ")[0].replace("clause=", "") for v in m.get("checks", {}).values()} - {""}))
    rows.append((m["seed_id"], m["property"], ", ".join(files), note[:260], ", ".join(m.get("caught_by") or ["-"]), clauses, m.get("strengthening", m.get("note", ""))[:200]))
print("| Seed | Property | File | Change (abridged) | Caught by | First failing clause | Strengthening needed first |")
print("|---|---|---|---|---|---|---|")
for r in rows:
    print("| " + " | ".join(x.replace("|", "/") for x in r) + " |")
