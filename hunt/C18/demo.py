""" C18 - "Parallel execution gives the sequential result, in order"

    run as:  cd <repo root> && PYTHONPATH=<repo root> /venv/bin/python SEED/demo.py

    Every scenario is run in its own child process (so that a hang of the
    code under test can be observed and cleaned up).  The reference is the plain
    sequential evaluation  [function(*a) for a in args]  done in-process: the
    property allows exactly two outcomes for the parallel helper, namely
      (a) the same list as the reference, or
      (b) an error raised to the caller.
    "Neither a result nor an error, for ever" is what is reported below.
"""

import multiprocessing
import os
import signal
import sys
import time

from antismash.common.subprocessing import parallel_execute, parallel_function

MAIN_PID = os.getpid()
HANG_LIMIT = 4.0     # seconds; the healthy controls below finish in well under 1s


# --------------------------------------------------------------------------
# functions handed to the helper (module level, so they pickle by reference)
# --------------------------------------------------------------------------
def ok(i):
    time.sleep(0.02 * ((7 - i) % 4))   # later items finish first
    return i * i


def killed_from_outside(i):
    """ Simulates the Linux OOM killer (or a segfault in a C extension) taking
        out the worker that is busy with item 2. In-process it is a plain function. """
    if i == 2 and os.getpid() != CALLER_PID[0]:
        os.kill(os.getpid(), signal.SIGKILL)
    return i * i


def calls_sys_exit(i):
    if i == 2:
        sys.exit(3)
    return i * i


class TwoArgError(Exception):
    """ A perfectly ordinary exception class: two constructor arguments, only
        one of which is passed on to Exception.__init__ """
    def __init__(self, record_id, reason):
        super().__init__(f"{record_id}: {reason}")
        self.record_id = record_id


def raises_two_arg_error(i):
    if i == 2:
        raise TwoArgError("rec2", "no genes")
    return i * i


def run_on_record(record, options):   # a stand-in 'genefinding module' (this file)
    """ gene finding that adds one CDS; the worker handling record 'r1' is killed """
    from antismash.common.secmet import CDSFeature
    from antismash.common.secmet.locations import FeatureLocation
    if record.id == "r1" and os.getpid() != CALLER_PID[0]:
        os.kill(os.getpid(), signal.SIGKILL)
    loc = FeatureLocation(0, 90, 1)
    record.add_cds_feature(CDSFeature(loc, locus_tag=f"ctg{record.record_index}_1",
                                      translation=str(record.get_aa_translation_from_location(loc)) or "M"))


# plain global: set before the pool forks, so the workers inherit it; every scenario
# process has its own copy
CALLER_PID = [0]


# --------------------------------------------------------------------------
# scenarios: each returns a printable outcome, or never returns
# --------------------------------------------------------------------------
ARGS = [[i] for i in range(6)]


def sc_control():
    return parallel_function(ok, ARGS, cpus=3)


def sc_control_timeout():
    return parallel_function(killed_from_outside, ARGS, cpus=3, timeout=1)


def sc_killed():
    return parallel_function(killed_from_outside, ARGS, cpus=3)


def sc_sys_exit():
    return parallel_function(calls_sys_exit, ARGS, cpus=3)


def sc_two_arg_error():
    return parallel_function(raises_two_arg_error, ARGS, cpus=3)


def sc_execute_killed():
    commands = [["sh", "-c", "exit 0"], ["sh", "-c", "kill -9 $PPID"], ["sh", "-c", "exit 0"]]
    return parallel_execute(commands, cpus=2, verbose=False)


def sc_preprocess(first_index=0):
    import logging
    logging.disable(logging.CRITICAL)
    import antismash
    from antismash.config import build_config
    from antismash.common import record_processing
    from antismash.common.secmet import Record
    options = build_config(["--minimal", "--cpus", "2", "--genefinding-tool", "prodigal", "--minlength", "50"],
                           isolated=True, modules=antismash.get_all_modules())
    records = [Record("ATGGCT" * 40 + "TAA" + "ACGT" * 30, id=f"r{i}", name=f"r{i}")
               for i in range(first_index, first_index + 3)]
    out = record_processing.pre_process_sequences(records, options, sys.modules[__name__])
    return [(rec.id, len(rec.get_cds_features())) for rec in out]


def sc_preprocess_control():
    return sc_preprocess(first_index=5)   # no record called r1: nobody gets killed


def _child(scenario, queue):
    os.setpgid(0, 0)    # own process group, so the watchdog can remove pool workers too
    CALLER_PID[0] = os.getpid()
    devnull = os.open(os.devnull, os.O_WRONLY)
    os.dup2(devnull, 2)  # worker tracebacks are noise here
    try:
        outcome = ("returned", repr(scenario()))
    except BaseException as err:  # pylint: disable=broad-except
        outcome = ("raised", repr(err)[:150])
    queue.put(outcome)


def run_all(scenarios):
    """ starts all scenarios at once, gives them HANG_LIMIT seconds """
    running = {}
    for name, scenario in scenarios.items():
        queue = multiprocessing.Queue()
        proc = multiprocessing.Process(target=_child, args=(scenario, queue))
        proc.start()
        running[name] = (proc, queue)
    outcomes = {}
    deadline = time.time() + HANG_LIMIT
    for name, (proc, queue) in running.items():
        try:
            outcomes[name] = queue.get(timeout=max(0.1, deadline - time.time()))
        except Exception:  # queue.Empty
            outcomes[name] = ("hang", f"neither a result nor an error after {HANG_LIMIT:.0f}s")
        try:
            os.killpg(proc.pid, signal.SIGKILL)
        except (ProcessLookupError, PermissionError):
            pass
        proc.join(2)
    return outcomes


def sequential(function):
    CALLER_PID[0] = os.getpid()
    try:
        return ("returned", repr([function(*a) for a in ARGS]))
    except BaseException as err:  # pylint: disable=broad-except
        return ("raised", repr(err)[:150])


def main():
    outcomes = run_all({
        "control": sc_control,
        "control_timeout": sc_control_timeout,
        "killed": sc_killed,
        "sys_exit": sc_sys_exit,
        "two_arg_error": sc_two_arg_error,
        "execute_killed": sc_execute_killed,
        "preprocess": sc_preprocess,
        "preprocess_control": sc_preprocess_control,
    })
    violations = []

    # the harness itself must be sound: healthy batch comes back, in order, quickly
    ref = sequential(ok)
    if outcomes["control"] != ref:
        violations.append(f"parallel_function(ok, 6 items, cpus=3): expected {ref}, got {outcomes['control']}")
    print("control       :", outcomes["control"])
    print("control+timeout (killed worker, timeout=1):", outcomes["control_timeout"])

    ref = sequential(killed_from_outside)
    if outcomes["killed"][0] == "hang":
        violations.append(
            "parallel_function(f, [[0]..[5]], cpus=3) (no timeout, as in pre_process_sequences) where the worker "
            "process busy with item 2 is killed by SIGKILL (OOM killer/segfault): expected the sequential list "
            f"{ref[1]} or an error; actual: {outcomes['killed'][1]} - the call blocks for ever "
            "(multiprocessing.Pool silently replaces the dead worker and the task is lost)")
    ref = sequential(calls_sys_exit)
    if outcomes["sys_exit"][0] == "hang":
        violations.append(
            "parallel_function(f, [[0]..[5]], cpus=3) where f(2) calls sys.exit(3): sequential evaluation (and cpus=1) "
            f"gives {ref}; with cpus=3: {outcomes['sys_exit'][1]} (SystemExit ends the worker, task lost, caller blocks for ever)")
    ref = sequential(raises_two_arg_error)
    if outcomes["two_arg_error"][0] == "hang":
        violations.append(
            "parallel_function(f, [[0]..[5]], cpus=3) where f(2) raises an exception class with two constructor "
            f"arguments: sequential evaluation (and cpus=1) gives {ref}; with cpus=3: {outcomes['two_arg_error'][1]} "
            "(the exception cannot be rebuilt in the parent, Pool's result thread dies, jobs.get() never returns)")
    if outcomes["execute_killed"][0] == "hang":
        violations.append(
            "parallel_execute([ok, <command that gets its pool worker killed>, ok], cpus=2) (no timeout, as used by CASSIS): "
            f"expected return codes or an error; actual: {outcomes['execute_killed'][1]}")
    print("preprocess control (same batch, no worker killed):", outcomes["preprocess_control"])
    if outcomes["preprocess"][0] == "hang" and outcomes["preprocess_control"][0] == "returned":
        violations.append(
            "pre_process_sequences(3 records without genes, cpus=2) where the worker doing gene finding for record r1 "
            "is killed: expected an error (in-process the three records come back with 1 CDS each); "
            f"actual: {outcomes['preprocess'][1]} - antiSMASH never finishes and reports nothing")
    else:
        print("preprocess    :", outcomes["preprocess"])

    for line in violations:
        print("VIOLATION:", line)
    if not violations:
        print("NOTHING FOUND")
        return 0
    return 1


if __name__ == "__main__":
    sys.exit(main())
