#!/usr/bin/env python
""" Demonstrations for property C08 (genes belong to exactly the areas that
    contain them, whatever the build order).

    Run as:  cd <repo root> && PYTHONPATH=<repo root> /venv/bin/python SEED/demo.py

    Every check is judged by an independent reference that only uses sets of
    base positions and plain integer arithmetic, never the secmet helpers.
"""

import sys

from antismash.common.secmet.record import Record
from antismash.common.secmet.features import CDSFeature, SubRegion
from antismash.common.secmet.locations import FeatureLocation as FL, CompoundLocation as CL

VIOLATIONS = []


def violation(text):
    """ one line per distinct defect """
    VIOLATIONS.append(text)
    print("VIOLATION:", text)


def also(text):
    """ a further symptom of the defect reported just before """
    print("    also:", text)


# ---------------------------------------------------------------- helpers
def make_record(length, circular=True):
    record = Record("A" * length)
    if circular:
        record.add_annotation("topology", "circular")
    return record


def make_cds(location, name):
    return CDSFeature(location, translation="M", locus_tag=name)


def bases(location):
    """ reference: the set of base positions covered by a location """
    result = set()
    for part in location.parts:
        result.update(range(int(part.start), int(part.end)))
    return result


def ref_contained(gene_loc, area_loc):
    """ reference: every exon of the gene lies inside one contiguous piece of the area """
    pieces = [(int(p.start), int(p.end)) for p in area_loc.parts]
    return all(any(s <= int(exon.start) and int(exon.end) <= e for s, e in pieces)
               for exon in gene_loc.parts)


def begin_coordinate(gene_loc):
    """ reference: the coordinate at which a gene begins when walking the record
        in the forward direction. For a gene crossing the origin that is the
        start of its piece before the origin, otherwise its lowest coordinate.
    """
    starts = [int(p.start) for p in gene_loc.parts]
    if gene_loc.strand == -1:
        starts.reverse()  # parts of reverse strand genes are listed end to start
    # a forward walk over the parts wraps exactly once if it crosses the origin
    for i in range(1, len(starts)):
        if starts[i] < starts[i - 1]:
            return min(starts[:i])   # pieces before the wrap are the pre-origin ones
    return min(starts)


def names(features):
    return [f.get_name() for f in features]


# ------------------------------------------------- defect 1: result order
def defect_order():
    length = 1000
    specs = [
        ("X", FL(950, 970, 1)),                              # before the origin
        ("C", CL([FL(980, 1000, 1), FL(0, 30, 1)])),         # crosses the origin, begins at 980
        ("N", FL(985, 997, -1)),                             # nested in C's first piece, begins at 985
        ("Y", FL(40, 60, 1)),                                # after the origin
    ]
    record = make_record(length)
    for name, loc in specs:
        record.add_cds_feature(make_cds(loc, name))
    by_name = dict(specs)

    def expected_order(found, query_start):
        return sorted(found, key=lambda n: (begin_coordinate(by_name[n]) - query_start) % length)

    # (a) origin-spanning location, genes contained
    query = CL([FL(940, 1000, 1), FL(0, 100, 1)])
    got = names(record.get_cds_features_within_location(query))
    exp_set = {n for n, loc in specs if bases(loc) <= bases(query)}
    assert set(got) == exp_set, (got, exp_set)   # membership is right, only the order is not
    exp = expected_order(got, 940)
    if got != exp:
        violation("order, origin-spanning location: circular record of 1000, genes X[950:970) "
                  "C=join{[980:1000),[0:30)} N[985:997)(-) Y[40:60); "
                  "get_cds_features_within_location(join{[940:1000),[0:100)}) "
                  f"expected location order {exp} (C begins at 980, before N at 985), got {got}")

    # (b) simple location, with_overlapping=True
    query = FL(900, 1000, 1)
    got = names(record.get_cds_features_within_location(query, with_overlapping=True))
    exp_set = {n for n, loc in specs if bases(loc) & bases(query)}
    assert set(got) == exp_set, (got, exp_set)
    exp = expected_order(got, 900)
    if got != exp:
        also("order, simple location: same record, "
                  "get_cds_features_within_location([900:1000), with_overlapping=True) "
                  f"expected location order {exp}, got {got} "
                  "(the origin-crossing gene C, which begins first of C and N and also sorts first "
                  "in the record, is appended after every other gene)")

    # (c) consequence for areas: the gene list of an origin-spanning subregion built after the genes
    sub = SubRegion(CL([FL(940, 1000, 1), FL(0, 100, 1)]), tool="demo")
    record.add_subregion(sub)
    got = names(sub.cds_children)
    exp = expected_order(got, 940)
    if got != exp:
        also(f"order, area: subregion join{{[940:1000),[0:100)}} added after the genes lists {got}, "
                  f"location order is {exp}")


# ------------------------------- defect 2: gene added after regions is not linked
def defect_region_link():
    length = 100
    # the gene is classed as origin-crossing by secmet (its parts wrap), but has
    # an intron over the origin, so both exons lie inside one ordinary region
    gene_loc = CL([FL(50, 60, 1), FL(5, 10, 1)])
    sub_locs = [FL(0, 2), FL(2, 4), FL(4, 70)]

    outcomes = {}
    for order in ("genes first", "areas first"):
        record = make_record(length)
        gene = make_cds(gene_loc, "odd")
        if order == "genes first":
            record.add_cds_feature(gene)
        for i, loc in enumerate(sub_locs):
            record.add_subregion(SubRegion(loc, tool="demo", label=str(i)))
        record.create_regions()
        if order == "areas first":
            record.add_cds_feature(gene)
        assert gene.crosses_origin()
        listed = [str(r.location) for r in record.get_regions() if gene in r.cds_children]
        pointer = str(gene.region.location) if gene.region else None
        outcomes[order] = (listed, pointer)

    # reference: the regions whose location contains every exon of the gene
    record = make_record(length)
    expected = [str(FL(int(l.start), int(l.end))) for l in sub_locs if ref_contained(gene_loc, l)]
    assert expected == ["[4:70]"], expected
    for order, (listed, pointer) in outcomes.items():
        if listed != expected or pointer != expected[0]:
            violation(f"build order ({order}): circular record of 100, regions [0:2) [2:4) [4:70) "
                      "(from three subregions), gene join{[50:60)(+),[5:10)(+)}: "
                      f"expected region [4:70) to list the gene and gene.region == [4:70), "
                      f"got listed in {listed}, gene.region = {pointer}; "
                      f"with the other order: {outcomes['genes first']}")


# -------------------- defect 3 (minor): location wholly before the record start
def defect_negative_location():
    record = make_record(100, circular=False)
    record.add_cds_feature(make_cds(FL(0, 9, 1), "first"))
    record.add_cds_feature(make_cds(FL(20, 29, 1), "second"))
    query = FL(-10, -5)
    got = names(record.get_cds_features_within_location(query, with_overlapping=True))
    exp = sorted(n for n, loc in (("first", FL(0, 9)), ("second", FL(20, 29))) if bases(loc) & bases(query))
    if got != exp:
        violation("minor, boundary at coordinate 0: linear record, genes [0:9) [20:29); "
                  "get_cds_features_within_location([-10:-5), with_overlapping=True) "
                  f"shares no base with any gene, expected {exp}, got {got} "
                  "(negative starts are accepted and clamped, but the end is clamped to 1, not 0)")


def main():
    defect_order()
    defect_region_link()
    defect_negative_location()
    if not VIOLATIONS:
        print("NOTHING FOUND")
        return 0
    return 1


if __name__ == "__main__":
    sys.exit(main())
