#!/usr/bin/env python
""" C07 - detection must be invariant under origin rotation and rule order.

    Standalone demonstration of the violations found.  Run as
        cd <repo root> && PYTHONPATH=<repo root> /venv/bin/python SEED/demo.py

    Independent reference used throughout: an abstract circular genome in which genes are
    circular intervals (start, length) with a table of profile hits.  Rotating the origin by
    k only renames coordinates ((x - k) mod L, done here, not by antiSMASH code), so every
    result expressed in gene NAMES must be identical for every k.  Where useful, the expected
    answer is also computed from plain base-position arithmetic.
"""
import logging
import sys

from Bio.Seq import Seq

from antismash.common.secmet import Record
from antismash.common.secmet.features import CDSFeature
from antismash.common.secmet.locations import FeatureLocation, CompoundLocation
from antismash.common.secmet.qualifiers import GeneFunction
from antismash.common.signature import HmmSignature
from antismash.common.hmm_rule_parser import rule_parser, cluster_prediction
from antismash.common.hmm_rule_parser.cluster_prediction import Ruleset, detect_protoclusters_and_signatures
from antismash.common.hmm_rule_parser.structures import DynamicProfile, DynamicHit, HMMerHit, Multipliers
from antismash.detection.hmm_detection.dynamic_profiles import triceptide_rsam

logging.disable(logging.CRITICAL)

PROFILES = ["pa", "pb", "pc", "pd", "pe", "pf"]
VIOLATIONS = []


def violation(text):
    VIOLATIONS.append(text)
    print("VIOLATION: " + text)


class Gene:
    def __init__(self, name, exons, strand, hits):
        self.name, self.exons, self.strand, self.hits = name, exons, strand, hits


def location_for(gene, length, k):
    """ rotation of the abstract gene into record coordinates, independent of antiSMASH """
    parts = []
    for start, size in gene.exons:
        new = (start - k) % length
        if new + size <= length:
            parts.append((new, new + size))
        else:
            parts.extend([(new, length), (0, new + size - length)])
    if gene.strand == -1:
        parts.reverse()
    locs = [FeatureLocation(s, e, gene.strand) for s, e in parts]
    return locs[0] if len(locs) == 1 else CompoundLocation(locs)


def build_record(genes, length, k, seq=None, circular=True):
    if seq is None:
        seq = "A" * length
    else:
        seq = seq[k:] + seq[:k]
    record = Record(seq=seq)
    record.id = "rec"
    record.add_annotation("topology", "circular" if circular else "linear")
    for gene in genes:
        loc = location_for(gene, length, k)
        record.add_cds_feature(CDSFeature(loc, locus_tag=gene.name, translation="M" * (len(loc) // 3)))
    return record


def table_profiles(genes):
    table = {g.name: g.hits for g in genes}
    profiles = {}
    for prof in PROFILES:
        def detect(record, _hmmer, prof=prof):
            return {cds.get_name(): [DynamicHit(cds.get_name(), prof, bitscore=table[cds.get_name()][prof])]
                    for cds in record.get_cds_features() if prof in table.get(cds.get_name(), {})}
        profiles[prof] = DynamicProfile(prof, "table lookup", detect)
    return profiles


def names(features):
    return tuple(sorted(f.get_name() for f in features))


def detect(genes, length, rules_text, k, circular=True):
    """ full rule-based detection + candidate clusters + regions, reported by gene name """
    record = build_record(genes, length, k, circular=circular)
    rules = rule_parser.Parser(rules_text, set(PROFILES), {"cat"}).rules
    ruleset = Ruleset(tuple(rules), {}, "nofile", {"cat"}, "rule-based-clusters",
                      dynamic_profiles=table_profiles(genes), equivalence_groups=[])
    results = detect_protoclusters_and_signatures(record, ruleset)
    results.annotate_cds_features()
    for proto in results.protoclusters:
        record.add_protocluster(proto)
    record.create_candidate_clusters()
    record.create_regions()
    out = {}
    out["protoclusters"] = sorted(
        (p.product, names(record.get_cds_features_within_location(p.core_location)), names(p.cds_children),
         names(p.definition_cdses)) for p in record.get_protoclusters())
    out["core genes by rule"] = sorted(
        (cds.get_name(), func.product) for cds in record.get_cds_features()
        for func in cds.gene_functions.get_by_function(GeneFunction.CORE))
    out["candidates"] = sorted((str(c.kind), tuple(sorted(p.product for p in c.protoclusters)), names(c.cds_children))
                               for c in record.get_candidate_clusters())
    out["regions"] = sorted(names(r.cds_children) for r in record.get_regions())
    out["max_region_fraction"] = max([len(r.location) / length for r in record.get_regions()] + [0])
    return out


def circular_gap(gene_a, gene_b, length):
    """ reference: number of bases strictly between two genes on the circle (0 if they touch/overlap) """
    pos_a = {(s + i) % length for s, n in gene_a.exons for i in range(n)}
    pos_b = {(s + i) % length for s, n in gene_b.exons for i in range(n)}
    if pos_a & pos_b:
        return 0
    best = length
    for start_set, end_set in ((pos_a, pos_b), (pos_b, pos_a)):
        for x in start_set:
            if (x + 1) % length in start_set:
                continue  # not a trailing edge
            step = 1
            while (x + step) % length not in end_set and step < best + 2:
                step += 1
            best = min(best, step - 1)
    return best


def compare_frames(label, genes, length, rules_text, k_a, k_b, keys, extra=""):
    res_a = detect(genes, length, rules_text, k_a)
    res_b = detect(genes, length, rules_text, k_b)
    assert max(res_a["max_region_fraction"], res_b["max_region_fraction"]) < 0.5, "regions must span < half"
    for key in keys:
        if res_a[key] != res_b[key]:
            violation(f"[{label}] circular record L={length}, same genes/hits/rules, origin moved from {k_a} to {k_b}: "
                      f"{key} differ: k={k_a}: {res_a[key]}  vs  k={k_b}: {res_b[key]}. {extra}")
            return True
    print(f"no difference for {label}")
    return False


# ---------------------------------------------------------------------------------------------
# Defect 1: apply_extenders() stops scanning at the first gene further than the cutoff, but the
# scan order is by gene START (cross-origin genes are listed first), so distances are not
# monotonic when a gene is nested in a longer one: whether the extender is reached depends on
# whether the long gene happens to cross the origin.
def defect_early_break():
    length = 150000
    genes = [Gene("B", [(8000, 5001)], 1, {"pf": 100}),      # extender gene, ends at 13001
             Gene("A", [(8500, 501)], 1, {}),                 # small gene nested in B, ends at 9001
             Gene("C", [(20000, 999)], 1, {"pe": 100}),       # the core gene
             Gene("far1", [(60000, 999)], 1, {}),
             Gene("far2", [(110000, 999)], 1, {})]
    rules = "RULE r CATEGORY cat CUTOFF 10 NEIGHBOURHOOD 2 CONDITIONS pe EXTENDERS pf"
    gap = circular_gap(genes[0], genes[2], length)
    assert gap == 6999  # reference: B is 6999 bases from C, well inside the 10 kb cutoff, in every frame
    compare_frames("extender-early-break", genes, length, rules, 0, 10000, ["protoclusters", "regions"],
                   extra=f"Reference: extender gene B is {gap} nt from core gene C (cutoff 10000) in every frame, "
                         "so the core must be B..C in both; at k=0 nested gene A (11000 nt away) is met first and "
                         "ends the scan.")


# Defect 2: apply_extenders() measures the distance of the first candidate from core_cdses[-1] /
# core_cdses[0], i.e. from whichever core gene is listed last/first, not from the core's edge.
# With a gene nested in the core gene the listed-last gene changes when the core crosses the origin.
def defect_wrong_reference_gene():
    length = 100000
    genes = [Gene("g0", [(46487, 2946)], 1, {"pe": 51}),     # core gene, ends 49433
             Gene("g4", [(46767, 963)], 1, {}),               # nested in g0, ends 47730
             Gene("g2", [(51081, 2196)], -1, {"pf": 50}),     # extender, 1648 nt after g0
             Gene("far", [(70000, 900)], 1, {})]              # unrelated gene elsewhere
    rules = "RULE r CATEGORY cat CUTOFF 2 NEIGHBOURHOOD 2 CONDITIONS pe EXTENDERS pf"
    gap = circular_gap(genes[0], genes[2], length)
    assert gap == 1648
    compare_frames("extender-distance-from-nested-gene", genes, length, rules, 0, 47925,
                   ["protoclusters", "regions"],
                   extra=f"Reference: extender g2 is {gap} nt from core gene g0 (cutoff 2000) in every frame; at k=0 "
                         "the distance is taken from nested gene g4 (3351 nt) instead.")


# Defect 3: on a circular record the backwards scan of apply_extenders() wraps round the whole
# record, skipping only cdses[index]; when that skipped gene is an extender and a later extender
# is reached "backwards", the forward scan then skips it as 'already inside the core' and it is
# never marked.  Which gene is cdses[index] depends on the origin (multi-exon core gene).
def defect_unmarked_extender():
    length = 150000
    genes = [Gene("g1", [(50000, 300), (50400, 300)], 1, {"pe": 100}),   # two exons
             Gene("g2", [(52000, 600)], 1, {"pf": 100, "pc": 100}),
             Gene("g3", [(55000, 600)], 1, {"pf": 100})]
    rules = ("RULE r CATEGORY cat CUTOFF 10 NEIGHBOURHOOD 2 CONDITIONS pe EXTENDERS pf\n"
             "RULE s CATEGORY cat CUTOFF 1 NEIGHBOURHOOD 1 CONDITIONS pc")
    compare_frames("extender-inside-extended-core-not-marked", genes, length, rules, 0, 50350,
                   ["core genes by rule", "candidates"],
                   extra="Reference: g2 (pf, 1400 nt from g1) satisfies the extender of rule r in every frame, so it "
                         "must be a core gene of r in both, and r/s must share g2 (chemical hybrid) in both.")


# ---------------------------------------------------------------------------------------------
# Defects 4-6: the dynamic profiles triceptide_rSAM / darobactin_rSAM (rules 'triceptide' and
# 'darobactin') look for a precursor ORF around an rSAM/SPASM anchor gene.  hmmsearch is not
# available, so find_hmmer_hits() is replaced by a hand-built hit table; everything else is the
# real code path of detect_protoclusters_and_signatures().
def rsam_detect(anchor_strand, orf_start, k, length=30000):
    orf = "ATG" + "TGGGATAAC" + "GCC" * 8 + "TAA"   # MWDNAAAAAAAA* : contains the WDN motif, 12 aa
    seq = ["C"] * length                          # poly-C: no start or stop codon on either strand
    seq[orf_start:orf_start + len(orf)] = list(orf)
    seq = "".join(seq)
    anchor = Gene("anchor", [(5000, 900)], anchor_strand, {})
    record = build_record([anchor], length, k, seq=seq)
    hits = {"anchor": [HMMerHit("anchor", "PF04055", 0, 10, 1, 1e-10, 50.),
                       HMMerHit("anchor", "SPASM", 0, 10, 1, 1e-10, 50.)]}
    original = cluster_prediction.find_hmmer_hits
    cluster_prediction.find_hmmer_hits = lambda *_args, **_kwargs: dict(hits)
    try:
        rules = rule_parser.Parser("RULE triceptide CATEGORY cat CUTOFF 10 NEIGHBOURHOOD 5 CONDITIONS triceptide_rSAM",
                                   {"triceptide_rSAM"}, {"cat"}).rules
        signatures = {name: HmmSignature(name, "desc", 0, "nofile") for name in ("PF04055", "SPASM")}
        ruleset = Ruleset(tuple(rules), signatures, "nofile", {"cat"}, "rule-based-clusters",
                          dynamic_profiles={"triceptide_rSAM": triceptide_rsam.profile}, equivalence_groups=[])
        try:
            results = detect_protoclusters_and_signatures(record, ruleset)
        except Exception as err:  # pylint: disable=broad-except
            return f"{type(err).__name__}: {err}"
    finally:
        cluster_prediction.find_hmmer_hits = original
    return sorted((p.product, names(record.get_cds_features_within_location(p.core_location)))
                  for p in results.protoclusters)


def defects_rsam_profiles():
    # reference: the only ORF of the record (MWDNAAAAAAAA, WDN motif, >= 10 aa) sits 300 nt after the
    # anchor gene, within the profile's 1000 nt search distance, in every frame -> rule fires on 'anchor'
    expected = [("triceptide", ("anchor",))]
    base = rsam_detect(1, 6200, 0)
    assert base == expected, base
    base_rev = rsam_detect(-1, 6200, 0)
    assert base_rev == expected, base_rev

    got = rsam_detect(-1, 6200, 4500)     # reverse strand anchor now at 500..1400, window crosses origin
    if got != expected:
        violation("[rSAM-profile-reverse-anchor-near-origin] circular record L=30000 with a reverse-strand rSAM/SPASM "
                  "gene 'anchor' and a WDN precursor ORF 300 nt away: with the origin at k=0 rule 'triceptide' "
                  f"fires on anchor ({base_rev}); with the origin moved to k=4500 (anchor 500 nt after the origin) "
                  f"detection aborts with {got!r}")
    got = rsam_detect(1, 6200, 5400)      # forward anchor cut by the origin
    if got != expected:
        violation("[rSAM-profile-cross-origin-gene-hides-ORFs] same record with a forward-strand anchor: k=0 gives "
                  f"{base}, but with the origin inside the anchor gene (k=5400) the result is {got}: the "
                  "origin-crossing CDS is treated as covering the whole record, so no intergenic ORF is searched")
    got = rsam_detect(1, 6200, 6215)      # origin inside the precursor ORF
    if got != expected:
        violation("[rSAM-profile-cross-origin-precursor] same record, forward anchor: k=0 gives "
                  f"{base}, but with the origin inside the precursor ORF (k=6215) the result is {got}: the "
                  "origin-crossing ORF is 'trimmed' into a bogus [0:L] feature and the motif is lost")


# ---------------------------------------------------------------------------------------------
# Defect 7 (API level, not reachable through hmm_detection.get_ruleset): sub-selecting rules of a
# Ruleset that carries multipliers re-applies the multipliers to the shared rule objects.
def defect_multipliers_compound():
    length = 200000
    genes = [Gene("core", [(50000, 900)], 1, {"pa": 100}),
             Gene("near", [(68000, 900)], 1, {}),      # 17100 nt after the core gene
             Gene("other", [(120000, 900)], 1, {"pb": 100})]
    text = ("RULE r0 CATEGORY cat CUTOFF 10 NEIGHBOURHOOD 10 CONDITIONS pa\n"
            "RULE r1 CATEGORY cat CUTOFF 10 NEIGHBOURHOOD 10 CONDITIONS pb")

    def members(ruleset):
        record = build_record(genes, length, 0, circular=False)
        results = detect_protoclusters_and_signatures(record, ruleset)
        return sorted((p.product, names(record.get_cds_features_within_location(p.location)))
                      for p in results.protoclusters if p.product == "r0")

    rules = rule_parser.Parser(text, set(PROFILES), {"cat"}).rules
    full = Ruleset(tuple(rules), {}, "nofile", {"cat"}, "rule-based-clusters", multipliers=Multipliers(1.0, 1.5),
                   dynamic_profiles=table_profiles(genes), equivalence_groups=[])
    before = members(full)
    subset = full.copy_with_replacements(rules=[rule for rule in full.rules if rule.name == "r0"])
    after_subset = members(subset)
    after_full = members(full)
    # reference: r0 with neighbourhood 10 kb * 1.5 = 15000 reaches 65900, gene 'near' (68000) is not a member
    if before != after_subset or before != after_full:
        violation("[ruleset-subselection-compounds-multipliers] linear record, ruleset {r0, r1} with neighbourhood "
                  f"multiplier 1.5: protoclusters of r0 = {before}; after sub-selecting {{r0}} with "
                  f"Ruleset.copy_with_replacements(rules=...) r0 gives {after_subset} (neighbourhood 15000 -> 22500), "
                  f"and the ORIGINAL ruleset now also gives {after_full}: the result for r0 depends on which other "
                  "rules were selected")


def main():
    defect_early_break()
    defect_wrong_reference_gene()
    defect_unmarked_extender()
    defects_rsam_profiles()
    defect_multipliers_compound()
    if not VIOLATIONS:
        print("NOTHING FOUND")
        return 0
    print(f"{len(VIOLATIONS)} violation(s)")
    return 1


if __name__ == "__main__":
    sys.exit(main())
