""" Demonstrations of violations of property C12:
    "Per-region GenBank files are faithful, self-consistent extracts"

    Run as:  cd <repo root> && PYTHONPATH=<repo root> /venv/bin/python SEED/demo.py

    Every check compares antiSMASH's behaviour with an independent reference
    built from plain sets/lists of base positions of the full record.
"""

import io
import os
import random
import sys
import tempfile
import warnings

from Bio import SeqIO
from Bio.Seq import Seq
from Bio.SeqFeature import SeqFeature

from antismash.common.secmet import Record
from antismash.common.secmet.features import CDSFeature, Protocluster, SubRegion
from antismash.common.secmet.features.protocluster import SideloadedProtocluster
from antismash.common.secmet.locations import CompoundLocation as CL, FeatureLocation as FL

warnings.simplefilter("ignore")

VIOLATIONS = []


def report(text):
    VIOLATIONS.append(text)
    print("VIOLATION:", text)


# ---------- independent reference helpers ----------
def region_positions(region):
    """ the positions of the full record covered by the region, in the order
        they have to appear in the region's file """
    parts = region.location.parts
    if len(parts) == 2:  # origin spanning: pre-origin part, then post-origin part
        return list(range(parts[0].start, parts[0].end)) + list(range(parts[1].start, parts[1].end))
    return list(range(parts[0].start, parts[0].end))


def position_set(location, index=None):
    """ the set of positions a location covers, optionally mapped into region coordinates """
    result = set()
    for part in location.parts:
        for pos in range(int(part.start), int(part.end)):
            result.add(index[pos] if index is not None else pos)
    return frozenset(result)


def as_ranges(positions):
    out = []
    for pos in sorted(positions):
        if out and out[-1][1] == pos:
            out[-1][1] = pos + 1
        else:
            out.append([pos, pos + 1])
    return ",".join(f"{a}:{b}" for a, b in out)


def new_record(length, circular, record_id):
    rng = random.Random(length)
    record = Record(Seq("".join(rng.choice("ACGT") for _ in range(length))))
    record.id = record_id
    record.name = record_id
    record._record.annotations["topology"] = "circular" if circular else "linear"  # pylint: disable=protected-access
    record._record.annotations["molecule_type"] = "DNA"  # pylint: disable=protected-access
    return record


def write_region(region):
    """ writes the region's file exactly as antiSMASH does, returns the text """
    with tempfile.TemporaryDirectory() as tmp:
        region.write_to_genbank(directory=tmp)
        files = os.listdir(tmp)
        assert len(files) == 1
        with open(os.path.join(tmp, files[0]), encoding="utf-8") as handle:
            return handle.read()


def reload_text(text):
    bio = list(SeqIO.parse(io.StringIO(text), "genbank"))
    assert len(bio) == 1
    return Record.from_biopython(bio[0], taxon="bacteria")


# ---------- defect 1 ----------
def demo_multi_exon_gene_spanning_linear_region():
    """ linear record, region 100..400 defined by a subregion, one CDS with two exons
        (100..160 and 340..400) lying inside the region, first base to last base """
    record = new_record(1000, False, "LIN1")
    cds_location = CL([FL(100, 160, 1), FL(340, 400, 1)])
    record.add_cds_feature(CDSFeature(cds_location, locus_tag="geneA", translation="M" * 40))
    record.add_subregion(SubRegion(FL(100, 400, 1), tool="sideloaded", label="demo"))
    record.create_regions()
    region = record.get_regions()[0]
    positions = region_positions(region)
    index = {pos: i for i, pos in enumerate(positions)}
    # reference: the CDS is inside the region, so the file must contain it, and must load
    assert position_set(cds_location) <= set(positions)
    expected = as_ranges(position_set(cds_location, index))

    text = write_region(region)
    try:
        new = reload_text(text)
    except Exception as err:  # pylint: disable=broad-except
        report("linear 1000 bp record, subregion/region [100:400], CDS join(101..160,341..400) inside it "
               f"(expected in the file at {expected} and the file loadable with one region): "
               f"the written file cannot be loaded again: {type(err).__name__}: {err}")
        return
    if len(new.get_regions()) != 1:
        report(f"defect 1 variant: reloaded {len(new.get_regions())} regions")


# ---------- defect 2 ----------
def describe_candidates(candidates, index=None):
    """ content of candidate clusters, independent of any numbering:
        kind, polymer, covered bases and for every protocluster product/tool/covered bases/core bases """
    result = []
    for cand in candidates:
        protos = sorted((proto.product, proto.tool, as_ranges(position_set(proto.location, index)),
                         as_ranges(position_set(proto.core_location, index))) for proto in cand.protoclusters)
        result.append((str(cand.kind), cand.polymer, as_ranges(position_set(cand.location, index)), tuple(protos)))
    return sorted(result)


def demo_tied_protoclusters_in_origin_spanning_region():
    """ circular record: two protoclusters with identical coordinates (700..1000,0..50) in an
        origin spanning region, one core over the origin, one core before it """
    record = new_record(1000, True, "CIRC1")
    shared = CL([FL(700, 1000, 1), FL(0, 50, 1)])
    # product 'b', core crossing the origin
    record.add_protocluster(Protocluster(CL([FL(990, 1000, 1), FL(0, 20, 1)]), shared, "rule-based-clusters",
                                         "b", 10, 10, "rule b", "cat"))
    # product 'a', core before the origin
    record.add_protocluster(Protocluster(FL(850, 960, 1), shared, "rule-based-clusters",
                                         "a", 10, 10, "rule a", "cat"))
    # interleaved with the first (cores overlap)
    record.add_protocluster(SideloadedProtocluster(FL(10, 30, 1), FL(0, 100, 1), "side", "c", neighbourhood_range=70))
    record.create_candidate_clusters()
    record.create_regions()
    assert len(record.get_regions()) == 1
    region = record.get_regions()[0]
    assert region.crosses_origin()
    positions = region_positions(region)
    index = {pos: i for i, pos in enumerate(positions)}
    expected = describe_candidates(region.candidate_clusters, index)

    text = write_region(region)
    new = reload_text(text)
    assert len(new.get_regions()) == 1
    got = describe_candidates(new.get_regions()[0].candidate_clusters)
    if expected != got:
        def short(described):
            return "; ".join(f"{kind}[{'+'.join(p[0] for p in protos)}]" for kind, _, _, protos in described)
        report("circular 1000 bp record, protoclusters 'b' (core 991..1000,1..20) and 'a' (core 851..960) with "
               "identical coordinates join(701..1000,1..50), plus 'c' [0:100] (core 11..30), region "
               f"{region.location}: candidate clusters of the full record are {{{short(expected)}}} but the "
               f"reloaded region file has {{{short(got)}}} - the protocluster numbers written into the file do "
               "not match the numbers the loader gives the (shifted) protoclusters, so candidate clusters "
               "refer to the wrong protocluster")
    # the file's own numbering against the loader's numbering, protocluster by protocluster
    bio = list(SeqIO.parse(io.StringIO(text), "genbank"))[0]
    mismatches = []
    for feature in bio.features:
        if feature.type != "protocluster":
            continue
        number = int(feature.qualifiers["protocluster_number"][0])
        loaded = new.get_protocluster(number)
        if loaded.product != feature.qualifiers["product"][0]:
            mismatches.append(f"file says protocluster {number} is '{feature.qualifiers['product'][0]}', "
                              f"loader says protocluster {number} is '{loaded.product}'")
    if mismatches and expected == got:
        report("tied protoclusters in origin spanning region: " + "; ".join(mismatches))


# ---------- defect 3 ----------
def demo_frameshifted_cds_at_region_edge():
    """ linear record, CDS 301..401 with codon_start=3 (so antiSMASH uses 303..401),
        region starting exactly at the first used base of the CDS (302, 0-based) """
    record = new_record(1000, False, "LIN2")
    bio_cds = SeqFeature(FL(300, 401, 1), type="CDS",
                         qualifiers={"locus_tag": ["geneB"], "codon_start": ["3"], "translation": ["M" * 33]})
    cds = CDSFeature.from_biopython(bio_cds, record=record)
    record.add_cds_feature(cds)
    record.add_subregion(SubRegion(FL(int(cds.location.start), 600, 1), tool="sideloaded", label="demo"))
    record.create_regions()
    region = record.get_regions()[0]
    positions = set(region_positions(region))
    # reference: every base of the CDS as antiSMASH holds it is in the region, and the region lists it
    assert position_set(cds.location) <= positions
    expected = sorted(c.get_name() for c in region.cds_children)
    assert expected == ["geneB"]

    text = write_region(region)
    try:
        new = reload_text(text)
    except Exception as err:  # pylint: disable=broad-except
        report(f"frameshifted CDS at region edge: file cannot be loaded: {err}")
        return
    got = sorted(c.get_name() for c in new.get_regions()[0].cds_children)
    in_file = "geneB" in text
    if got != expected:
        report("linear 1000 bp record, CDS 301..401 with /codon_start=3 (location used by antiSMASH [302:401]), "
               f"region {region.location} starting at the CDS's first used base: the region of the full record "
               f"contains CDS {expected}, the reloaded region file contains {got} "
               f"(CDS present in file: {in_file}) - a gene inside the region is missing from its file")


# ---------- defect 4 ----------
def demo_gene_with_intron_over_the_gap_of_an_almost_whole_record_region():
    """ circular 600 bp record, region join(121..600,1..100), i.e. everything but 101..120,
        and a two exon CDS join(41..70,131..160) whose intron holds the 20 bases outside the region """
    record = new_record(600, True, "CIRC2")
    cds_location = CL([FL(40, 70, 1), FL(130, 160, 1)])
    record.add_cds_feature(CDSFeature(cds_location, locus_tag="geneC", translation="M" * 20))
    record.add_cds_feature(CDSFeature(FL(300, 360, 1), locus_tag="geneD", translation="M" * 20))
    record.add_subregion(SubRegion(CL([FL(120, 600, 1), FL(0, 100, 1)]), tool="sideloaded", label="demo"))
    record.create_regions()
    region = record.get_regions()[0]
    positions = region_positions(region)
    index = {pos: i for i, pos in enumerate(positions)}
    # reference: all bases of the CDS are bases of the region, and antiSMASH lists it as a gene of the region
    assert position_set(cds_location) <= set(positions)
    expected = sorted(c.get_name() for c in region.cds_children)
    assert expected == ["geneC", "geneD"], expected
    expected_bases = as_ranges(position_set(cds_location, index))

    text = write_region(region)
    try:
        new = reload_text(text)
    except Exception as err:  # pylint: disable=broad-except
        report(f"gene with intron over the gap: file cannot be loaded: {err}")
        return
    got = sorted(c.get_name() for c in new.get_regions()[0].cds_children)
    if got != expected:
        report("circular 600 bp record, region join(121..600,1..100) (all but 20 bases), CDS join(41..70,131..160) "
               f"with those 20 bases inside its intron: the region of the full record has the genes {expected} "
               f"(geneC expected in the file at {expected_bases}), the reloaded region file has {got} "
               f"(geneC present in file: {'geneC' in text}) - a gene inside the region is missing from its file")


def main():
    demo_multi_exon_gene_spanning_linear_region()
    demo_tied_protoclusters_in_origin_spanning_region()
    demo_frameshifted_cds_at_region_edge()
    demo_gene_with_intron_over_the_gap_of_an_almost_whole_record_region()
    if not VIOLATIONS:
        print("NOTHING FOUND")
        return 0
    return 1


if __name__ == "__main__":
    sys.exit(main())
