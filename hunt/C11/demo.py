#!/usr/bin/env python3
""" C11 hunt: "Reusing saved module results reproduces the original results"

    Run as:  cd <repo root> && PYTHONPATH=<repo root> /venv/bin/python SEED/demo.py

    Every check compares the UNCHANGED antiSMASH code against a plain expectation
    computed here (byte comparison of JSON text, multiset of record features,
    a fresh run with the new settings, ...).  No network, no external binaries:
    the only things replaced are the wrappers around external programs
    (hmmsearch/hmmscan/hmmpfam2/blast), which get hand-built hit tables.
"""

import json as stdjson
import os
import random
import subprocess
import sys
from types import SimpleNamespace as NS

VIOLATIONS = []


def violation(text: str) -> None:
    VIOLATIONS.append(text)
    print("VIOLATION:", text)


# --------------------------------------------------------------------------
# child mode, used by the hash seed check (defect 4b): regenerate + save only
# --------------------------------------------------------------------------
if len(sys.argv) > 1 and sys.argv[1] == "--t2pks-child":
    from antismash.common import json
    from antismash.modules.t2pks.results import T2PKSResults
    print(json.dumps(T2PKSResults.from_json(json.loads(sys.stdin.read()), None).to_json()))
    sys.exit(0)


from Bio.Seq import Seq  # noqa: E402

from antismash.common import json, hmmer  # noqa: E402
from antismash.common.comparippson.analysis import MultiDBResults  # noqa: E402
from antismash.common.hmm_rule_parser import cluster_prediction  # noqa: E402
from antismash.common.hmm_rule_parser.structures import HMMerHit  # noqa: E402
from antismash.common.secmet import Record  # noqa: E402
from antismash.common.secmet.features import CDSFeature, SubRegion  # noqa: E402
from antismash.common.secmet.locations import FeatureLocation  # noqa: E402
from antismash.config import build_config, update_config  # noqa: E402
from antismash.detection import cassis, hmm_detection  # noqa: E402
from antismash.detection.cassis.promoters import CombinedPromoter, Promoter  # noqa: E402
from antismash.main import get_all_modules  # noqa: E402
from antismash.modules import lassopeptides, rrefinder  # noqa: E402
from antismash.modules.lassopeptides import specific_analysis as lasso_analysis  # noqa: E402
from antismash.modules.nrps_pks.name_mappings import get_substrate_by_name  # noqa: E402
from antismash.modules.nrps_pks.nrpys import PredictorSVMResult, StachelhausMatch, SvmPrediction  # noqa: E402
from antismash.modules.nrps_pks.results import NRPS_PKS_Results, generate_nrps_consensus  # noqa: E402
from antismash.modules.sactipeptides.specific_analysis import SactiResults  # noqa: E402
from antismash.modules.t2pks.results import (  # noqa: E402
    CDSPrediction,
    Prediction,
    ProtoclusterPrediction,
    T2PKSResults,
)
from antismash.modules.thiopeptides.specific_analysis import ThioResults  # noqa: E402

OPTIONS = build_config(["--minimal"], isolated=True, modules=get_all_modules())


# --------------------------------------------------------------------------
# helpers: a deterministic record with a lassopeptide (RiPP) region
# --------------------------------------------------------------------------
def make_record(record_id: str = "recA", seed: int = 0) -> Record:
    """ 60 kb linear record with 12 x 3 kb genes and three short precursor-sized genes """
    rng = random.Random(seed)
    length = 60000
    rec = Record(Seq("".join(rng.choice("ACGT") for _ in range(length))), id=record_id, name=record_id)
    for i in range(12):
        start = i * 5000 + 300
        rec.add_cds_feature(CDSFeature(FeatureLocation(start, start + 3000, rng.choice([1, -1])),
                                       locus_tag=f"cds{i}", translation="M" * 999))
    for i, start in enumerate([8600, 8800, 9000]):
        rec.add_cds_feature(CDSFeature(FeatureLocation(start, start + 150, 1), locus_tag=f"pre{i}",
                                       translation="M" + "ACDEFGHIKL" * 4 + "CCDE" + "WYTS"))
    return rec


def add_lasso_region(rec: Record) -> Record:
    """ runs the real rule based detection with a hand-built hmmsearch hit table """
    table = {"cds1": ["micJ25"], "cds2": ["PF13471"], "cds3": ["PF00733"]}

    def fake_hits(*_args, **_kwargs):
        return {name: [HMMerHit(name, prof, 0, 100, 10, 1e-20, 150.5) for prof in profs]
                for name, profs in table.items()}
    cluster_prediction.find_hmmer_hits = fake_hits
    results = hmm_detection.run_on_record(rec, None, OPTIONS)
    for proto in results.get_predicted_protoclusters():
        rec.add_protocluster(proto)
    rec.create_candidate_clusters()
    rec.create_regions()
    assert [p.product for p in rec.get_protoclusters()] == ["lassopeptide"]
    return rec


def build(record_id: str = "recA") -> Record:
    return add_lasso_region(make_record(record_id))


def features_of(rec: Record) -> list:
    """ independent observation of what ended up in a record: every feature as (type, location, qualifiers) """
    return sorted((f.type, str(f.location), stdjson.dumps(f.qualifiers, sort_keys=True))
                  for f in rec.to_biopython().features)


# --------------------------------------------------------------------------
# 1. nrps_pks: PredictorSVMResult.from_json swaps aa34 and aa10
# --------------------------------------------------------------------------
def check_nrpys() -> None:
    ala = get_substrate_by_name("Ala")

    def no_pred() -> SvmPrediction:
        return SvmPrediction("N/A", 0.0, [])
    aa34 = "L--FD-----------GDRNMYGPTEATMCATW-"   # >= 10 gaps: an "uncertain" signature
    aa10 = "DALFLGMTFK"
    orig = PredictorSVMResult(aa34, aa10, [StachelhausMatch([ala], aa10, 0.7, 0.5)],
                              no_pred(), no_pred(), no_pred(), SvmPrediction("ala", 1.0, [ala]))
    results = NRPS_PKS_Results("recA")
    results.add_method_results("nrpys", {"nrpspksdomains_cds1_AMP-binding.1": orig})
    first = json.dumps(results.to_json())
    regen = NRPS_PKS_Results.from_json(json.loads(first), None)
    second = json.dumps(regen.to_json())
    new = regen.domain_predictions["nrpspksdomains_cds1_AMP-binding.1"]["nrpys"]
    if first != second or (new.aa34, new.aa10) != (aa34, aa10):
        violation("nrps_pks: NRPS_PKS_Results with one nrpys prediction (aa34=%r, aa10=%r): after to_json -> from_json "
                  "the prediction has aa34=%r, aa10=%r (swapped) and saves to different JSON; expected identical JSON"
                  % (aa34, aa10, new.aa34, new.aa10))
    # and it changes what add_to_record() annotates ("substrate consensus" of the A domain)
    before = generate_nrps_consensus({"nrpys": orig})
    after = generate_nrps_consensus({"nrpys": new})
    if before != after:
        violation("nrps_pks: the same prediction gives substrate consensus %r before saving but %r after regenerating "
                  "(the 'uncertain signature' test is then applied to the 10 residue code), so "
                  "add_to_record() annotates the A domain differently" % (before, after))


# --------------------------------------------------------------------------
# 2. cassis: promoters stored twice when regenerated results are then "run"
# --------------------------------------------------------------------------
def check_cassis() -> None:
    def fake_detect(record, _options):
        res = cassis.CassisResults(record.id)
        res.promoters = [Promoter("cds1", 5000, 5300, seq="ACGT" * 10),
                         CombinedPromoter("cds2", "cds3", 10100, 10300, seq="TTGA" * 5)]
        res.subregions = [SubRegion(FeatureLocation(5300, 18300), tool="cassis", label="cds1")]
        return res
    real_detect = cassis.detect
    cassis.detect = fake_detect   # MEME/FIMO are not available
    try:
        rec = make_record()
        orig = cassis.run_on_record(rec, None, OPTIONS)
        saved = json.dumps(orig.to_json())
        rec2 = make_record()
        # exactly what main.run_module() does: regenerate, then run with the previous results
        regen = cassis.regenerate_previous_results(json.loads(saved), rec2, OPTIONS)
        regen = cassis.run_on_record(rec2, regen, OPTIONS)
    finally:
        cassis.detect = real_detect
    count = sum(1 for f in rec.all_features if f.type == "promoter")
    count2 = sum(1 for f in rec2.all_features if f.type == "promoter")
    if count != count2:
        violation("cassis: results with 2 promoters add %d promoter features in the original run but %d when the saved "
                  "results are regenerated and passed through run_on_record() (main.run_module with --cassis)"
                  % (count, count2))


# --------------------------------------------------------------------------
# 3 + 4a + 6a. lassopeptides
# --------------------------------------------------------------------------
def lasso_run():
    def fake_candidate(_record, _cluster, query, seq):
        # stands in for the pHMM + SVM decision, both of which need external binaries/data
        if not 40 <= len(seq) <= 120:
            return None
        return lasso_analysis.Lassopeptide(21, 12.5, 20, seq[:20], seq[20:])
    lasso_analysis.determine_precursor_peptide_candidate = fake_candidate
    lasso_analysis.subprocessing.run_hmmpfam2 = lambda *a, **k: []
    lasso_analysis.comparippson.compare_precursor_cores = lambda cores, opts: MultiDBResults([], {})

    rec = build()
    orig = lassopeptides.run_on_record(rec, None, OPTIONS)   # the real specific_analysis()/run_lassopred()
    orig.add_to_record(rec)
    return rec, orig


def check_lasso() -> None:
    rec, orig = lasso_run()
    saved = json.dumps(orig.to_json())

    rec2 = build()
    regen = lassopeptides.regenerate_previous_results(json.loads(saved), rec2, OPTIONS)
    regen = lassopeptides.run_on_record(rec2, regen, OPTIONS)
    regen.add_to_record(rec2)

    # 3. same annotations?
    before, after = features_of(rec), features_of(rec2)
    if before != after:
        lost = [f for f in before if f not in after]
        example = next(f for f in lost if '"pre0"' in f[2])
        violation("lassopeptides: the original run marks %d precursor genes with gene function "
                  "'biosynthetic-additional (lassopeptides) predicted lassopeptide' (e.g. %s), the regenerated results "
                  "add none of them: %d CDS features differ between the two records"
                  % (len(lost), stdjson.loads(example[2])["locus_tag"][0], len(lost)))

    # 4a. byte-identical JSON?
    again = json.dumps(regen.to_json())
    if saved != again:
        first, second = json.loads(saved), json.loads(again)
        parts = [key for key in first if first[key] != second[key]]
        same_content = all(sorted(map(str, first[key])) == sorted(map(str, second[key])) if isinstance(first[key], list)
                           else {k: sorted(v) for k, v in first[key].items()} == {k: sorted(v) for k, v in second[key].items()}
                           for key in parts)
        violation("lassopeptides: results with %d new ORFs / %d precursor loci save to different JSON text after "
                  "regenerating (sections %s differ, same content reordered: %s); LanthiResults, SactiResults use the "
                  "same set-typed members, ThioResults.clusters_with_motifs likewise"
                  % (len(first["new_cds_features"]), len(first["motifs"]), parts, same_content))

    # 6a. results of another record
    foreign = json.loads(saved)
    foreign["record_id"] = "some_other_record"
    rec3 = build()
    try:
        other = lassopeptides.regenerate_previous_results(foreign, rec3, OPTIONS)
        other = lassopeptides.run_on_record(rec3, other, OPTIONS) if other else None
    except Exception:  # a refusal would be fine
        other = None
    if other is not None and other.record_id != rec3.id:
        other.add_to_record(rec3)
        motifs = len(rec3.get_cds_motifs())
        violation("lassopeptides: results saved for record 'some_other_record' are accepted for record %r without any "
                  "check and add %d prepeptide motifs to it; expected them to be discarded or refused" % (rec3.id, motifs))


# --------------------------------------------------------------------------
# 4b. t2pks: product classes are saved in set order
# --------------------------------------------------------------------------
def t2pks_results() -> T2PKSResults:
    res = T2PKSResults("recA")
    classes = {"angucycline", "tetracenomycin", "aureolic acid", "anthracycline", "benzoisochromanequinone"}
    res.cluster_predictions[1] = ProtoclusterPrediction(
        {"cds1": [CDSPrediction("KS", None, 100.5, 1e-20)]}, [Prediction("acetyl-CoA", 50.0, 1e-5)],
        [Prediction("7", 10.0, 1e-3)], classes, {"acetyl-CoA_7": 342.3}, 100, 9000)
    return res


def check_t2pks_order() -> None:
    saved = json.dumps(t2pks_results().to_json())
    differing = []
    children = {}
    for seed in ("1", "2"):   # a reuse run is always another process, so another hash seed
        env = dict(os.environ, PYTHONHASHSEED=seed)
        children[seed] = subprocess.Popen([sys.executable, os.path.abspath(__file__), "--t2pks-child"],
                                          stdin=subprocess.PIPE, stdout=subprocess.PIPE, text=True, env=env)
        children[seed].stdin.write(saved)
        children[seed].stdin.close()
    for seed, child in children.items():
        out = child.stdout.read().strip()
        if child.wait() != 0:
            raise RuntimeError("child interpreter failed")
        if out != saved:
            differing.append(seed)
    if differing:
        violation("t2pks: a prediction with 5 product classes, saved, then regenerated and saved again by another "
                  "interpreter (PYTHONHASHSEED=%s) gives different JSON text (product_classes is written in set order)"
                  % ",".join(differing))


# --------------------------------------------------------------------------
# 5. reuse with stricter cutoffs keeps hits that a run with those cutoffs rejects
# --------------------------------------------------------------------------
def fake_hmmscan(_database, _fasta, opts=None):  # pylint: disable=unused-argument
    def hsp(query, score, start, end):
        return NS(query_id=query, bitscore=score, evalue=1e-5, query_start=start, query_end=end,
                  hit_id="Lasso_Fused_RRE", hit_description="desc")
    return [NS(id="cds2", hsps=[hsp("cds2", 30.0, 10, 90), hsp("cds2", 45.5, 200, 290)]),
            NS(id="cds3", hsps=[hsp("cds3", 27.1, 10, 90)])]


def check_rre() -> None:
    real = hmmer.subprocessing.run_hmmscan
    hmmer.subprocessing.run_hmmscan = fake_hmmscan
    try:
        def fresh(cutoff: float):
            update_config({"rre_cutoff": cutoff, "rre_min_length": 50})
            return rrefinder.run_on_record(build(), None, OPTIONS)
        saved = json.dumps(fresh(25.0).to_json())
        reference = fresh(30.0)                      # the independent reference: just run with the new setting
        update_config({"rre_cutoff": 30.0, "rre_min_length": 50})
        reused = rrefinder.regenerate_previous_results(json.loads(saved), build(), OPTIONS)
    finally:
        hmmer.subprocessing.run_hmmscan = real
        update_config({"rre_cutoff": 25.0, "rre_min_length": 50})

    def scores(res):
        return {name: [hit.score for hit in hits] for name, hits in res.hits_by_cds.items()}
    if reused is not None and json.dumps(reused.to_json()) != json.dumps(reference.to_json()):
        violation("rrefinder: hits scoring 27.1/30.0/45.5 saved with --rre-cutoff 25, reused with --rre-cutoff 30: the "
                  "reused results are relabelled bitscore_cutoff=%s and keep %s, a run with cutoff 30 gives %s "
                  "(build_hits() excludes score == cutoff, filter_hits()/refilter() keep it)"
                  % (reused.bitscore_cutoff, scores(reused), scores(reference)))

    # the same mismatch in the shared HmmerResults.refilter (full_hmmer, cluster_hmmer, tigrfam)
    database = os.path.join(os.path.dirname(rrefinder.__file__), "data", "RREFam.hmm")
    hmmer.subprocessing.run_hmmscan = fake_hmmscan
    try:
        rec = build()
        lenient = hmmer.run_hmmer(rec, rec.get_cds_features(), 1., 25.0, database, "demo", filter_overlapping=False,
                                  use_cut_tc=False)
        strict = hmmer.run_hmmer(rec, rec.get_cds_features(), 1., 30.0, database, "demo", filter_overlapping=False,
                                 use_cut_tc=False)
    finally:
        hmmer.subprocessing.run_hmmscan = real
    reloaded = hmmer.HmmerResults.from_json(json.loads(json.dumps(lenient.to_json())), rec).refilter(1., 30.0)
    if json.dumps(reloaded.to_json()) != json.dumps(strict.to_json()):
        violation("HmmerResults.refilter: results found with min score 25 and refiltered to min score 30 keep scores %s "
                  "but claim 'min score' 30.0; running with min score 30 finds %s"
                  % ([hit.score for hit in reloaded.hits], [hit.score for hit in strict.hits]))


# --------------------------------------------------------------------------
# 6b. more results classes that never compare the record id
# --------------------------------------------------------------------------
def check_foreign_records() -> None:
    rec = build("recA")
    accepted = []

    saved = t2pks_results().to_json()
    saved["record_id"] = "some_other_record"
    try:
        res = T2PKSResults.from_json(json.loads(json.dumps(saved)), rec)
        if res is not None:
            res.add_to_record(rec)   # protocluster 1 and cds1 exist in recA too
            if rec.get_cds_by_name("cds1").gene_functions.get_by_tool("t2pks"):
                accepted.append("t2pks (annotated cds1 and protocluster 1 of recA)")
    except Exception:
        pass

    nrps = NRPS_PKS_Results("some_other_record")
    nrps.consensus["nrpspksdomains_cds1_PKS_AT.1"] = "mal"
    try:
        res = NRPS_PKS_Results.from_json(json.loads(json.dumps(nrps.to_json())), rec)
        if res is not None and res.record_id != rec.id:
            res.add_to_record(rec)
            accepted.append("nrps_pks")
    except Exception:
        pass

    for cls in (SactiResults, ThioResults):
        empty = MultiDBResults([], {})
        blank = cls("some_other_record", empty)
        try:
            res = cls.from_json(json.loads(json.dumps(blank.to_json())), rec)
            if res is not None and res.record_id != rec.id:
                res.add_to_record(rec)
                accepted.append(cls.__name__)
        except Exception:
            pass
    if accepted:
        violation("results saved for record 'some_other_record' are regenerated and added to record 'recA' without "
                  "complaint by: %s; expected discarded or refused (as HmmerResults, NRPSPKSDomains, Pfam2GoResults do)"
                  % "; ".join(accepted))


# --------------------------------------------------------------------------
# 7. (minor) LassoResults/SactiResults cannot reload what they save when comparippson_results is None
# --------------------------------------------------------------------------
def check_none_comparippson() -> None:
    failed = []
    for cls in (lasso_analysis.LassoResults, SactiResults):
        res = cls("recA")   # comparippson_results defaults to None, to_json() writes null for it
        try:
            cls.from_json(json.loads(json.dumps(res.to_json())), make_record())
        except Exception as err:  # pylint: disable=broad-except
            failed.append(f"{cls.__name__}: {type(err).__name__}")
    if failed:
        violation("(minor, not reachable through run_on_record) to_json() of results constructed without "
                  "comparippson results cannot be read back: %s; LanthiResults/ThioResults handle the same null"
                  % ", ".join(failed))


def main() -> int:
    check_nrpys()
    check_cassis()
    check_lasso()
    check_t2pks_order()
    check_rre()
    check_foreign_records()
    check_none_comparippson()
    if not VIOLATIONS:
        print("NOTHING FOUND")
        return 0
    return 1


if __name__ == "__main__":
    sys.exit(main())
