#!/usr/bin/env python
""" C19 - region overview layout data: complete, non-overlapping, in range.

    Run as:  cd <repo root> && PYTHONPATH=<repo root> /venv/bin/python SEED/demo.py

    Every scenario builds a REAL secmet Record (Record.add_cds_feature / add_protocluster /
    add_subregion / create_candidate_clusters / create_regions) and observes the layout data
    through js.convert_regions (which calls area_packing.build_area_rows).
    The result is judged by an independent reference based on sets of base positions.
"""

import sys

from Bio.Seq import Seq

from antismash.common.secmet import Record
from antismash.common.secmet.features import CDSFeature, Protocluster, SubRegion
from antismash.common.secmet.locations import CompoundLocation as CL, FeatureLocation as FL
from antismash.config import update_config
from antismash.detection.sideloader.data_structures import ProtoclusterAnnotation, Tool
from antismash.outputs.html import js
from antismash.outputs.html.area_packing import build_area_rows

OPTIONS = update_config({"output_dir": "/tmp/c19_demo_out", "all_enabled_modules": [],
                         "html_ncbi_context": False})


# ---------------------------------------------------------------- builders
def loc(start, end, length, strand=1):
    """ start < end: simple location; otherwise one that wraps over the origin """
    if start < end:
        return FL(start, end, strand)
    parts = [FL(start, length, strand), FL(0, end, strand)]
    if strand == -1:
        parts.reverse()
    return CL(parts)


def make_record(length, circular=True):
    rec = Record(Seq("ATGC" * (length // 4) + "A" * (length % 4)))
    rec.id = "rec"
    rec.record_index = 1
    if circular:
        rec.add_annotation("topology", "circular")
    return rec


def make_proto(length, start, end, core_start, core_end, product):
    return Protocluster(loc(core_start, core_end, length), loc(start, end, length), tool="test",
                        product=product, cutoff=10, neighbourhood_range=10, detection_rule="r",
                        product_category="PKS")


def make_cds(length, exons, strand, name):
    parts = [FL(s, e, strand) for s, e in exons]
    if strand == -1:
        parts.reverse()
    location = parts[0] if len(parts) == 1 else CL(parts)
    return CDSFeature(location, locus_tag=name, translation="M" * (len(location) // 3))


# ---------------------------------------------------------------- reference
def circ(start, end, length):
    """ base positions of the circular interval start -> end """
    if start < end:
        return set(range(start, end))
    return set(range(start, length)) | set(range(0, end))


def check(rec):
    """ Returns a list of violations of the property for all regions of the record """
    length = len(rec.seq)
    problems = []
    js_regions = js.convert_regions(rec, OPTIONS, {})
    for region, js_region in zip(rec.get_regions(), js_regions):
        areas = js_region["clusters"]
        direct = build_area_rows(region, length, circular=rec.is_circular())
        assert [{k: v for k, v in a.items() if k != "group"} for a in areas] == \
               [{k: v for k, v in a.items() if k != "group"} for a in direct]
        crossing = region.crosses_origin()
        if crossing:
            low, high = int(region.location.parts[0].start), length + int(region.location.parts[-1].end)
        else:
            low, high = int(region.location.start), int(region.location.end)
        # the announced range (1-based start for plain regions, 0-based for origin-spanning ones)
        if int(js_region["start"]) not in (low, low + 1) or int(js_region["end"]) != high:
            problems.append(f"announced range {js_region['start']}-{js_region['end']} is not {low}-{high}")

        expected = {}
        for proto in region.get_unique_protoclusters():
            expected[("protocluster", proto.product)] = proto
        for sub in region.subregions:
            expected[("subregion", sub.label)] = sub
        for cand in region.candidate_clusters:
            if not region.subregions and cand.kind == cand.kinds.SINGLE:
                continue  # by design a lone single candidate is represented by its protocluster only
            expected[("candidatecluster", f"CC {cand.get_candidate_cluster_number()}: {cand.kind}")] = cand

        drawn = {key: [] for key in expected}
        groups = {}
        for area in areas:
            if area.get("group"):
                groups.setdefault(area["group"], []).append(area)
        for area in areas:
            key = (area["kind"], area.get("product", ""))
            if key not in expected:  # a half without label: find the sibling of the same group
                siblings = [(o["kind"], o.get("product", "")) for o in groups.get(area.get("group"), [])
                            if o is not area]
                siblings = [s for s in siblings if s in expected]
                if not siblings:
                    problems.append(f"area belongs to no feature of the region: {area}")
                    continue
                key = siblings[0]
            drawn[key].append(area)

        for key, feature in expected.items():
            name = f"{key[0]} {key[1]!r} at {feature.location}"
            parts = drawn[key]
            split = feature.crosses_origin() and not crossing
            if len(parts) != (2 if split else 1):
                problems.append(f"{name}: drawn {len(parts)} times, expected {2 if split else 1}")
                continue
            if split and not (parts[0].get("group") and parts[0].get("group") == parts[1].get("group")):
                problems.append(f"{name}: the two halves are not linked")
            extent, core, extent_len, core_len = set(), set(), 0, 0
            for area in parts:
                n_start = area.get("neighbouring_start", area["start"])
                n_end = area.get("neighbouring_end", area["end"])
                show = {k: area[k] for k in ("neighbouring_start", "start", "end", "neighbouring_end") if k in area}
                for label, value in (("neighbouring_start", n_start), ("start", area["start"]),
                                     ("end", area["end"]), ("neighbouring_end", n_end)):
                    if not low <= value <= high:
                        problems.append(f"{name}: {label}={value} is outside the region's range "
                                        f"{low}-{high}; area={show}")
                if not n_start <= area["start"] <= area["end"] <= n_end:
                    problems.append(f"{name}: box/core {area['start']}-{area['end']} does not lie inside "
                                    f"the area's own extent {n_start}-{n_end}; area={show}")
                extent |= {pos % length for pos in range(n_start, n_end)}
                extent_len += max(0, n_end - n_start)
                core |= {pos % length for pos in range(area["start"], area["end"])}
                core_len += max(0, area["end"] - area["start"])
            real = set()
            for part in feature.location.parts:
                real |= set(range(int(part.start), int(part.end)))
            if extent != real or extent_len != len(real):
                problems.append(f"{name}: drawn extent does not cover exactly the feature")
            if key[0] == "protocluster":
                real_core = circ(int(feature.core_start), int(feature.core_end), length)
            else:
                real_core = real   # candidates and subregions have no core: the box is the extent
            if core != real_core or core_len != len(real_core):
                problems.append(f"{name}: drawn box/core does not cover exactly the real "
                                f"{'core ' + str(feature.core_location) if key[0] == 'protocluster' else 'extent'}; "
                                f"areas={[{k: a[k] for k in ('neighbouring_start', 'start', 'end', 'neighbouring_end') if k in a} for a in parts]}")

        rows = {}
        for area in areas:
            rows.setdefault(area["height"], []).append(
                (area.get("neighbouring_start", area["start"]), area.get("neighbouring_end", area["end"])))
        for height, extents in rows.items():
            extents.sort()
            for (s1, e1), (s2, e2) in zip(extents, extents[1:]):
                if s2 < e1:
                    problems.append(f"row at height {height}: extents {s1}-{e1} and {s2}-{e2} overlap")

        by_name = {}
        for orf in js_region["orfs"]:
            tag = orf["locus_tag"]
            by_name.setdefault(tag[:-6] if tag.endswith("_split") else tag, []).append(orf)
        for cds in region.cds_children:
            orfs = by_name.get(cds.get_name(), [])
            split = cds.crosses_origin() and not crossing
            if len(orfs) != (2 if split else 1):
                problems.append(f"gene {cds.get_name()}: drawn {len(orfs)} times")
                continue
            covered, total = set(), 0
            for orf in orfs:
                start, end = int(orf["start"]) - 1, int(orf["end"])
                if not low <= start <= end <= high:
                    problems.append(f"gene {cds.get_name()} at {cds.location}: drawn at {start}-{end}, "
                                    f"outside the region's range {low}-{high}")
                covered |= {pos % length for pos in range(start, end)}
                total += end - start
            span = circ(int(cds.start), int(cds.end), length)
            if covered != span or total != len(span):
                problems.append(f"gene {cds.get_name()}: drawn span differs from the gene's span")
    return problems


# ---------------------------------------------------------------- scenarios
LENGTH = 1000
FOUND = []


def report(defect, description, rec, must_contain):
    problems = [p for p in check(rec) if must_contain in p]
    if problems:
        regions = ", ".join(str(r.location) for r in rec.get_regions())
        FOUND.append(defect)
        print(f"VIOLATION: [{defect}] {description} | region(s): {regions} | reference says: "
              + " || ".join(problems[:3]))


def finish(rec):
    rec.create_candidate_clusters()
    rec.create_regions()
    return rec


# D1: an origin-crossing CANDIDATE CLUSTER whose collective core does not cross the origin
# D1a: core after the origin, origin-spanning region (subregion present so the single candidate is drawn)
rec = make_record(LENGTH)
rec.add_protocluster(make_proto(LENGTH, 900, 100, 20, 40, "pa"))
rec.add_subregion(SubRegion(FL(50, 150, 1), tool="x", label="s"))
report("D1a", "circular 1000 bp record, protocluster 900->100 (core 20-40) + subregion 50-150: the candidate "
       "cluster 900->100 should be drawn as start=900 end=1100", finish(rec), "candidatecluster")

# D1b: two protoclusters with both cores before the origin, no subregion at all
rec = make_record(LENGTH)
rec.add_protocluster(make_proto(LENGTH, 900, 100, 920, 940, "pa"))
rec.add_protocluster(make_proto(LENGTH, 880, 990, 950, 970, "pb"))
report("D1b", "circular 1000 bp record, protoclusters 900->100 (core 920-940) and 880-990 (core 950-970): "
       "the neighbouring candidate 880->100 should be drawn as start=880 end=1100",
       finish(rec), "candidatecluster")

# D1c: same kind of candidate in a region covering the whole circular record (two halves)
rec = make_record(LENGTH)
rec.add_protocluster(make_proto(LENGTH, 900, 100, 20, 40, "pa"))
rec.add_subregion(SubRegion(FL(0, LENGTH, 1), tool="x", label="s"))
report("D1c", "circular 1000 bp record, protocluster 900->100 (core 20-40) + subregion 0-1000 (whole-record "
       "region): the candidate should be drawn as halves 900-1000 and 0-100", finish(rec), "candidatecluster")

# D2: origin-crossing PROTOCLUSTER with asymmetric neighbourhoods: the side of the core is guessed
#     from core_start + core_end > record length instead of being read from the coordinates
tool = Tool("sideloader", "1", "", {})
# D2a: core 350-450 BEFORE the origin, neighbourhoods left 50 / right 650 (built by the sideloader classes)
rec = make_record(LENGTH)
annotation = ProtoclusterAnnotation(350, 450, "pa", tool, {}, neighbourhood_left=50,
                                    neighbourhood_right=650, circular_origin=LENGTH)
rec.add_protocluster(annotation.to_secmet())
report("D2a", "circular 1000 bp record, sideloaded protocluster core 350-450, neighbourhood_left=50, "
       "neighbourhood_right=650 (extent 300->100): expected neighbouring_start=300 start=350 end=450 "
       "neighbouring_end=1100", finish(rec), "protocluster")

# D2b: core 600-650 AFTER the origin, extent 900->700
rec = make_record(LENGTH)
rec.add_protocluster(make_proto(LENGTH, 900, 700, 600, 650, "pa"))
report("D2b", "circular 1000 bp record, protocluster 900->700 with core 600-650 (core after the origin): "
       "expected neighbouring_start=900 start=1600 end=1650 neighbouring_end=1700", finish(rec), "protocluster")

# D2c: as D2b but in a whole-record region (split into halves)
rec = make_record(LENGTH)
rec.add_protocluster(make_proto(LENGTH, 900, 700, 600, 650, "pa"))
rec.add_subregion(SubRegion(FL(650, 950, 1), tool="x", label="s"))
report("D2c", "circular 1000 bp record, protocluster 900->700 with core 600-650 + subregion 650-950 "
       "(whole-record region): expected halves 900-1000 (no core) and 0-700 (core 600-650)",
       finish(rec), "protocluster")

# D3: a two-exon gene (not crossing the origin) whose intron contains the small stretch of the circular
#     record that an origin-spanning region leaves out: it is one of the region's genes (both exons are
#     inside the region) but is drawn at unshifted coordinates, left of the region's announced start
rec = make_record(LENGTH)
rec.add_cds_feature(make_cds(LENGTH, [(60, 81), (105, 126)], 1, "gene_a"))
rec.add_subregion(SubRegion(loc(100, 90, LENGTH), tool="x", label="s"))
report("D3", "circular 1000 bp record, subregion 100->90 (region 100..1090 leaves out 90-100), gene "
       "join(60..81,105..126): listed among the region's genes, must lie within 100-1090",
       finish(rec), "gene gene_a")

if not FOUND:
    print("NOTHING FOUND")
    sys.exit(0)
sys.exit(1)
