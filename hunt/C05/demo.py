""" Property C05: candidate clusters group protoclusters by the documented kinds.

    Run as:  cd <repo root> && PYTHONPATH=<repo root> /venv/bin/python SEED/demo.py

    Prints one "VIOLATION:" line per distinct defect found in the unchanged code and exits 1.
    Everything is built with the public secmet classes (Record, CDSFeature, Protocluster,
    SideloadedProtocluster) and observed through Record.create_candidate_clusters() /
    Record.get_candidate_clusters().
"""

import itertools
import sys

from Bio.Seq import Seq

from antismash.common.secmet import Record
from antismash.common.secmet.features import CDSFeature, Protocluster
from antismash.common.secmet.features.protocluster import SideloadedProtocluster
from antismash.common.secmet.locations import CompoundLocation, FeatureLocation
from antismash.common.secmet.qualifiers.gene_functions import GeneFunction

VIOLATIONS = []


def violation(text):
    VIOLATIONS.append(text)
    print("VIOLATION:", text)


# ---------------------------------------------------------------- builders

def make_cds(start, end, name, products):
    """ a real CDS carrying a CORE gene function for each of the products """
    cds = CDSFeature(FeatureLocation(start, end, 1), locus_tag=name, translation="M" * ((end - start) // 3))
    for product in products:
        cds.gene_functions.add(GeneFunction.CORE, "rule-based-clusters", "dummy", product)
    return cds


def location(pieces, strand=1):
    if len(pieces) == 1:
        return FeatureLocation(pieces[0][0], pieces[0][1], strand)
    return CompoundLocation([FeatureLocation(start, end, 1) for start, end in pieces])


def make_proto(core, full, product):
    """ core/full: list of (start, end) pieces, two pieces when crossing the origin """
    return Protocluster(location(core), location(full), tool="rule-based-clusters", product=product,
                        cutoff=1, neighbourhood_range=1, detection_rule="rule")


def make_record(length, circular, cdses, protos):
    record = Record(Seq("A" * length))
    if circular:
        record.add_annotation("topology", "circular")
    for cds in cdses:
        record.add_cds_feature(cds)
    for proto in protos:
        record.add_protocluster(proto)
    return record


def describe(record):
    return [(str(cand.kind), tuple(proto.product for proto in cand.protoclusters), str(cand.location))
            for cand in record.get_candidate_clusters()]


# ---------------------------------------------------------------- independent reference pieces

def sharing_groups(protos):
    """ the transitive groups of protoclusters sharing a defining gene (plain union-find) """
    parent = {id(p): id(p) for p in protos}

    def find(key):
        while parent[key] != key:
            key = parent[key]
        return key
    for first, second in itertools.combinations(protos, 2):
        if first.definition_cdses & second.definition_cdses:
            parent[find(id(first))] = find(id(second))
    groups = {}
    for proto in protos:
        groups.setdefault(find(id(proto)), set()).add(proto.product)
    return [group for group in groups.values() if len(group) > 1]


# ---------------------------------------------------------------- defect 1

def defect_same_coordinate_groups():
    """ Two independent chemical hybrid pairs whose extents have the same coordinates
        (here: a small replicon on which every neighbourhood covers the whole record).
    """
    def build(circular, with_fifth):
        cdses = [make_cds(30, 60, "g1", ["a", "b"]), make_cds(920, 950, "g2", ["c", "d"])]
        protos = [
            make_proto([(20, 60)], [(0, 1000)], "a"),
            make_proto([(30, 80)], [(0, 1000)], "b"),
            make_proto([(900, 950)], [(0, 1000)], "c"),
            make_proto([(920, 970)], [(0, 1000)], "d"),
        ]
        if with_fifth:
            protos.append(make_proto([(500, 550)], [(0, 1000)], "e"))
        return make_record(1000, circular, cdses, protos), protos

    details = []
    # (a) circular record, five protoclusters: formation dies instead of producing candidates
    record, protos = build(circular=True, with_fifth=True)
    expected_groups = sorted(sorted(group) for group in sharing_groups(protos))
    assert expected_groups == [["a", "b"], ["c", "d"]], expected_groups
    try:
        record.create_candidate_clusters()
        crashed = None
    except AssertionError as err:  # the `assert core_group` in _find_cross_origin_interleaved
        import traceback
        frame = traceback.extract_tb(err.__traceback__)[-1]
        crashed = f"AssertionError at {frame.name}(): `{frame.line}`"
    if crashed:
        details.append(f"circular 1000 bp record, 5 protoclusters all with extent [0:1000], a+b share gene g1 "
                       f"(cores 20-80), c+d share gene g2 (cores 900-970), e alone (core 500-550): expected "
                       f"every protocluster in >= 1 candidate with hybrids {expected_groups}; actual: {crashed}")

    # (b) same without the crash: one 'chemical hybrid' made of two unrelated hybrid groups
    for circular, with_fifth in ((True, False), (False, False), (False, True)):
        record, protos = build(circular, with_fifth)
        record.create_candidate_clusters()
        groups = sharing_groups(protos)
        for cand in record.get_candidate_clusters():
            if str(cand.kind) != "chemical_hybrid":
                continue
            members = {proto.product for proto in cand.protoclusters}
            contained = [sorted(group) for group in groups if group <= members]
            if len(contained) > 1:
                details.append(f"{'circular' if circular else 'linear'} record, {len(protos)} protoclusters: "
                               f"a single chemical_hybrid candidate {sorted(members)} (core {cand.core_location}) "
                               f"holds the unrelated sharing groups {contained}; all candidates: {describe(record)}")

    # (c) the same merge for two independent interleaved groups with identical extents (linear)
    protos = [
        make_proto([(10, 20)], [(0, 100)], "a"), make_proto([(15, 25)], [(5, 50)], "b"),
        make_proto([(70, 80)], [(0, 100)], "c"), make_proto([(75, 85)], [(60, 90)], "d"),
    ]
    record = make_record(100, False, [], protos)
    record.create_candidate_clusters()
    for cand in record.get_candidate_clusters():
        members = {proto.product for proto in cand.protoclusters}
        if str(cand.kind) == "interleaved" and members == {"a", "b", "c", "d"}:
            details.append("linear 100 bp record, cores a 10-20, b 15-25, c 70-80, d 75-85 with extents a,c [0:100]: "
                           "core overlap groups are {a,b} and {c,d} (cores of the two groups are 45 bp apart), "
                           f"actual: one interleaved candidate of all four; all candidates: {describe(record)}")
    if details:
        violation("groups of the SAME kind with identical coordinates are merged by the coordinate de-duplication "
                  "in build_candidates() [formation.py:53-73]; " + " || ".join(details))


# ---------------------------------------------------------------- defect 2

def defect_strand_tie():
    """ A detected protocluster (strand +1) and a sideloaded one (no strand) with identical extents
        each get a SINGLE candidate; the two singles have identical coordinates and compare as equal.
    """
    def build(order):
        items = {
            "P": make_proto([(15, 20)], [(10, 50)], "p"),
            "Q": SideloadedProtocluster(FeatureLocation(40, 45), FeatureLocation(10, 50), "external", "q"),
            "R": make_proto([(60, 70)], [(45, 80)], "r"),
        }
        record = make_record(100, False, [], [items[name] for name in order])
        record.create_candidate_clusters()
        return record

    # deterministic part: the comparison of the two singles is not a strict order
    record = build("PQR")
    singles = [cand for cand in record.get_candidate_clusters()
               if str(cand.kind) == "single" and cand.protoclusters[0].product in "pq"]
    assert len(singles) == 2
    first, second = singles
    same_coordinates = (first.location.start, first.location.end) == (second.location.start, second.location.end)
    tie = not first < second and not second < first
    # empirical part: the same input gives different candidate orders / numbers
    outcomes = {}
    keep_alive = []
    for attempt in range(60):
        for order in ("PQR", "QPR", "RQP", "RPQ", "QRP", "PRQ"):
            record = build(order)
            outcome = tuple((cand.get_candidate_cluster_number(), str(cand.kind), cand.get_product_string())
                            for cand in record.get_candidate_clusters())
            outcomes.setdefault(outcome, order)
            keep_alive.append([object() for _ in range(attempt % 5)])  # vary the memory layout
        if len(outcomes) > 1:
            break
    if same_coordinates and tie:
        text = ("linear record, detected P (extent [10:50](+), core 15-20), sideloaded Q (extent [10:50] without "
                "strand, core 40-45), detected R (extent [45:80]): the SINGLE candidates of P and Q have identical "
                "coordinates, expected a fixed order by their protoclusters' cores (P before Q), actual: "
                "single(P) < single(Q) and single(Q) < single(P) are both False "
                "[CandidateCluster.__lt__, structures.py:82 compares locations including strand]")
        if len(outcomes) > 1:
            text += f"; candidate numbering observed for the same protoclusters: {sorted(outcomes)}"
        violation(text)


# ---------------------------------------------------------------- defect 3

def defect_cross_origin_core_tie():
    """ Identical extents, product and tool, but different cores that both cross the origin """
    def build(order):
        items = {
            "P": make_proto([(90, 100), (0, 10)], [(70, 100), (0, 30)], "x"),
            "Q": make_proto([(80, 100), (0, 5)], [(70, 100), (0, 30)], "x"),
        }
        record = make_record(100, True, [], [items[name] for name in order])
        record.create_candidate_clusters()
        return record, items

    record, items = build("PQ")
    tie = not items["P"] < items["Q"] and not items["Q"] < items["P"]
    numbering = {}
    for order in ("PQ", "QP"):
        record, items = build(order)
        numbering[order] = [str(proto.core_location) for proto in record.get_protoclusters()]
    member_orders = set()
    keep_alive = []
    for attempt in range(60):
        for order in ("PQ", "QP"):
            record, items = build(order)
            for cand in record.get_candidate_clusters():
                member_orders.add((str(cand.kind), tuple(str(proto.core_location) for proto in cand.protoclusters)))
            keep_alive.append([object() for _ in range(attempt % 5)])
        if len(member_orders) > 1:
            break
    if tie and numbering["PQ"] != numbering["QP"]:
        violation("circular 100 bp record, two protoclusters with product x, extent join{[70:100],[0:30]} and cores "
                  "join{[90:100],[0:10]} / join{[80:100],[0:5]}: expected the documented order 'by their core' "
                  "whatever the supply order; actual: P < Q and Q < P are both False, because "
                  "Protocluster.__lt__ [protocluster.py:79] (and CandidateCluster.__lt__ key, structures.py:84) use "
                  "core_location.start/.end, which are 0 and the record length for every core crossing the origin; "
                  f"record.get_protoclusters() when supplied P,Q: {numbering['PQ']}, supplied Q,P: {numbering['QP']}; "
                  f"member orders seen in the candidate: {sorted(member_orders)}")


def main():
    defect_same_coordinate_groups()
    defect_strand_tie()
    defect_cross_origin_core_tie()
    if not VIOLATIONS:
        print("NOTHING FOUND")
        return 0
    return 1


if __name__ == "__main__":
    sys.exit(main())
