#!/usr/bin/env python3
""" C04 hunt: location algebra vs. the set-of-bases model.

    Run as:  cd <repo root> && PYTHONPATH=<repo root> /venv/bin/python SEED/demo.py

    Every check compares the unchanged antiSMASH code with a small independent
    reference that works on plain Python sets of base positions.
"""

import sys

from Bio.Seq import Seq
from Bio.SeqFeature import ExactPosition, UnknownPosition, WithinPosition

from antismash.common.secmet.record import Record
from antismash.common.secmet.locations import (
    CompoundLocation,
    FeatureLocation,
    location_from_string,
    offset_location,
    remove_redundant_exons,
)

VIOLATIONS = []


def violation(text):
    VIOLATIONS.append(text)
    print("VIOLATION: " + text)


# ---------------------------------------------------------------- reference
def bases(location):
    """ the set of base positions covered by the parts of a location """
    result = set()
    for part in location.parts:
        result.update(range(int(part.start), int(part.end)))
    return result


def make_record(length, circular):
    record = Record(Seq("A" * length))
    if circular:
        record.add_annotation("topology", "circular")
    return record


def in_transcription_order(location):
    parts = list(location.parts)
    if location.strand == -1:
        parts.reverse()
    return parts


def reference_extension(location, distance, length):
    """ The bases of the location plus 'distance' bases outwards from each of
        its two outer ends, wrapped on the ring. Introns are left alone unless
        an extension arc itself runs into them.
        (Every reading of "the bases within the distance" contains this set.)
    """
    parts = in_transcription_order(location)
    result = bases(location)
    low_end = int(parts[0].start)       # extends downwards from here
    high_end = int(parts[-1].end)       # extends upwards from here
    for i in range(1, distance + 1):
        result.add((low_end - i) % length)
        result.add((high_end - 1 + i) % length)
    return result


def reference_literal_extension(location, distance, length):
    """ Every base that is at most 'distance' positions away from some base of
        the location, on the ring. The most generous reading possible of
        "the bases within the distance" when only the exons count as the location.
    """
    return {(base + i) % length for base in bases(location) for i in range(-distance, distance + 1)}


def fmt(positions):
    """ compact text for a set of positions """
    positions = sorted(positions)
    if not positions:
        return "{}"
    chunks = []
    start = prev = positions[0]
    for pos in positions[1:]:
        if pos != prev + 1:
            chunks.append((start, prev + 1))
            start = pos
        prev = pos
    chunks.append((start, prev + 1))
    return "+".join(f"[{s}:{e})" for s, e in chunks)


# ---------------------------------------------------------------- defect 1
def check_extend_drops_wrapped_upper_extension():
    """ circular record, multi-part location NOT crossing the origin, distance
        large enough that the two extensions meet on the far side of the ring and
        the upward extension continues past the origin beyond the first exon
    """
    cases = [
        # (record length, parts, strand, distance)
        (7, [(0, 1), (2, 7)], 1, 2),                # minimal
        (7, [(0, 1), (2, 7)], -1, 2),               # same, reverse strand
        (100, [(10, 20), (80, 90)], 1, 60),         # mirror-symmetric input, asymmetric output
        (1000, [(5, 100), (200, 900)], 1, 250),     # less extreme
    ]
    reported = False
    for length, segments, strand, distance in cases:
        parts = [FeatureLocation(s, e, strand) for s, e in segments]
        if strand == -1:
            parts.reverse()
        location = CompoundLocation(parts)
        record = make_record(length, circular=True)
        result = record.extend_location(location, distance)
        expected = reference_extension(location, distance, length)
        missing = expected - bases(result)
        if missing and not reported:
            reported = True
            violation(
                f"Record.extend_location on a circular record of {length}: {location} extended by {distance} "
                f"gives {result}, which lacks bases {fmt(missing)}; those bases are at most {distance} past the "
                f"upper end {segments[-1][1]} going over the origin (expected coverage {fmt(expected)}, "
                f"got {fmt(bases(result))}). The part [0:{(segments[-1][1] + distance) % length}) of the upward "
                "extension that wrapped over the origin is silently discarded"
            )
        elif missing:
            print(f"   also: ring {length}, {location} +{distance} -> {result}, missing {fmt(missing)}")


# ---------------------------------------------------------------- defect 2
def check_extend_depends_on_rotation():
    """ the same ring situation, once written with the intron over the origin
        (location 'crosses the origin') and once rotated so it does not
    """
    length = 30
    distance = 5
    record = make_record(length, circular=True)
    # exons at 10 and 0, transcribed 10 -> (origin) -> 0, i.e. the intron [11:30) holds the origin
    crossing = CompoundLocation([FeatureLocation(10, 11, 1), FeatureLocation(0, 1, 1)])
    assert crossing.crosses_origin()
    # the very same ring configuration rotated by 25: exons at 5 and 25, intron [6:25)
    rotated = offset_location(crossing, 25, wrap_point=length)
    assert not rotated.crosses_origin() and bases(rotated) == {5, 25}, rotated

    result_crossing = record.extend_location(crossing, distance)
    result_rotated = record.extend_location(rotated, distance)
    # rotate the first result the same way and compare base sets
    as_rotated = {(base + 25) % length for base in bases(result_crossing)}
    literal = reference_literal_extension(crossing, distance, length)
    extra = bases(result_crossing) - literal
    if as_rotated != bases(result_rotated) and extra:
        violation(
            f"Record.extend_location on a circular record of {length}: {crossing} extended by {distance} gives "
            f"{result_crossing} (the whole record), including bases {fmt(extra)} that are more than {distance} "
            f"away from every base of the location (expected at most {fmt(literal)}); the same configuration "
            f"rotated by 25, {rotated}, gives {result_rotated} = {fmt(bases(result_rotated))}, which keeps the intron "
            "- the result depends on where the origin happens to be"
        )


# ---------------------------------------------------------------- defect 3
def check_remove_redundant_exons_keeps_duplicates():
    location = CompoundLocation([FeatureLocation(0, 10, 1), FeatureLocation(0, 10, 1), FeatureLocation(20, 30, 1)])
    result = remove_redundant_exons(location)
    total = sum(len(part) for part in result.parts)
    pair_only = remove_redundant_exons(CompoundLocation([FeatureLocation(0, 10, 1), FeatureLocation(0, 10, 1)]))
    if total != len(bases(result)):
        violation(
            f"remove_redundant_exons({location}) returns {result}: the exon [0:10) that is already covered is still "
            f"there twice, so the parts of the result are not mutually disjoint ({total} bases in parts, "
            f"{len(bases(result))} distinct); expected join{{[0:10](+), [20:30](+)}}. Without the third exon the "
            f"duplicate IS removed ({pair_only})"
        )


# ---------------------------------------------------------------- defect 4
def check_text_round_trip():
    failures = []
    candidates = [
        ("strandless location with an unknown end", FeatureLocation(ExactPosition(3), UnknownPosition(), None)),
        ("strandless location with an unknown start", FeatureLocation(UnknownPosition(), ExactPosition(9), None)),
        ("'within' position (GenBank '(3.5)..9')", FeatureLocation(WithinPosition(3, 3, 5), ExactPosition(9), 1)),
    ]
    for label, location in candidates:
        text = str(location)
        try:
            back = location_from_string(text)
            if str(back) != text or back.strand != location.strand:
                failures.append(f"{label}: {text!r} reads back as {str(back)!r}")
        except Exception as err:  # pylint: disable=broad-except
            failures.append(f"{label}: {text!r} -> {type(err).__name__}: {err}")
    # sanity: the same positions with a strand do work, so they are supported forms
    ok = location_from_string(str(FeatureLocation(ExactPosition(3), UnknownPosition(), 1)))
    assert str(ok) == "[3:UnknownPosition()](+)"
    ok = location_from_string("[3:9]")
    assert ok.strand is None
    if failures:
        violation(
            "location_from_string cannot read back the text form of some locations although it supports each "
            "ingredient on its own (unknown positions, and locations without a strand): " + "; ".join(failures)
        )


def main():
    check_extend_drops_wrapped_upper_extension()
    check_extend_depends_on_rotation()
    check_remove_redundant_exons_keeps_duplicates()
    check_text_round_trip()
    if not VIOLATIONS:
        print("NOTHING FOUND")
        return 0
    return 1


if __name__ == "__main__":
    sys.exit(main())
