#!/usr/bin/env python
""" C03 hunt demo: protoclusters as maximal cutoff-chains of anchoring genes.

    Run as:  cd <repo root> && PYTHONPATH=<repo root> /venv/bin/python SEED/demo.py

    Every case builds a real Record with CDS features, a Ruleset parsed from rule
    text (cutoffs/neighbourhoods in kb, as in the shipped rule files) and dynamic
    profiles that hand out the hits, then runs the unchanged
    detect_protoclusters_and_signatures() and compares the protoclusters with an
    independent interval-arithmetic reference written here.
"""

import sys

from antismash.common.hmm_rule_parser import cluster_prediction, rule_parser
from antismash.common.hmm_rule_parser.structures import DynamicHit, DynamicProfile
from antismash.common.secmet.locations import CompoundLocation, FeatureLocation
from antismash.common.secmet.test.helpers import DummyCDS, DummyRecord

VIOLATIONS = []


# --------------------------------------------------------------------------- set up
def build_record(length, circular, genes):
    """ genes: (name, start, end, strand); start > end means crossing the origin """
    record = DummyRecord(seq="A", circular=circular, length=length)
    for name, start, end, strand in genes:
        if start < end:
            location = FeatureLocation(start, end, strand)
        else:
            parts = [FeatureLocation(start, length, strand), FeatureLocation(0, end, strand)]
            if strand == -1:
                parts.reverse()
            location = CompoundLocation(parts)
        record.add_cds_feature(DummyCDS(location=location, locus_tag=name))
    return record


def build_ruleset(rule_text, hits):
    """ hits: gene name -> set of profile names """
    profiles = sorted({profile for found in hits.values() for profile in found})
    rules = rule_parser.Parser(rule_text, set(profiles), {"cat"}).rules

    def finder(profile):
        return lambda _record, _hmmer: {gene: [DynamicHit(gene, profile)]
                                        for gene, found in hits.items() if profile in found}
    dynamic = {name: DynamicProfile(name, "demo", finder(name)) for name in profiles}
    return cluster_prediction.Ruleset(tuple(rules), {}, "", {"cat"}, "demo",
                                      dynamic_profiles=dynamic, equivalence_groups=[])


def detect(length, circular, genes, rule_text, hits):
    record = build_record(length, circular, genes)
    results = cluster_prediction.detect_protoclusters_and_signatures(record, build_ruleset(rule_text, hits))
    return [(proto.product, parts_of(proto.core_location), parts_of(proto.location))
            for proto in results.protoclusters]


def parts_of(location):
    return tuple((int(part.start), int(part.end)) for part in location.parts)


def span_length(parts):
    return sum(end - start for start, end in parts)


# --------------------------------------------------------------------------- reference
def reference_cores(length, circular, genes, anchors, cutoff):
    """ Plain re-implementation of the statement for one rule:
        maximal groups of anchoring genes with neighbouring genes closer than the cutoff,
        each with the smallest span covering the group.
        Returns a list of (sorted gene names, [acceptable spans]), a span being a tuple of
        (start, end) parts, two parts when it runs over the origin.
    """
    pieces = []  # (start, end, gene) without wrap
    for name, start, end, _ in genes:
        if name not in anchors:
            continue
        if start < end:
            pieces.append((start, end, name))
        else:
            pieces.append((start, length, name))
            pieces.append((0, end, name))
    pieces.sort()
    # contiguous covered sections and the genes in them
    sections = []
    for start, end, name in pieces:
        if sections and start <= sections[-1][1]:
            sections[-1][1] = max(sections[-1][1], end)
            sections[-1][2].add(name)
        else:
            sections.append([start, end, {name}])
    # a gene over the origin joins the last and first sections, which is handled by the gap of 0
    count = len(sections)
    if not circular or count == 1:
        gaps = [sections[i + 1][0] - sections[i][1] for i in range(count - 1)]
        groups = [[0]]
        for i, gap in enumerate(gaps):
            if gap < cutoff:
                groups[-1].append(i + 1)
            else:
                groups.append([i + 1])
        if circular and count == 1 and sections[0][0] == 0 and sections[0][1] == length:
            return [(sorted(sections[0][2]), [((0, length),)])]
        return [(sorted(set().union(*(sections[i][2] for i in group))),
                 [((sections[group[0]][0], sections[group[-1]][1]),)]) for group in groups]
    # circular: gap i lies after section i (the last one runs over the origin)
    gaps = [(sections[(i + 1) % count][0] - sections[i][1]) % length for i in range(count)]
    breaks = [i for i, gap in enumerate(gaps) if gap >= cutoff]

    def span(first, last):
        start, end = sections[first][0], sections[last][1]
        if start < end and first <= last:
            return ((start, end),)
        return ((start, length), (0, end))

    if not breaks:
        # one group all the way round: leave out (one of) the largest gap(s)
        largest = max(gaps)
        options = [span((i + 1) % count, i) for i, gap in enumerate(gaps) if gap == largest]
        return [(sorted(set().union(*(section[2] for section in sections))), options)]
    groups = []
    for index, brk in enumerate(breaks):
        first = (brk + 1) % count
        last = breaks[(index + 1) % len(breaks)]
        members = set()
        i = first
        while True:
            members |= sections[i][2]
            if i == last:
                break
            i = (i + 1) % count
        groups.append((sorted(members), [span(first, last)]))
    return groups


def normalise(parts, length):
    """ whole-record spans compare equal however they are written """
    if span_length(parts) == length:
        return ((0, length),)
    return tuple(parts)


def report(line):
    VIOLATIONS.append(line)
    print(line)


# --------------------------------------------------------------------------- defect 1
def check_core_minimality():
    rule = "RULE chain CATEGORY cat CUTOFF {cutoff} NEIGHBOURHOOD 1 CONDITIONS A"
    cases = [
        # (length, genes, cutoff in kb)
        (150_000, [("a", 31_000, 40_000, 1), ("b", 92_000, 98_000, 1), ("c", 120_000, 132_000, 1)], 60),
        (12_000, [("a", 0, 3_000, -1), ("b", 6_000, 9_000, 1), ("c", 9_000, 12_000, -1)], 4),
        (60_000, [("a", 39_000, 60_000, -1), ("b", 59_000, 5_000, 1), ("c", 12_000, 21_000, -1),
                  ("d", 24_000, 45_000, 1)], 8),
    ]
    failures = []
    for length, genes, cutoff in cases:
        hits = {gene[0]: {"A"} for gene in genes}
        actual = detect(length, True, genes, rule.format(cutoff=cutoff), hits)
        expected = reference_cores(length, True, genes, set(hits), cutoff * 1000)
        assert len(expected) == 1
        acceptable = [normalise(option, length) for option in expected[0][1]]
        cores = [normalise(core, length) for _, core, _ in actual]
        if len(cores) != 1 or cores[0] not in acceptable:
            failures.append(f"circular record of {length} bases, genes {[gene[:3] for gene in genes]} all hit by "
                            f"profile A, rule 'CUTOFF {cutoff} CONDITIONS A': one chain (every gap < cutoff), smallest "
                            f"covering span is {acceptable[0]} ({span_length(acceptable[0])} bases) but the core is "
                            f"{cores} ({[span_length(core) for core in cores]} bases)")
    if failures:
        report("VIOLATION: [core-not-smallest-span] the core of a group chained all the way round a circular record "
               "is not the smallest span covering the group (cores are grown gene by gene in find_protoclusters and "
               "each step only leaves out the largest gap seen so far): " + failures[0])
        for extra in failures[1:]:
            print("    same defect, further input: " + extra)


# --------------------------------------------------------------------------- defect 2
def check_extenders():
    rule = "RULE ext CATEGORY cat CUTOFF 5 NEIGHBOURHOOD 1 CONDITIONS A EXTENDERS X"
    failures = []

    # (a) forwards: distance is measured from the last *sorted* gene inside the core,
    #     here a tiny gene without any hit nested in the anchoring gene
    anchor = ("anchor", 2_000, 20_000, 1)
    nested = ("nohits", 5_000, 6_000, 1)
    extender = ("extender", 20_500, 21_500, 1)
    hits = {"anchor": {"A"}, "extender": {"X"}}
    expected = ((2_000, 21_500),)  # the extender gene is 500 bases from the core, cutoff 5000
    without = [core for _, core, _ in detect(30_000, False, [anchor, extender], rule, hits)]
    with_nested = [core for _, core, _ in detect(30_000, False, [anchor, nested, extender], rule, hits)]
    if without == [expected] and with_nested != [expected]:
        failures.append(f"linear record, anchoring gene {anchor[1:3]} (profile A), gene {extender[1:3]} with the "
                        f"EXTENDERS profile X 500 bases after it, cutoff 5000: core is {without} as expected, but "
                        f"adding a gene without any hits at {nested[1:3]}, inside the anchoring gene, gives {with_nested}")
    elif with_nested != [expected]:
        failures.append(f"forward extension: expected {expected}, got {with_nested} (and {without} without the nested gene)")

    # (b) backwards: the scan stops at the first gene (in start order) that is too far away,
    #     although a longer gene sorted before it still reaches the core
    anchor = ("anchor", 10_000, 11_000, 1)
    extender = ("extender", 1_000, 9_500, 1)
    nested = ("nohits", 3_000, 4_000, -1)
    hits = {"anchor": {"A"}, "extender": {"X"}}
    expected = ((1_000, 11_000),)
    without = [core for _, core, _ in detect(30_000, False, [anchor, extender], rule, hits)]
    with_nested = [core for _, core, _ in detect(30_000, False, [anchor, nested, extender], rule, hits)]
    if without == [expected] and with_nested != [expected]:
        failures.append(f"linear record, anchoring gene {anchor[1:3]}, EXTENDERS gene {extender[1:3]} ending 500 bases "
                        f"before it: core {without} as expected, but with a gene without hits at {nested[1:3]} inside "
                        f"the extender gene the core stays {with_nested}")

    # (c) the same on a circular record makes the result depend on where the origin is
    length = 240_000
    genes = [("long", 87_000, 117_000, -1), ("inner", 95_000, 98_000, 1), ("ext", 117_000, 123_000, 1),
             ("far", 180_000, 181_000, 1)]
    hits = {"long": {"A"}, "inner": {"A"}, "ext": {"X"}}
    shift = 136_000
    rotated = [(name, (start + shift) % length, (end + shift) % length, strand) for name, start, end, strand in genes]
    first = [span_length(core) for _, core, _ in detect(length, True, genes, rule, hits)]
    second = [span_length(core) for _, core, _ in detect(length, True, rotated, rule, hits)]
    if first != second:
        failures.append(f"circular record, genes {[gene[:3] for gene in genes]}: core length {first}, after moving the "
                        f"origin by {shift} bases core length {second} (the EXTENDERS gene right behind the core is only "
                        "admitted when the long anchoring gene crosses the origin)")
    if failures:
        report("VIOLATION: [extenders-scan-order] a gene satisfying the EXTENDERS clause and touching/within 500 bases "
               "of the core is not admitted when an unrelated gene nested in the core (or in the extender gene) sorts "
               "between them; apply_extenders() measures from core_cdses[-1]/the scan order instead of the core's "
               "ends: " + failures[0])
        for extra in failures[1:]:
            print("    same defect, further input: " + extra)


# --------------------------------------------------------------------------- wording issue
def check_superiors():
    rules = ("RULE sup CATEGORY cat CUTOFF 5 NEIGHBOURHOOD 1 CONDITIONS S\n"
             "RULE inf CATEGORY cat SUPERIORS sup CUTOFF 5 NEIGHBOURHOOD 1 CONDITIONS I")
    genes = [("a", 1_000, 2_000, 1), ("b", 5_000, 6_000, 1), ("c", 9_000, 10_000, 1)]
    hits = {"a": {"I"}, "b": {"I", "S"}, "c": {"I"}}
    actual = detect(30_000, False, genes, rules, hits)
    products = sorted(product for product, _, _ in actual)
    sup_cluster = [location for product, _, location in actual if product == "sup"]
    if "inf" not in products:
        report("VIOLATION: [superiors-partial-overlap; CAVEAT: behaviour pinned by the upstream unit test "
               "TestRedundancy.test_larger, so this may be the statement's wording rather than the code] "
               f"linear record, genes {[gene[:3] for gene in genes]}, rule inf (SUPERIORS sup) anchored by a, b and c, "
               f"rule sup anchored by b only: the sup protocluster {sup_cluster} covers only gene b, not the core genes "
               "a and c of inf, yet the inf protocluster (core 1000..10000) is dropped, leaving anchoring genes a and c "
               "in no protocluster of their rule; remove_redundant_protoclusters() drops on any shared core gene "
               "(isdisjoint), not on coverage")


def main():
    check_core_minimality()
    check_extenders()
    check_superiors()
    if not VIOLATIONS:
        print("NOTHING FOUND")
        return 0
    return 1


if __name__ == "__main__":
    sys.exit(main())
