""" C01 demo: rule conditions vs. their documented boolean meaning.

    Run as:  cd <repo root> && PYTHONPATH=<repo root> /venv/bin/python SEED/demo.py

    The reference below is independent of antiSMASH's evaluation code: genes are
    sets of base positions, distances are computed from those sets, and the rule
    is a hand-built tree evaluated by plain recursion.
"""

import sys

from antismash.common.hmm_rule_parser import rule_parser
from antismash.common.hmm_rule_parser import cluster_prediction
from antismash.common.hmm_rule_parser.structures import ProfileHit
from antismash.common.secmet.locations import FeatureLocation
from antismash.common.secmet.test.helpers import DummyCDS, DummyRecord

PROFILES = {"a", "b", "c"}


# ---------------------------------------------------------------- reference
class World:
    """ genes: name -> (start, end); hits: name -> [(profile, bitscore)] """
    def __init__(self, genes, hits, cutoff):
        self.genes = {name: set(range(start, end)) for name, (start, end) in genes.items()}
        self.hits = hits
        self.cutoff = cutoff

    def distance(self, first, second):
        one, two = self.genes[first], self.genes[second]
        if one & two:
            return 0
        # number of bases strictly between the closest ends (linear record)
        return min(abs(p - q) for p in (min(one), max(one)) for q in (min(two), max(two))) - 1

    def in_range(self, gene):
        return [other for other in self.genes if other == gene or self.distance(gene, other) < self.cutoff]

    def has(self, gene, profile, score=None):
        return any(p == profile and (score is None or s >= score) for p, s in self.hits.get(gene, []))


def holds_in_single_gene(node, world, gene):
    """ the formula read over the hits of one gene only (the inside of a cds()) """
    kind = node[0]
    if kind == "name":
        return world.has(gene, node[1])
    if kind == "minscore":
        return world.has(gene, node[1], node[2])
    if kind == "not":
        return not holds_in_single_gene(node[1], world, gene)
    if kind == "and":
        return all(holds_in_single_gene(sub, world, gene) for sub in node[1:])
    if kind == "or":
        return any(holds_in_single_gene(sub, world, gene) for sub in node[1:])
    raise ValueError(kind)


def holds(node, world, gene):
    """ the documented meaning of a rule condition evaluated at a gene """
    kind = node[0]
    nearby = world.in_range(gene)
    if kind == "name":
        return any(world.has(other, node[1]) for other in nearby)
    if kind == "minscore":
        return any(world.has(other, node[1], node[2]) for other in nearby)
    if kind == "cds":
        return any(holds_in_single_gene(node[1], world, other) for other in nearby)
    if kind == "not":
        return not holds(node[1], world, gene)
    if kind == "and":
        return all(holds(sub, world, gene) for sub in node[1:])
    if kind == "or":
        return any(holds(sub, world, gene) for sub in node[1:])
    raise ValueError(kind)


def reasons(node, world, gene):
    """ the rule's profiles that hit the gene; a cds() group only counts when the
        gene satisfies the group itself, a minscore only when the gene's own
        score suffices
    """
    kind = node[0]
    if kind == "name":
        return {node[1]} if world.has(gene, node[1]) else set()
    if kind == "minscore":
        return {node[1]} if world.has(gene, node[1], node[2]) else set()
    if kind == "cds":
        if not holds_in_single_gene(node[1], world, gene):
            return set()
        return reasons(node[1], world, gene)
    if kind == "not":
        return reasons(node[1], world, gene)
    found = set()
    for sub in node[1:]:
        found |= reasons(sub, world, gene)
    return found


# ---------------------------------------------------------------- antiSMASH side
def run_antismash(rule_text, genes, hits):
    """ returns {gene: (met, matches)} from DetectionRule.detect, and the set of
        genes apply_cluster_rules() reports for the rule
    """
    rule = rule_parser.Parser(rule_text, PROFILES, {"C"}).rules[0]
    features = {name: DummyCDS(locus_tag=name, location=FeatureLocation(start, end, 1), translation="A")
                for name, (start, end) in genes.items()}
    results = {name: [ProfileHit(name, profile, float(score), 1e-10) for profile, score in gene_hits]
               for name, gene_hits in hits.items()}
    detected = {}
    for name in results:
        outcome = rule.detect(name, features, results)
        detected[name] = (outcome.met, set(outcome.matches))
    record = DummyRecord(list(features.values()), seq="A" * (max(end for _, end in genes.values()) + 10))
    _, hits_by_rule = cluster_prediction.apply_cluster_rules(record, results, [rule])
    return rule, detected, hits_by_rule.get(rule.name, set())


def main():
    violations = []

    # ---- defect 1: minscore() inside cds() looks at neighbouring genes
    genes = {"G1": (0, 3000), "G2": (5000, 8000)}          # 2 kb apart, cutoff is 10 kb
    hits = {"G1": [("a", 50)], "G2": [("b", 100)]}
    world = World(genes, hits, 10000)

    text = "RULE A CATEGORY C CUTOFF 10 NEIGHBOURHOOD 10 CONDITIONS cds(a and minscore(b, 50))"
    tree = ("cds", ("and", ("name", "a"), ("minscore", "b", 50)))
    _, detected, reported = run_antismash(text, genes, hits)
    expected = {g: (holds(tree, world, g), reasons(tree, world, g)) for g in hits}
    wrong = {g for g in hits if detected[g] != expected[g]}
    expected_anchors = {g for g, (met, why) in expected.items() if met and why}
    actual_anchors = {g for g, (met, why) in detected.items() if met and why}
    if wrong or expected_anchors != actual_anchors:
        violations.append(
            "VIOLATION: rule 'cds(a and minscore(b, 50))', CUTOFF 10 kb, G1=[0:3000] hits a, G2=[5000:8000] hits b "
            "with bitscore 100: no single gene satisfies the cds() group, so expected (met, reasons) "
            f"{ {g: expected[g] for g in sorted(expected)} } and anchors {sorted(expected_anchors)}; "
            f"detect() gave { {g: detected[g] for g in sorted(detected)} }, anchors {sorted(actual_anchors)}, "
            f"apply_cluster_rules reported {sorted(reported)} "
            "(minscore inside cds() is answered from the neighbour gene)"
        )

    # same root cause, other visible effects (reported as detail lines only)
    details = []
    text = "RULE A CATEGORY C CUTOFF 10 NEIGHBOURHOOD 10 CONDITIONS a and not cds(a and minscore(b, 50))"
    tree = ("and", ("name", "a"), ("not", ("cds", ("and", ("name", "a"), ("minscore", "b", 50)))))
    _, detected, reported = run_antismash(text, genes, hits)
    expected = {g: (holds(tree, world, g), reasons(tree, world, g)) for g in hits}
    if detected != expected:
        details.append(
            "  detail: 'a and not cds(a and minscore(b, 50))' on the same genes: expected "
            f"{ {g: expected[g] for g in sorted(expected)} } but detect() gave "
            f"{ {g: detected[g] for g in sorted(detected)} } (the anchor G1 is lost)"
        )

    # the neighbour search is centred on whichever gene the cds() scan is visiting,
    # so a hit two cutoffs away from the evaluated gene can decide the outcome
    genes3 = {"G1": (0, 3000), "G2": (11000, 14000), "G3": (22000, 25000)}   # 8 kb gaps, G1-G3 19 kb
    hits3 = {"G1": [("c", 50)], "G2": [("a", 50)], "G3": [("b", 100)]}
    world3 = World(genes3, hits3, 10000)
    text = "RULE A CATEGORY C CUTOFF 10 NEIGHBOURHOOD 10 CONDITIONS c and cds(a and minscore(b, 50))"
    tree = ("and", ("name", "c"), ("cds", ("and", ("name", "a"), ("minscore", "b", 50))))
    _, detected, reported = run_antismash(text, genes3, hits3)
    expected = {g: (holds(tree, world3, g), reasons(tree, world3, g)) for g in hits3}
    if detected != expected:
        details.append(
            "  detail: 'c and cds(a and minscore(b, 50))', G1(c) 8 kb G2(a) 8 kb G3(b, score 100): expected "
            f"{ {g: expected[g] for g in sorted(expected)} } but detect() gave "
            f"{ {g: detected[g] for g in sorted(detected)} } (G3 is 19 kb from G1, outside its 10 kb cutoff)"
        )

    # sanity: the same formula with a plain name instead of minscore is handled correctly
    text = "RULE A CATEGORY C CUTOFF 10 NEIGHBOURHOOD 10 CONDITIONS cds(a and b)"
    tree = ("cds", ("and", ("name", "a"), ("name", "b")))
    _, detected, _ = run_antismash(text, genes, hits)
    expected = {g: (holds(tree, world, g), reasons(tree, world, g)) for g in hits}
    assert detected == expected, "control case unexpectedly differs"

    if not violations:
        print("NOTHING FOUND")
        return 0
    for line in violations:
        print(line)
    for line in details:
        print(line)
    return 1


if __name__ == "__main__":
    sys.exit(main())
