#!/usr/bin/env python
""" C17 "same input, same output" - demonstrations on the UNCHANGED code.

    Run as:  cd <repo root> && PYTHONPATH=<repo root> /venv/bin/python SEED/demo.py

    The parent starts child processes that all compute the same things from the
    same inputs.  The children differ only in
      * PYTHONHASHSEED (string hashing), or
      * memory layout (a varying amount of unrelated objects is kept alive, so the
        objects of interest live at other addresses; objects hashed by identity
        then iterate in another order when they are put in a set).
    The independent reference is trivial: every child must print the same text.
    Any case with more than one distinct output is a violation.

    Exit status 1 if at least one violation was seen, 0 (and NOTHING FOUND) otherwise.
"""

import io
import json
import os
import random
import subprocess
import sys

HASH_SEEDS = ["0", "1", "2", "3", "4", "5"]
LAYOUT_JUNK = [0, 3, 7, 11, 29, 57]


# --------------------------------------------------------------------------
# helpers shared by the children
# --------------------------------------------------------------------------

class FakeHSP:  # the attributes gather_by_query() reads from a Bio HSP
    def __init__(self, query_id, hit_id, start, end, evalue, bitscore):
        self.query_id = query_id
        self.hit_id = hit_id
        self.query_start = start
        self.query_end = end
        self.evalue = evalue
        self.bitscore = bitscore


class FakeQueryResult:
    def __init__(self, hsps):
        self.hsps = hsps


def genbank_text(record):
    from Bio import SeqIO
    handle = io.StringIO()
    SeqIO.write([record.to_biopython()], handle, "genbank")
    return handle.getvalue()


def candidate_lines(record):
    """ returns the order-sensitive lines of the GenBank output (the same qualifiers are also
        written to the "features" of the record in the JSON output) and the full GenBank text
    """
    text = genbank_text(record)
    quals = [line.strip() for line in text.splitlines() if "/protoclusters=" in line]
    return "cand_cluster " + " ".join(quals), text


# --------------------------------------------------------------------------
# cases depending on the string hash seed
# --------------------------------------------------------------------------

def case_terpene_json():
    """ terpene: overlapping hits of one CDS, real profile data of the module """
    from antismash.modules.terpene.data_loader import load_hmm_properties, load_hmm_lengths
    from antismash.modules.terpene import terpene_analysis as ta
    props = load_hmm_properties()
    lengths = load_hmm_lengths(props)
    # a GGPP synthase typically hits the general profile and one or two subtype profiles;
    # a sesquiterpene cyclase hits sibling subtype profiles
    hsps = [
        FakeHSP("cdsA", "PT_FPPS_like", 5, 290, 1e-50, 200.),
        FakeHSP("cdsA", "PT_noFPP_bact", 5, 260, 1e-90, 400.),
        FakeHSP("cdsC", "T1TS_Bas_a", 10, 300, 1e-50, 400.),
        FakeHSP("cdsC", "T1TS_Bas_b", 10, 300, 1e-50, 390.),
        FakeHSP("cdsC", "T1TS_CEABS", 10, 300, 1e-50, 380.),
    ]
    refined = ta.filter_incomplete([FakeQueryResult(hsps)], lengths)
    refined = ta.filter_by_score(refined, props)
    prediction = ta.get_cluster_prediction(ta.get_cds_predictions(refined, props))
    return json.dumps(prediction.to_json())


def case_terpene_hits_kept():
    """ terpene: two equal-start fragments, both too short, of equally long profiles:
        the fallback of remove_incomplete() keeps the first of the list, and the list
        comes from a set sorted on the start only """
    from antismash.modules.terpene.data_loader import load_hmm_properties, load_hmm_lengths
    from antismash.modules.terpene import terpene_analysis as ta
    props = load_hmm_properties()
    lengths = load_hmm_lengths(props)
    assert lengths["PT_noFPP_bact"] == lengths["PT_FPP_bact"] == 265
    hsps = [
        FakeHSP("cdsD", "PT_noFPP_bact", 10, 110, 1e-50, 400.),
        FakeHSP("cdsD", "PT_FPP_bact", 10, 110, 1e-50, 400.),
    ]
    refined = ta.filter_incomplete([FakeQueryResult(hsps)], lengths)
    return json.dumps({name: [hit.hit_id for hit in hits] for name, hits in refined.items()})


def case_t2pks_json():
    """ t2pks: a CLF predicted as 8|9 with a C7-C12 cyclase (any anthracycline-like cluster) """
    from antismash.modules.t2pks.results import CDSPrediction, ProtoclusterPrediction
    from antismash.modules.t2pks.t2pks_analysis import predict_product_class
    preds = {
        "clf": [CDSPrediction("CLF", "8|9", 500., 1e-100)],
        "cyc": [CDSPrediction("CYC", "C7-C12", 300., 1e-80)],
    }
    classes = predict_product_class(preds)
    prediction = ProtoclusterPrediction(preds, [], [], classes, {}, 0, 100)
    return json.dumps(prediction.to_json()["product_classes"])


def case_ripp_clusters_json():
    """ lanthipeptides / lassopeptides / sactipeptides: a protocluster with three precursors """
    from antismash.modules.lanthipeptides.specific_analysis import LanthiResults
    from antismash.modules.lassopeptides.specific_analysis import LassoResults
    from antismash.modules.sactipeptides.specific_analysis import SactiResults
    out = {}
    for cls in (LanthiResults, LassoResults, SactiResults):
        results = cls("rec")
        for locus in ("allorf_00100_00250", "nisA", "precursor_B"):
            results.clusters[1].add(locus)   # exactly what run_specific_analysis() does per hit
        out[cls.__name__] = results.to_json()["protoclusters"]
    return json.dumps(out)


def case_regions_js_categories():
    """ (HTML only) regions.js: product_categories of a hybrid region """
    from antismash.common.secmet.test.helpers import DummyRecord, DummyCDS
    from antismash.common.secmet.features.protocluster import Protocluster
    from antismash.common.secmet.locations import FeatureLocation
    record = DummyRecord(features=[DummyCDS(start=30, end=60, locus_tag="a")], seq="A" * 300)
    for product, category in (("T1PKS", "PKS"), ("NRPS", "NRPS"), ("terpene", "terpene")):
        record.add_protocluster(Protocluster(FeatureLocation(30, 60, 1), FeatureLocation(10, 100, 1), "t", product,
                                             5, 5, "rule", product_category=category))
    record.create_candidate_clusters()
    record.create_regions()
    region = record.get_regions()[0]
    return json.dumps(list(region.product_categories))   # the expression of outputs/html/js.py:136


def case_clusterblast_colours():
    """ (SVG only) clusterblast: four query genes chained by shared hits (a-c, b-c, b-d) """
    from antismash.common.secmet.test.helpers import DummyCDS
    from antismash.modules.clusterblast.svg_builder import build_colour_groups

    class Obj:
        def __init__(self, **kwargs):
            self.__dict__.update(kwargs)
    pairings = [(Obj(id="a"), Obj(name="H1")), (Obj(id="c"), Obj(name="H1")),
                (Obj(id="b"), Obj(name="H2")), (Obj(id="c"), Obj(name="H2")),
                (Obj(id="b"), Obj(name="H3")), (Obj(id="d"), Obj(name="H3"))]
    cdses = [DummyCDS(start=i * 30, end=i * 30 + 30, locus_tag=name) for i, name in enumerate("abcd")]
    lookup = build_colour_groups(cdses, [(None, Obj(scored_pairings=pairings))])
    return json.dumps(sorted(lookup.items()))


HASH_CASES = [
    ("terpene-json", case_terpene_json, True),
    ("terpene-hits-kept", case_terpene_hits_kept, True),
    ("t2pks-json", case_t2pks_json, True),
    ("ripp-protoclusters-json", case_ripp_clusters_json, True),
    ("regions-js-categories", case_regions_js_categories, False),
    ("clusterblast-colours", case_clusterblast_colours, False),
]


# --------------------------------------------------------------------------
# cases depending on the memory layout (objects hashed by identity)
# --------------------------------------------------------------------------

def _dynamic_ruleset(rule_text, table, profiles):
    from antismash.common.hmm_rule_parser import rule_parser, cluster_prediction as cp
    from antismash.common.hmm_rule_parser.structures import DynamicProfile, DynamicHit

    def make(profile):
        def detect(_record, _hmmer_hits):
            return {cds: [DynamicHit(cds, profile, bitscore=50., evalue=1e-10)]
                    for cds, hits in table.items() if profile in hits}
        return DynamicProfile(profile, "demo profile " + profile, detect)
    parser = rule_parser.Parser(rule_text, set(profiles), {"cat"})
    return cp.Ruleset(tuple(parser.rules), {}, "", {"cat"}, "demo",
                      dynamic_profiles={name: make(name) for name in profiles}, equivalence_groups=[])


def _detect_and_build(record, ruleset):
    from antismash.common.hmm_rule_parser import cluster_prediction as cp
    results = cp.detect_protoclusters_and_signatures(record, ruleset)
    results.annotate_cds_features()
    protos = results.protoclusters
    described = [(p.product, str(p.location), str(p.core_location)) for p in protos]
    for proto in protos:
        record.add_protocluster(proto)
    record.create_candidate_clusters()
    record.create_regions()
    return described


def layout_twin_origin_genes():
    """ circular record, two genes with the same coordinates over the origin on opposite strands,
        both hit by a CUTOFF 0 rule (the shipped NRPS-like rule has CUTOFF 0) """
    from antismash.common.secmet.test.helpers import DummyRecord, DummyCDS
    from antismash.common.secmet.locations import FeatureLocation as FL, CompoundLocation as CL
    cdses = [
        DummyCDS(location=CL([FL(594, 600, 1), FL(0, 9, 1)]), locus_tag="fwd", translation="MMMMM"),
        DummyCDS(location=CL([FL(0, 9, -1), FL(594, 600, -1)]), locus_tag="rev", translation="MMMMM"),
        DummyCDS(start=300, end=330, locus_tag="far"),
    ]
    record = DummyRecord(features=cdses, seq="A" * 600, circular=True, record_id="rec")
    rules = "RULE frag\n CATEGORY cat\n DESCRIPTION d\n CUTOFF 0\n NEIGHBOURHOOD 0\n CONDITIONS pA\n"
    protos = _detect_and_build(record, _dynamic_ruleset(rules, {"fwd": ["pA"], "rev": ["pA"]}, ["pA"]))
    assert len(protos) == 2 and protos[0] == protos[1], protos
    return candidate_lines(record)


def layout_extended_cores():
    """ linear record, two adjacent genes hit by a CUTOFF 0 rule with EXTENDERS: both cores are
        extended to the same location and are not merged """
    from antismash.common.secmet.test.helpers import DummyRecord, DummyCDS
    cdses = [DummyCDS(start=30, end=60, locus_tag="left"), DummyCDS(start=60, end=90, locus_tag="right")]
    record = DummyRecord(features=cdses, seq="A" * 300, record_id="rec")
    rules = ("RULE frag\n CATEGORY cat\n DESCRIPTION d\n CUTOFF 0\n NEIGHBOURHOOD 0\n CONDITIONS pA\n"
             " EXTENDERS pD\n")
    table = {"left": ["pA", "pD"], "right": ["pA", "pD"]}
    protos = _detect_and_build(record, _dynamic_ruleset(rules, table, ["pA", "pD"]))
    assert len(protos) == 2 and protos[0] == protos[1], protos
    return candidate_lines(record)


def layout_sideloaded_twice():
    """ the same protocluster listed twice in a sideloaded annotation file """
    from antismash.common.secmet.test.helpers import DummyRecord, DummyCDS
    from antismash.detection.sideloader.data_structures import ProtoclusterAnnotation, Tool, SideloadedResults
    cdses = [DummyCDS(start=s, end=s + 30, locus_tag=f"c{s}") for s in (30, 90, 150)]
    record = DummyRecord(features=cdses, seq="A" * 300, record_id="rec")
    tool = Tool("ext", "1", "d", {})
    raw = {"core_start": 30, "core_end": 180, "product": "T1PKS", "neighbourhood_left": 10, "neighbourhood_right": 10}
    protos = [ProtoclusterAnnotation.from_schema_json(dict(raw, details={"score": [str(i)]}), tool)
              for i in range(2)]
    SideloadedResults("rec", [], protos).add_to_record(record)
    record.create_candidate_clusters()
    record.create_regions()
    return candidate_lines(record)


def layout_ripp_new_cds():
    """ RiPP results: the new CDS features (precursors found by all_orfs) are kept in a set """
    from antismash.common.secmet.test.helpers import DummyRecord, DummyCDS
    from antismash.common.secmet.features.protocluster import Protocluster
    from antismash.common.secmet.locations import FeatureLocation
    from antismash.modules.lanthipeptides.specific_analysis import LanthiResults
    from antismash.modules.lassopeptides.specific_analysis import LassoResults
    from antismash.modules.sactipeptides.specific_analysis import SactiResults
    from antismash.modules.thiopeptides.specific_analysis import ThioResults
    out = {}
    for cls in (LanthiResults, LassoResults, SactiResults):
        results = cls("rec")
        for i in range(4):
            results.add_cds(DummyCDS(start=100 * i, end=100 * i + 60, locus_tag=f"allorf_{i}"))
        out[cls.__name__] = results.to_json()["new_cds_features"]
    record = DummyRecord(features=[DummyCDS(start=s, end=s + 30, locus_tag=f"c{s}") for s in (30, 330, 630, 930)],
                         seq="A" * 1200)
    for start in (30, 330, 630, 930):
        record.add_protocluster(Protocluster(FeatureLocation(start, start + 30, 1),
                                             FeatureLocation(start - 10, start + 40, 1), "t", "thiopeptide",
                                             5, 5, "rule"))
    thio = ThioResults("rec")
    for proto in record.get_protoclusters():
        thio.clusters_with_motifs.add(proto)
    out["ThioResults"] = thio.to_json()["protoclusters with motifs"]
    text = json.dumps(out)
    return text, text


LAYOUT_CASES = [
    ("twin-origin-genes", layout_twin_origin_genes),
    ("extended-cores", layout_extended_cores),
    ("sideloaded-twice", layout_sideloaded_twice),
    ("ripp-new-cds-json", layout_ripp_new_cds),
]


# --------------------------------------------------------------------------
# child / parent
# --------------------------------------------------------------------------

class Junk:
    pass


def child_hash():
    print(json.dumps({name: func() for name, func, _ in HASH_CASES}))


def child_layout(junk):
    keep = [Junk() for _ in range(junk)]
    rng = random.Random(junk)
    outputs = {name: {} for name, _ in LAYOUT_CASES}
    # the same input is processed several times; between the runs some unrelated
    # objects are allocated and kept, which is all that differs
    for _ in range(12):
        keep.append([Junk() for _ in range(rng.randint(0, 9))])
        for name, func in LAYOUT_CASES:
            short, full = func()
            outputs[name][full] = short
    print(json.dumps({name: sorted(set(values.values())) for name, values in outputs.items()}))
    return keep


def run_children():
    root = os.getcwd()
    env_base = dict(os.environ, PYTHONPATH=root + os.pathsep + os.environ.get("PYTHONPATH", ""))
    procs = []
    for seed in HASH_SEEDS:
        procs.append(("hash", seed, subprocess.Popen(
            [sys.executable, os.path.abspath(__file__), "--child-hash"],
            env=dict(env_base, PYTHONHASHSEED=seed), stdout=subprocess.PIPE, stderr=subprocess.PIPE, text=True)))
    for junk in LAYOUT_JUNK:
        procs.append(("layout", junk, subprocess.Popen(
            [sys.executable, os.path.abspath(__file__), "--child-layout", str(junk)],
            env=dict(env_base, PYTHONHASHSEED="0"), stdout=subprocess.PIPE, stderr=subprocess.PIPE, text=True)))
    results = []
    for kind, variant, proc in procs:
        out, err = proc.communicate()
        if proc.returncode != 0:
            print(f"child {kind}/{variant} failed:\n{err}", file=sys.stderr)
            sys.exit(2)
        results.append((kind, variant, json.loads(out.strip().splitlines()[-1])))
    return results


DESCRIPTIONS = {
    "terpene-json": (
        "terpene JSON results: one CDS hit by PT_FPPS_like + PT_noFPP_bact, another by T1TS_Bas_a/T1TS_Bas_b/"
        "T1TS_CEABS (overlapping hits). Expected: one fixed order of 'subtypes', of reaction 'products' and of "
        "the protocluster 'products' for every PYTHONHASHSEED. Actual: the order changes with the seed "
        "(tuple(set(...)) in terpene_analysis.get_domain_prediction / data_loader.Reaction.build_intersection)"),
    "terpene-hits-kept": (
        "terpene hits kept: CDS with two too-short hits PT_noFPP_bact[10:110] and PT_FPP_bact[10:110], equal "
        "score, profiles of equal length 265. Expected: the same hit survives filter_incomplete() in every "
        "process. Actual: which one survives depends on PYTHONHASHSEED (set from gather_by_query() sorted on "
        "query_start only, terpene_analysis.filter_incomplete)"),
    "t2pks-json": (
        "t2pks JSON results: CLF '8|9' + CYC 'C7-C12'. Expected: one fixed order of 'product_classes'. Actual: "
        "order of the four classes changes with PYTHONHASHSEED (list(set) in t2pks/results.py to_json)"),
    "ripp-protoclusters-json": (
        "lanthipeptide/lassopeptide/sactipeptide JSON results: protocluster 1 with three precursor loci. "
        "Expected: one fixed order in 'protoclusters'. Actual: order changes with PYTHONHASHSEED "
        "(list(set of str) in the to_json() of the three results classes)"),
    "twin-origin-genes": (
        "core pipeline: circular 600 bp record, genes join(595..600,1..9) and complement(join(595..600,1..9)), "
        "both matching a CUTOFF 0 rule -> two identical protoclusters (never merged as distance 0 < cutoff 0 "
        "is false). Expected: identical GenBank/JSON for every memory layout. Actual: the order of the "
        "protoclusters inside the candidate cluster (/protoclusters qualifiers of GenBank and JSON features) flips "
        "(sorted() of a set of identity-hashed Protoclusters with an order that ties, formation._merge_sets)"),
    "extended-cores": (
        "core pipeline: linear record, adjacent genes [30:60] and [60:90], both with pA and pD, rule CUTOFF 0 / "
        "CONDITIONS pA / EXTENDERS pD -> two identical protoclusters [30:90]. Expected: identical output for "
        "every memory layout. Actual: candidate cluster lists its protoclusters in a layout dependent order"),
    "sideloaded-twice": (
        "core pipeline: sideloaded annotation listing the same protocluster (core 30-180, T1PKS) twice. "
        "Expected: identical output for every memory layout. Actual: candidate cluster lists its protoclusters "
        "in a layout dependent order"),
    "ripp-new-cds-json": (
        "RiPP JSON results: four new precursor CDS features (lanthi/lasso/sacti 'new_cds_features') and four "
        "protoclusters with motifs (thiopeptides). Expected: one fixed order. Actual: order depends on the "
        "addresses of the features (iteration over a set of CDSFeature / Protocluster objects in to_json())"),
    "regions-js-categories": (
        "regions.js (HTML output, outside the JSON/GenBank clause): 'product_categories' of a hybrid region "
        "is list(set) and changes order with PYTHONHASHSEED (outputs/html/js.py:136)"),
    "clusterblast-colours": (
        "clusterblast SVG colours (HTML output, outside the JSON/GenBank clause): query genes a,b,c,d chained "
        "by shared hits (a-c, b-c, b-d) get colours that depend on PYTHONHASHSEED (svg_builder.build_colour_groups keeps "
        "a stale sub-group and iterates a set of tuples)"),
}


def main():
    results = run_children()
    violations = 0
    strict = {name: flag for name, _, flag in HASH_CASES}
    for name, _, _ in HASH_CASES:
        variants = {}
        for kind, variant, data in results:
            if kind == "hash":
                variants.setdefault(data[name], []).append(variant)
        if len(variants) > 1:
            label = "VIOLATION" if strict[name] else "OBSERVATION (not counted)"
            if strict[name]:
                violations += 1
            print(f"{label}: {DESCRIPTIONS[name]}")
            for text, seeds in list(variants.items())[:3]:
                print(f"    PYTHONHASHSEED={','.join(seeds)}: {text[:300]}")
    for name, _ in LAYOUT_CASES:
        variants = set()
        for kind, variant, data in results:
            if kind == "layout":
                variants.update(data[name])
        if len(variants) > 1:
            violations += 1
            print(f"VIOLATION: {DESCRIPTIONS[name]}")
            for text in sorted(variants)[:3]:
                print(f"    one memory layout gives: {text[:300]}")
    if not violations:
        print("NOTHING FOUND")
        return 0
    return 1


if __name__ == "__main__":
    if len(sys.argv) > 1 and sys.argv[1] == "--child-hash":
        child_hash()
    elif len(sys.argv) > 1 and sys.argv[1] == "--child-layout":
        child_layout(int(sys.argv[2]))
    else:
        sys.exit(main())
