#!/usr/bin/env python
""" C06 hunt: numbering / identity defects left around regions and their areas.

    Run as:  cd <repo root> && PYTHONPATH=<repo root> /venv/bin/python SEED/demo.py

    Every check compares antiSMASH's behaviour with an independent reference:
    the raw qualifiers of the Bio.SeqFeature objects that antiSMASH itself wrote
    (read with plain Biopython, no antiSMASH code), or plain object identity.
"""

import io
import logging
import os
import shutil
import sys
import tempfile

from Bio import SeqIO
from Bio.Seq import Seq

from antismash.common.secmet.record import Record
from antismash.common.secmet.features import CandidateCluster, Protocluster, SubRegion
from antismash.common.secmet.features.candidate_cluster import CandidateClusterKind
from antismash.common.secmet.features.protocluster import SideloadedProtocluster
from antismash.common.secmet.features.subregion import SideloadedSubRegion
from antismash.common.secmet.locations import CompoundLocation, FeatureLocation

logging.disable(logging.CRITICAL)

VIOLATIONS = []


def violation(text):
    VIOLATIONS.append(text)
    print("VIOLATION:", text)


def make_record(length, circular):
    record = Record(Seq("ACGT" * (length // 4)))
    record.id = "rec"
    record.annotations["molecule_type"] = "DNA"
    if circular:
        record.annotations["topology"] = "circular"
    return record


def written_candidates(bio_record):
    """ Independent reference: what the written features say about themselves.
        Returns {candidate number: products} using only Biopython objects.
    """
    products_by_proto_number = {}
    for feature in bio_record.features:
        if feature.type == "protocluster":
            products_by_proto_number[int(feature.qualifiers["protocluster_number"][0])] = feature.qualifiers["product"][0]
    result = {}
    for feature in bio_record.features:
        if feature.type != "cand_cluster":
            continue
        number = int(feature.qualifiers["candidate_cluster_number"][0])
        by_reference = [products_by_proto_number[int(num)] for num in feature.qualifiers["protoclusters"]]
        # the written file must at least be consistent with itself
        assert sorted(by_reference) == sorted(feature.qualifiers["product"]), (by_reference, feature.qualifiers)
        result[number] = (feature.qualifiers["kind"][0], sorted(feature.qualifiers["product"]),
                          feature.qualifiers.get("SMILES", [None])[0])
    return result


def loaded_candidates(record):
    return {cand.get_candidate_cluster_number(): (str(cand.kind), sorted(cand.products), cand.smiles_structure)
            for cand in record.get_candidate_clusters()}


# ----------------------------------------------------------------------------
# defect 1: candidate clusters with identical coordinates but different strand
#           attributes (sideloaded: no strand, detected: forward) are an
#           unbroken tie, numbers follow insertion order and change on reload
# ----------------------------------------------------------------------------
def defect_candidate_strand_tie():
    def build(first_sideloaded):
        record = make_record(1000, circular=False)
        side = SideloadedProtocluster(FeatureLocation(140, 160), FeatureLocation(100, 200), "side", "sideprod")
        detected = Protocluster(FeatureLocation(120, 130, 1), FeatureLocation(100, 200, 1),
                                "rule-based-clusters", "detprod", 10, 20, "rule")
        other = Protocluster(FeatureLocation(250, 260, 1), FeatureLocation(150, 300, 1),
                             "rule-based-clusters", "other", 10, 20, "rule")
        for proto in (side, detected, other):
            record.add_protocluster(proto)
        # exactly the candidates create_candidate_clusters() builds for this layout
        # (checked below), only the insertion order of the two singles is chosen here,
        # since create_candidate_clusters() takes it from iterating over a set
        neighbouring = CandidateCluster(CandidateClusterKind.NEIGHBOURING, sorted([side, detected, other]))
        single_side = CandidateCluster(CandidateClusterKind.SINGLE, [side])
        single_det = CandidateCluster(CandidateClusterKind.SINGLE, [detected])
        single_other = CandidateCluster(CandidateClusterKind.SINGLE, [other])
        singles = [single_side, single_det] if first_sideloaded else [single_det, single_side]
        for cand in [neighbouring] + singles + [single_other]:
            record.add_candidate_cluster(cand)
        for cand in record.get_candidate_clusters():
            cand.smiles_structure = "C" * (1 + len(cand.products[0]))  # something specific to the candidate
        record.create_regions()
        return record

    # sanity: the automatic formation gives the same four candidates
    auto = build(True)
    auto.clear_candidate_clusters()
    auto.create_candidate_clusters()
    assert sorted((str(c.kind), sorted(c.products)) for c in auto.get_candidate_clusters()) == [
        ("neighbouring", ["detprod", "other", "sideprod"]), ("single", ["detprod"]),
        ("single", ["other"]), ("single", ["sideprod"])]

    numberings = []
    for first_sideloaded in (True, False):
        record = build(first_sideloaded)
        numberings.append({tuple(v[1]): k for k, v in loaded_candidates(record).items()})
        bio = record.to_biopython()
        expected = written_candidates(bio)
        reloaded = Record.from_biopython(bio, "bacteria")
        actual = loaded_candidates(reloaded)
        if expected != actual:
            changed = {num: (expected[num], actual[num]) for num in expected if expected[num] != actual.get(num)}
            violation("candidate cluster numbers do not survive to_biopython()/from_biopython(): linear record, "
                      "sideloaded protocluster [100:200] (no strand) and detected protocluster [100:200](+) plus a "
                      f"neighbour [150:300](+); singles inserted {'sideloaded' if first_sideloaded else 'detected'} first; "
                      f"written number -> (kind, products, SMILES) vs reloaded: {changed}")
    if numberings[0] != numberings[1]:
        violation("same set of candidate clusters is numbered differently depending on insertion order "
                  f"(singles with identical coordinates, strand None vs +): {numberings[0]} vs {numberings[1]}")


# ----------------------------------------------------------------------------
# defect 2: region GenBank file of an origin-crossing region: protoclusters
#           (and their single candidates) with identical extents keep their
#           full-record order when renumbered, but sort differently in the
#           linearised region record, so references bind other features
# ----------------------------------------------------------------------------
def defect_region_file_tie():
    length = 1000
    record = make_record(length, circular=True)

    def extent():
        return CompoundLocation([FeatureLocation(900, length, 1), FeatureLocation(0, 100, 1)])
    # same extents, one core after the origin, one before it
    post = SideloadedProtocluster(FeatureLocation(10, 20, 1), extent(), "side", "postprod")
    pre = SideloadedProtocluster(FeatureLocation(950, 960, 1), extent(), "side", "preprod")
    other = SideloadedProtocluster(FeatureLocation(150, 160, 1), FeatureLocation(50, 300, 1), "side", "other")
    for proto in (post, pre, other):
        record.add_protocluster(proto)
    record.create_candidate_clusters()
    for cand in record.get_candidate_clusters():
        cand.smiles_structure = "C" * cand.get_candidate_cluster_number()
    assert record.create_regions() == 1
    region = record.get_regions()[0]
    assert region.crosses_origin()

    tempdir = tempfile.mkdtemp()
    try:
        region.write_to_genbank(directory=tempdir)
        path = os.path.join(tempdir, "rec.region001.gbk")
        with open(path, encoding="utf-8") as handle:
            bio = list(SeqIO.parse(handle, "genbank"))[0]
        expected = written_candidates(bio)  # asserts the file is consistent with itself
        reloaded = Record.from_genbank(path)[0]
        actual = loaded_candidates(reloaded)
    finally:
        shutil.rmtree(tempdir)
    if expected != actual:
        changed = {num: (expected[num], actual[num]) for num in expected if expected[num] != actual.get(num)}
        violation("region GenBank file of origin-crossing region join{[900:1000],[0:300]} (circular, 1000 nt) with two "
                  "protoclusters of identical extent join{[900:1000],[0:100]} (cores [10:20] and [950:960]) and a neighbour "
                  "[50:300]: candidates loaded from the file contain other protoclusters than the file says; "
                  f"number -> (kind, products, SMILES) written vs loaded: {changed}")


# ----------------------------------------------------------------------------
# defect 3: areas whose ordering keys are fully identical swap numbers on every
#           save/load (bisect_left inserts a tie *before* its equal)
# ----------------------------------------------------------------------------
def defect_exact_tie_flips():
    record = make_record(100, circular=False)
    first = SideloadedSubRegion(FeatureLocation(10, 50), "mytool", "same", extra_qualifiers={"score": ["1"]})
    second = SideloadedSubRegion(FeatureLocation(10, 50), "mytool", "same", extra_qualifiers={"score": ["2"]})
    record.add_subregion(first)
    record.add_subregion(second)
    record.create_regions()
    bio = record.to_biopython()
    expected = {int(f.qualifiers["subregion_number"][0]): f.qualifiers["score"][0]
                for f in bio.features if f.type == "subregion"}
    reloaded = Record.from_biopython(bio, "bacteria")
    actual = {sub.get_subregion_number(): sub.extra_qualifiers["score"][0] for sub in reloaded.get_subregions()}
    if expected != actual:
        violation("two sideloaded subregions [10:50] with the same tool and label but different details: "
                  f"written subregion_number -> score {expected}, after from_biopython() {actual} "
                  "(and they swap again on every further save/load)")


# ----------------------------------------------------------------------------
# defect 4: clear_*() keeps the old numbers: a removed feature still shows a
#           number, which now identifies a different feature
# ----------------------------------------------------------------------------
def defect_stale_numbers():
    record = make_record(100, circular=False)
    old_sub = SubRegion(FeatureLocation(10, 20, 1), "tool", "old")
    record.add_subregion(old_sub)
    record.create_regions()
    old_region = record.get_regions()[0]
    record.clear_subregions()   # also clears and recreates the regions
    new_sub = SubRegion(FeatureLocation(60, 90, 1), "tool", "new")
    record.add_subregion(new_sub)
    record.create_regions()
    problems = []
    for name, old, number_of, by_number, members in [
            ("subregion", old_sub, record.get_subregion_number, record.get_subregion, record.get_subregions()),
            ("region", old_region, record.get_region_number, record.get_region, record.get_regions())]:
        assert not any(old is member for member in members)  # reference: it really is gone
        try:
            number = number_of(old)
        except ValueError:
            continue   # the documented answer for a feature not in the record
        problems.append(f"removed {name} {old.location} still has number {number}, "
                        f"which is now {by_number(number).location}")
    if problems:
        violation("after clear_subregions() + add_subregion() + create_regions(): " + "; ".join(problems)
                  + " (get_*_number() documents a ValueError for features not in the record;"
                  " old.to_biopython() writes the stale number)")


def main():
    defect_candidate_strand_tie()
    defect_region_file_tie()
    defect_exact_tie_flips()
    defect_stale_numbers()
    if not VIOLATIONS:
        print("NOTHING FOUND")
        return 0
    return 1


if __name__ == "__main__":
    sys.exit(main())
