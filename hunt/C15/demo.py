#!/usr/bin/env python
""" Property C15: ORF scanning / gap search.  Prints one VIOLATION line per
    distinct defect found in the UNCHANGED code and exits 1.

    Every verdict is made by an independent reference: plain codon walking for
    the scanner, and plain sets of base positions for "lies in the gaps".
"""
import sys

from Bio.Seq import Seq

from antismash.common.all_orfs import find_all_orfs, get_trimmed_orf, scan_orfs
from antismash.common.secmet import CDSFeature, Record
from antismash.common.secmet.features import SubRegion
from antismash.common.secmet.locations import CompoundLocation, FeatureLocation

STARTS = {"ATG", "GTG", "TTG"}
STOPS = {"TAA", "TAG", "TGA"}
COMP = {"A": "T", "C": "G", "G": "C", "T": "A", "R": "Y", "Y": "R", "N": "N"}
violations = []


def report(text):
    violations.append(text)
    print("VIOLATION:", text)


# ---------- independent helpers
def ref_scan(window, minimum):
    """ all (start, end_exclusive) ORFs of the window, forward reading, length >= minimum """
    window = window.upper()
    found = []
    for frame in range(3):
        pending = []  # codon starts since the previous stop
        for i in range(frame, len(window) - 2, 3):
            if window[i:i + 3] in STOPS:
                begins = [j for j in pending if window[j:j + 3] in STARTS]
                if begins and i + 3 - begins[0] >= minimum:
                    found.append((begins[0], i + 3))
                pending = []
            else:
                pending.append(i)
    return sorted(found)


def positions(location):
    """ base positions of a location in reading order """
    result = []
    for part in location.parts:
        chunk = list(range(int(part.start), int(part.end)))
        if part.strand == -1:
            chunk.reverse()
        result.extend(chunk)
    return result


def build_record(seq, gene_locations, circular=False):
    record = Record(Seq(seq))
    if circular:
        record.annotations["topology"] = "circular"
    for i, loc in enumerate(gene_locations):
        aminos = len(positions(loc)) // 3
        record.add_cds_feature(CDSFeature(loc, "M" + "A" * max(aminos - 1, 0), locus_tag=f"gene{i}"))
    return record


def place(seq, at, text):
    """ writes text into the circular string seq at position at """
    chars = list(seq)
    for k, char in enumerate(text):
        chars[(at + k) % len(chars)] = char
    return "".join(chars)


def worst_overlap(orf, gene_locations):
    """ (bases shared, gene) for the gene sharing most bases with the ORF """
    mine = set(positions(orf.location))
    return max(((len(mine & set(positions(g))), str(g)) for g in gene_locations), default=(0, ""))


ORF63 = "ATG" + "GCC" * 19 + "TAA"   # 63 nt, no other start/stop in any frame of either strand


# ---------- 1. minimum length is exclusive instead of inclusive
def defect_min_length():
    seq = "ATGAAATAA"
    expected = ref_scan(seq, 9)
    got = [(int(l.start), int(l.end)) for l in scan_orfs(seq, 1, 0, minimum_length=9)]
    if got != expected:
        report(f"scan_orfs({seq!r}, 1, minimum_length=9): the 9 nt ORF is exactly the minimum length, "
               f"expected {expected}, got {got} (ORFs of length == minimum are dropped; "
               "same through find_all_orfs(min_length=60) for a 60 nt ORF)")
    # the same through the public gap search with its default of 60
    orf60 = "ATG" + "GCC" * 18 + "TAA"
    record = build_record("C" * 20 + orf60 + "C" * 20, [])
    if len(orf60) == 60 and not find_all_orfs(record, None, min_length=60):
        print("   (find_all_orfs(min_length=60) returns nothing for a record holding a 60 nt ORF)")


# ---------- 2. a short gene nested in the tail of a longer one re-opens the longer gene
def defect_nested_short_gene():
    length = 300
    genes = [FeatureLocation(0, 100, 1), FeatureLocation(81, 90, 1)]
    seq = place("C" * length, 80, ORF63)
    record = build_record(seq, genes)
    for orf in find_all_orfs(record, None, min_length=60, max_overlap=10):
        shared, gene = worst_overlap(orf, genes)
        if shared > 10:
            report(f"find_all_orfs(linear 300 nt record, genes [0:100](+) and [81:90](+), defaults min_length=60 "
                   f"max_overlap=10) returned {orf.location} sharing {shared} bases with gene {gene}; "
                   "expected no ORF sharing more than 10 bases with any gene "
                   "(find_intergenic_areas moves 'last' backwards from 90 to 80 after the nested 9 nt gene)")
            return


# ---------- 3a. gene nested in the pre-origin part of an origin-crossing gene
def defect_cross_origin_gene_ignored():
    length = 300
    crossing = CompoundLocation([FeatureLocation(250, 300, 1), FeatureLocation(0, 40, 1)])
    genes = [crossing, FeatureLocation(270, 279, -1)]
    seq = place("C" * length, 200, "ATG" + "GCC" * 22 + "TAA")  # [200:272)
    for area_location in (CompoundLocation([FeatureLocation(150, 300, 1), FeatureLocation(0, 100, 1)]),
                          FeatureLocation(150, 290)):
        record = build_record(seq, genes, circular=True)
        area = SubRegion(area_location, tool="demo")
        record.add_subregion(area)
        for orf in find_all_orfs(record, area, min_length=60, max_overlap=10):
            shared, gene = worst_overlap(orf, genes)
            if shared > 10:
                report(f"find_all_orfs(circular 300 nt record, genes {crossing} and [270:279](-), area {area_location}, "
                       f"defaults) returned {orf.location} sharing {shared} bases with gene {gene}; expected at most 10 "
                       "(the origin-crossing gene is handled as start=0/end=300 and sorted last, so the gap emitted "
                       "before the nested gene runs straight over its pre-origin part)")
                return


# ---------- 3b. the two padding slivers of an origin-crossing gene are merged into one window inside the gene
def defect_merged_window_inside_gene():
    length = 300
    crossing = CompoundLocation([FeatureLocation(250, 300, 1), FeatureLocation(0, 40, 1)])
    seq = place("C" * length, 291, "ATGAAAAAAAAAAAATAA")   # 18 nt ORF over the origin, inside the gene
    record = build_record(seq, [crossing], circular=True)
    area = SubRegion(CompoundLocation([FeatureLocation(150, 300, 1), FeatureLocation(0, 100, 1)]), tool="demo")
    record.add_subregion(area)
    for orf in find_all_orfs(record, area, min_length=6, max_overlap=10):
        shared, gene = worst_overlap(orf, [crossing])
        if shared > 10:
            report(f"find_all_orfs(circular 300 nt record, single gene {crossing}, area {area.location}, min_length=6, "
                   f"max_overlap=10) returned {orf.location} which lies completely inside the gene ({shared} shared "
                   "bases, allowed 10); the slivers (290,300) and (0,10) are merged to a 20 nt window (-10,10)")
            return


# ---------- 4. ambiguity codes that always mean stop (TAR, TRA)
def defect_ambiguous_stop():
    seq = "CCCATGAAATARAAACCCTAACCC"
    record = build_record(seq, [])
    for orf in find_all_orfs(record, None, min_length=3, max_overlap=0):
        codons = len(positions(orf.location)) // 3 - 1   # without the stop codon
        if len(orf.translation) != codons:
            report(f"find_all_orfs on {seq!r}: ORF {orf.location} has {codons} codons before its stop but the "
                   f"translation is {orf.translation!r} ({len(orf.translation)} aa): the in-frame TAR (TAA or TAG, "
                   "always a stop) is not a stop for scan_orfs but ends the translation, so translation and "
                   "location disagree (same for TRA)")
            return


# ---------- 5. internal assertion on a tiny gene next to the origin in an origin-crossing area
def defect_assertion():
    length = 124
    genes = [FeatureLocation(1, 10, 1)]
    record = build_record("C" * length, genes, circular=True)
    area = SubRegion(CompoundLocation([FeatureLocation(100, 124, 1), FeatureLocation(0, 60, 1)]), tool="demo")
    record.add_subregion(area)
    try:
        find_all_orfs(record, area, min_length=9, max_overlap=10)
    except AssertionError:
        report("find_all_orfs(circular 124 nt record, gene [1:10](+), area join{[100:124],[0:60]}, min_length=9, "
               "max_overlap=10) dies with a bare AssertionError in _find_cross_origin_intergenic ('assert not "
               "post_origin'): the post-origin part yields two windows starting at 0, (0,11) and (0,60); "
               "expected a (possibly empty) list of ORFs")


# ---------- adjacent, outside the statement: trimming an origin-crossing ORF
def adjacent_trim():
    seq = "CCCAAATAA" + "C" * 31 + "ATGAAAATG"
    length = len(seq)
    record = build_record(seq, [], circular=True)
    area = SubRegion(CompoundLocation([FeatureLocation(length - 20, length, 1), FeatureLocation(0, 20, 1)]), tool="demo")
    record.add_subregion(area)
    for orf in find_all_orfs(record, area, min_length=6, max_overlap=0):
        if len(orf.location.parts) > 1:
            trimmed = get_trimmed_orf(orf, record, min_length=6)
            if trimmed and not set(positions(trimmed.location)) <= set(positions(orf.location)):
                print(f"ADJACENT (not counted, trimming is not in the statement): get_trimmed_orf of {orf.location} "
                      f"gives {trimmed.location}, which is not inside the ORF")


defect_min_length()
defect_nested_short_gene()
defect_cross_origin_gene_ignored()
defect_merged_window_inside_gene()
defect_ambiguous_stop()
defect_assertion()
adjacent_trim()

if violations:
    sys.exit(1)
print("NOTHING FOUND")
sys.exit(0)
