#!/usr/bin/env python3
""" C10: annotated records must survive GenBank and JSON round trips unchanged,
    and the first output must be a fixed point.

    Run as:  cd <repo root> && PYTHONPATH=<repo root> /venv/bin/python SEED/demo.py

    Every check builds a record through the same public API the pipeline uses,
    writes it (GenBank text through Bio.SeqIO, or serialiser.record_to_json
    through json.dumps), reads it back and compares against an independent
    reference: plain attribute values / sets of coordinates remembered from
    before the write, and plain string comparison of first and second output.
"""

import json
import os
import random
import re
import sys
import tempfile
import warnings
from io import StringIO

from Bio import SeqIO
from Bio.Seq import Seq
from Bio.SeqFeature import SeqFeature, SimpleLocation
from Bio.SeqRecord import SeqRecord

from antismash.common import serialiser
from antismash.common.secmet import Record
from antismash.common.secmet.features import (
    CDSFeature,
    Feature,
    Prepeptide,
    Protocluster,
    SubRegion,
)
from antismash.common.secmet.locations import CompoundLocation, FeatureLocation
from antismash.common.secmet.qualifiers import GeneFunction
from antismash.common.secmet.qualifiers.nrps_pks import _HMMResultLike
from antismash.detection.nrps_pks_domains.modular_domain import ModularDomain
from antismash.detection.sideloader.general import load_single_record_annotations

warnings.simplefilter("ignore")

VIOLATIONS = []


def violation(text):
    VIOLATIONS.append(text)
    print("VIOLATION: " + text)


# ---------------------------------------------------------------- helpers

def new_record(length=3000, circular=False, seed=1):
    rng = random.Random(seed)
    record = Record("".join(rng.choice("ACGT") for _ in range(length)), id="rec", name="rec", description="d")
    record.annotations["molecule_type"] = "DNA"
    record.add_annotation("topology", "circular" if circular else "linear")
    return record


def gbk_text(record):
    handle = StringIO()
    SeqIO.write([record.to_biopython()], handle, "genbank")
    text = handle.getvalue()
    return text[text.index("FEATURES"):]  # the header is biopython's business, not antiSMASH's


def gbk_full_text(record):
    handle = StringIO()
    SeqIO.write([record.to_biopython()], handle, "genbank")
    return handle.getvalue()


def gbk_load(record, taxon="bacteria"):
    return Record.from_biopython(SeqIO.read(StringIO(gbk_full_text(record)), "genbank"), taxon)


def json_text(record):
    return json.dumps(serialiser.record_to_json(record.to_biopython()), sort_keys=True)


def json_load(record, taxon="bacteria"):
    return serialiser.record_from_json(json.loads(json_text(record)), taxon)


def feature_order(text):
    """ (type, location text) of every feature of a GenBank feature table, in order """
    found = []
    for line in text.splitlines():
        match = re.match(r"^     (\S+)\s+(\S+)$", line)
        if match:
            found.append((match.group(1), match.group(2)))
    return found


def covered(location):
    """ the set of bases covered by a location """
    bases = set()
    for part in location.parts:
        bases.update(range(int(part.start), int(part.end)))
    return bases


def add_simple_cds(record, start, end, strand, name):
    cds = CDSFeature(FeatureLocation(start, end, strand), translation="M" + "A" * ((end - start) // 3 - 1),
                     locus_tag=name)
    record.add_cds_feature(cds)
    return cds


# ---------------------------------------------------------------- the checks

def check_long_prepeptide_sequences():
    """ D1: leader/core/tail sequences longer than a GenBank line """
    record = new_record()
    add_simple_cds(record, 300, 540, 1, "cdsA")
    leader = "MSKFDDFDLDVVKVSKQDSKITPQWKSESLCTPGCVTGALQTCFLQTLTCN"  # 51 aa
    record.add_cds_motif(Prepeptide(FeatureLocation(300, 537, 1), "lanthipeptide", core="C" * 20,
                                    locus_tag="cdsA_lanthipeptide", tool="lanthipeptides",
                                    peptide_subclass="Class I", score=12.30, monoisotopic_mass=1000.1,
                                    molecular_weight=1200.2, leader=leader, tail="T" * 8))
    first = gbk_text(record)
    reloaded = gbk_load(record)
    motif = reloaded.get_cds_motifs()[0]
    problems = []
    if motif.leader != leader:
        problems.append(f"leader read back as {motif.leader!r}")
    try:
        second = gbk_text(reloaded)
        if second != first:
            old = [loc for kind, loc in feature_order(first) if kind == "CDS_motif"]
            new = [loc for kind, loc in feature_order(second) if kind == "CDS_motif"]
            problems.append(f"second GenBank output differs, leader/core/tail pieces {old} became {new}")
    except ValueError as err:
        problems.append(f"second write raises {err}")
    if problems:
        violation("prepeptide with a 51 aa leader (core 20, tail 8) on a forward CDS, GenBank round trip: "
                  f"expected identical leader and identical second output; {'; '.join(problems)}")


def check_long_smiles():
    """ D2: the SMILES of a candidate cluster """
    record = new_record()
    add_simple_cds(record, 400, 550, 1, "c1")
    record.add_protocluster(Protocluster(FeatureLocation(400, 550), FeatureLocation(100, 1000), "rule-based-clusters",
                                         "NRPS", 20, 300, "cds(a and b)", "NRPS"))
    record.create_candidate_clusters()
    record.create_regions()
    smiles = "NC(C(C)C)C(=O)NC(CC(C)C)C(=O)NC(C)C(=O)NC(CC1=CC=CC=C1)C(=O)NC(CO)C(=O)O"
    record.get_candidate_cluster(1).smiles_structure = smiles  # as modules/nrps_pks/results.py does
    after = gbk_load(record).get_candidate_cluster(1).smiles_structure
    if after != smiles:
        violation(f"candidate cluster with a {len(smiles)} character SMILES, GenBank round trip: "
                  f"expected SMILES {smiles!r}, read back {after!r}")


def check_long_domain_reference():
    """ D2b: the NRPS_PKS qualifier of a CDS refers to its aSDomain features by name """
    record = new_record()
    name = "LONGLOCUSTAGPREFIX_LONGL_00001"  # 30 characters
    cds = CDSFeature(FeatureLocation(300, 900, 1), translation="M" + "A" * 199, locus_tag=name)
    record.add_cds_feature(cds)
    # as detection/nrps_pks_domains/domain_identification.py generate_domain_features() does
    domain = ModularDomain(cds.get_sub_location_from_protein_coordinates(10, 100), FeatureLocation(10, 100), name)
    domain.domain = "Condensation"
    domain.subtypes = ["Condensation_LCL"]
    domain.domain_id = f"nrpspksdomains_{name}_Condensation_LCL.1"
    domain.label = f"{name}_Condensation_LCL.1"
    domain.translation = cds.translation[10:100]
    record.add_antismash_domain(domain)
    cds.nrps_pks.add_domain(_HMMResultLike("Condensation_LCL", 10, 100, 1e-10, 50.0, ["Condensation_LCL"]),
                            domain.domain_id)
    assert record.get_domain_by_name(cds.nrps_pks.domains[0].feature_name) is domain
    reloaded = gbk_load(record)
    reference = reloaded.get_cds_by_name(name).nrps_pks.domains[0].feature_name
    try:
        reloaded.get_domain_by_name(reference)
    except KeyError:
        violation(f"CDS with the 30 character locus tag {name!r} and one NRPS/PKS domain, GenBank round trip: expected "
                  f"the NRPS_PKS qualifier to still name the aSDomain {domain.domain_id!r}, but it reads back as "
                  f"{reference!r}, which no domain of the record has")


def check_candidate_core_on_linear_record():
    """ D3: neighbouring candidate on a short linear record """
    record = new_record(length=6000, circular=False)
    record.add_protocluster(Protocluster(FeatureLocation(500, 1000), FeatureLocation(0, 3000), "rule-based-clusters",
                                         "T1PKS", 20, 2000, "cds(a)", "PKS"))
    record.add_protocluster(Protocluster(FeatureLocation(4000, 5500), FeatureLocation(2000, 6000), "rule-based-clusters",
                                         "NRPS", 20, 2000, "cds(b)", "NRPS"))
    record.create_candidate_clusters()
    record.create_regions()
    neighbouring = [cand for cand in record.get_candidate_clusters() if len(cand.protoclusters) == 2]
    assert len(neighbouring) == 1
    number = neighbouring[0].get_candidate_cluster_number()
    # reference: on a linear record the core of the candidate is the span of its protocluster cores
    expected = (500, 5500)
    before = neighbouring[0].core_location
    assert (before.start, before.end, len(before.parts)) == (500, 5500, 1)
    for name, loader in [("GenBank", gbk_load), ("JSON", json_load)]:
        core = loader(record).get_candidate_cluster(number).core_location
        if len(core.parts) != 1 or (core.start, core.end) != expected:
            violation(f"linear 6000 bp record, neighbouring candidate of protoclusters with cores [500:1000] and "
                      f"[4000:5500], {name} round trip: expected candidate core [500:5500], got {core} "
                      "(a core crossing the origin of a linear record)")


def check_cds_ties():
    """ D4: two CDS features with the same start and length """
    rng = random.Random(3)
    bio = SeqRecord(Seq("".join(rng.choice("ACGT") for _ in range(900))), id="rec", name="rec", description="d")
    bio.annotations = {"molecule_type": "DNA", "topology": "linear"}
    bio.features.append(SeqFeature(SimpleLocation(30, 330, 1), type="CDS", qualifiers={"locus_tag": ["fwd"]}))
    bio.features.append(SeqFeature(SimpleLocation(30, 330, -1), type="CDS", qualifiers={"locus_tag": ["rev"]}))
    record = Record.from_biopython(bio, "bacteria")
    for name, text, loader in [("GenBank", gbk_text, gbk_load), ("JSON", json_text, json_load)]:
        first = text(record)
        reloaded = loader(record)
        second = text(reloaded)
        names_before = [cds.get_name() for cds in record.get_cds_features()]
        names_after = [cds.get_name() for cds in reloaded.get_cds_features()]
        if first != second or names_before != names_after:
            violation(f"CDS 31..330 and CDS complement(31..330) in one record, {name} round trip: expected the same "
                      f"CDS order {names_before} and an identical second output, got order {names_after} and "
                      f"second output {'identical' if first == second else 'different'}")


def check_json_within_position():
    """ D5: a GenBank location with a 'within' or 'one-of' position """
    record = new_record(300)
    template = gbk_full_text(record)
    for location in ["(8.10)..40", "one-of(8,11)..40"]:
        table = ("FEATURES             Location/Qualifiers\n"
                 f"     misc_feature    {location}\n"
                 "                     /note=\"x\"\n")
        if "FEATURES" in template:
            text = template[:template.index("FEATURES")] + table + template[template.index("ORIGIN"):]
        else:
            text = template.replace("ORIGIN", table + "ORIGIN")
        loaded = Record.from_biopython(SeqIO.read(StringIO(text), "genbank"), "bacteria")
        # GenBank copes
        assert gbk_text(gbk_load(loaded)) == gbk_text(loaded)
        try:
            json_load(loaded)
        except ValueError as err:
            violation(f"input feature 'misc_feature {location}' (accepted by Record.from_biopython and stable through "
                      f"GenBank), JSON round trip: expected the same feature back, but record_from_json raises "
                      f"ValueError: {err}")


def check_gene_functions():
    """ D6: gene function annotations with a colon in the description """
    record = new_record()
    cds = add_simple_cds(record, 300, 540, 1, "cdsA")
    # exactly what genefunctions' FunctionResults.add_to_record() adds: f"{reference_id}: {description}", no product
    cds.gene_functions.add(GeneFunction.TRANSPORT, "smcogs", "SMCOG1000: ABC transporter ATP-binding protein")
    expected = [(f.function, f.tool, f.description, f.product) for f in cds.gene_functions]
    for name, loader in [("GenBank", gbk_load), ("JSON", json_load)]:
        reloaded = loader(record)
        functions = reloaded.get_cds_by_name("cdsA").gene_functions
        got = [(f.function, f.tool, f.description, f.product) for f in functions]
        if got != expected:
            # the consequence: the duplicate check of add() no longer recognises the same annotation
            functions.add(GeneFunction.TRANSPORT, "smcogs", "SMCOG1000: ABC transporter ATP-binding protein")
            violation(f"gene function (transport, smcogs, description 'SMCOG1000: ABC transporter ATP-binding protein',"
                      f" product None), {name} round trip: expected the same annotation, got description "
                      f"{got[0][2]!r} and product {got[0][3]!r}; re-adding the original annotation now gives "
                      f"{len(functions)} annotations instead of 1")
    # and with no space after the first colon even the text changes
    record = new_record()
    cds = add_simple_cds(record, 300, 540, 1, "cdsA")
    cds.gene_functions.add(GeneFunction.ADDITIONAL, "rule-based-clusters", "fam:sub")
    for name, text, loader in [("GenBank", gbk_text, gbk_load), ("JSON", json_text, json_load)]:
        first = text(record)
        second = text(loader(record))
        if first != second:
            violation(f"gene function with description 'fam:sub' and no product, {name} round trip: expected an "
                      "identical second output, but the qualifier 'biosynthetic-additional (rule-based-clusters) "
                      "fam:sub' is rewritten as '... fam: sub'")


def check_sideloaded_detail_keys():
    """ D7: sideloaded subregion details named like the qualifiers secmet itself writes """
    for key in ["label", "aStool", "external_qualifier_ids"]:
        record = new_record()
        add_simple_cds(record, 300, 540, 1, "cdsA")
        annotations = {
            "tool": {"name": "my tool", "version": "1.0"},
            "records": [{"name": "rec", "subregions": [
                {"start": 100, "end": 1000, "label": "real label", "details": {key: "value one"}},
            ]}],
        }
        with tempfile.TemporaryDirectory() as temp:
            path = os.path.join(temp, "side.json")
            with open(path, "w", encoding="utf-8") as handle:
                json.dump(annotations, handle)
            results = load_single_record_annotations([path], record, None)  # validates against the schema
        results.add_to_record(record)
        record.create_regions()
        original = record.get_subregion(1)
        expected = (type(original).__name__, original.tool, original.label, dict(original.extra_qualifiers))
        for name, loader in [("GenBank", gbk_load), ("JSON", json_load)]:
            try:
                sub = loader(record).get_subregion(1)
            except Exception as err:  # pylint: disable=broad-except
                violation(f"schema-valid sideloaded subregion with details key {key!r}, {name} round trip: expected "
                          f"the same subregion, but reading fails with {type(err).__name__}: {err}")
                continue
            got = (type(sub).__name__, sub.tool, sub.label, dict(getattr(sub, "extra_qualifiers", {})))
            if got != expected:
                violation(f"schema-valid sideloaded subregion with details key {key!r}, {name} round trip: expected "
                          f"(class, tool, label, details) = {expected}, got {got}")


def check_reverse_prepeptide_location():
    """ D8: prepeptide on the reverse strand """
    record = new_record()
    add_simple_cds(record, 300, 420, -1, "cdsA")
    location = FeatureLocation(300, 420, -1)
    record.add_cds_motif(Prepeptide(location, "lanthipeptide", core="C" * 15, locus_tag="cdsA_lanthipeptide",
                                    tool="lanthipeptides", peptide_subclass="Class I", score=1.0,
                                    monoisotopic_mass=1.0, molecular_weight=1.0, leader="L" * 20, tail="T" * 5))
    for name, loader in [("GenBank", gbk_load), ("JSON", json_load)]:
        after = loader(record).get_cds_motifs()[0].location
        if len(after.parts) != 1 or str(after) != str(location):
            violation(f"prepeptide at {location} (leader 20, core 15, tail 5), {name} round trip: expected location "
                      f"{location}, got {after} (the same construction on the forward strand gives back one part)")


def check_prepeptide_partial_codon():
    """ D9: prepeptide on a CDS whose length is not a multiple of three """
    record = new_record()
    location = FeatureLocation(300, 392, 1)  # 92 nt, e.g. a CDS cut short by a contig edge or frame shift
    record.add_cds_feature(CDSFeature(location, translation="M" + "A" * 28, locus_tag="cdsA"))
    record.add_cds_motif(Prepeptide(location, "lanthipeptide", core="C" * 10, locus_tag="cdsA_lanthipeptide",
                                    tool="lanthipeptides", peptide_subclass="Class I", score=1.0,
                                    monoisotopic_mass=1.0, molecular_weight=1.0, leader="L" * 19))
    for name, text, loader in [("GenBank", gbk_text, gbk_load), ("JSON", json_text, json_load)]:
        first = text(record)
        reloaded = loader(record)
        after = reloaded.get_cds_motifs()[0].location
        second = text(reloaded)
        if covered(after) != covered(location) or first != second:
            violation(f"prepeptide covering its 92 nt CDS {location}, {name} round trip: expected the same bases "
                      f"covered and an identical second output, got location {after} and second output "
                      f"{'identical' if first == second else 'with the features in another order'}")


def check_feature_order_depends_on_list_order():
    """ D10: the order features are written in depends on the order they are held in """
    rng = random.Random(5)
    bio = SeqRecord(Seq("".join(rng.choice("ACGT") for _ in range(3000))), id="rec", name="rec", description="d")
    bio.annotations = {"molecule_type": "DNA", "topology": "linear"}
    # the usual GenBank order: same start, longest first
    bio.features.append(SeqFeature(SimpleLocation(300, 2800, 1), type="repeat_region"))
    bio.features.append(SeqFeature(SimpleLocation(300, 2300, 1), type="misc_feature"))
    bio.features.append(SeqFeature(SimpleLocation(300, 900, 1), type="CDS", qualifiers={"locus_tag": ["c0"]}))
    record = Record.from_biopython(bio, "bacteria")
    record.add_subregion(SubRegion(FeatureLocation(300, 1300), tool="cassis", label="c0"))  # starts at a gene start
    record.create_regions()
    for name, text, loader in [("GenBank", gbk_text, gbk_load), ("JSON", json_text, json_load)]:
        first = text(record)
        second = text(loader(record))
        if first != second:
            detail = ""
            if name == "GenBank":
                detail = f": first {feature_order(first)}, second {feature_order(second)}"
            violation("record with repeat_region 301..2800, misc_feature 301..2300, CDS 301..900 (input in that order) "
                      f"and a subregion 301..1300, {name} round trip: expected an identical second output, "
                      f"but the features come out in another order{detail}")


def main():
    checks = [
        check_long_prepeptide_sequences,
        check_long_smiles,
        check_long_domain_reference,
        check_candidate_core_on_linear_record,
        check_cds_ties,
        check_json_within_position,
        check_gene_functions,
        check_sideloaded_detail_keys,
        check_reverse_prepeptide_location,
        check_prepeptide_partial_codon,
        check_feature_order_depends_on_list_order,
    ]
    for check in checks:
        check()
    if not VIOLATIONS:
        print("NOTHING FOUND")
        return 0
    return 1


if __name__ == "__main__":
    sys.exit(main())
