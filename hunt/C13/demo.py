#!/usr/bin/env python3
""" C13 - HMM hit refinement keeps the best non-overlapping hits, order-independently.

    Run as:  cd <repo root> && PYTHONPATH=<repo root> /venv/bin/python SEED/demo.py

    Every check below judges the UNCHANGED antiSMASH code against a small independent
    reference written here (plain overlap sizes, plain ranking), never against
    antiSMASH's own helpers.
"""

import itertools
import sys
from types import SimpleNamespace as NS

from antismash.common.hmmscan_refinement import refine_hmmscan_results
from antismash.common.hmmer import HmmerHit, remove_overlapping
from antismash.common.hmm_rule_parser.cluster_prediction import (
    filter_results,
    filter_result_multiple,
)

VIOLATIONS = []
TAGS = {
    "check_refine_chain": "D1",
    "check_refine_margin": "D2",
    "check_refine_knockout": "D3",
    "check_hmmer_duplicate": "D4",
    "check_hmmer_tie_order": "D5",
    "check_hmmer_underlimit": "D6",
    "check_filter_nonequivalent": "D7",
    "check_filter_multiple_order": "D8",
}


def violation(text):
    """ the defect number (see NOTES.md) is taken from the name of the calling check """
    tag = TAGS[sys._getframe(1).f_code.co_name]  # pylint: disable=protected-access
    VIOLATIONS.append((tag, text))
    print(f"VIOLATION: [{tag}] {text}")


# --------------------------------------------------------------------------
# helpers for refine_hmmscan_results
# --------------------------------------------------------------------------

def queryresults(hits):
    """ hits: (profile, start, end, score) -> objects shaped like Bio's QueryResult/HSP,
        which is all refine_hmmscan_results/gather_by_query look at
    """
    return [NS(hsps=[NS(query_id="cds", hit_id=p, query_start=s, query_end=e, evalue=1e-5, bitscore=sc)])
            for p, s, e, sc in hits]


def refine(hits, lengths, neighbour_mode):
    out = refine_hmmscan_results(queryresults(hits), lengths, neighbour_mode=neighbour_mode).get("cds", [])
    return [(h.hit_id, h.query_start, h.query_end, h.bitscore) for h in out]


def overlap(a, b):
    """ number of shared residues of two (name, start, end, ...) tuples """
    return max(0, min(a[2], b[2]) - max(a[1], b[1]))


def unjustified_drops(hits, out, lengths):
    """ the inputs that are missing from the output although
        - no kept hit overlaps them (by even one residue) with an equal or better score
        - they are not covered by a kept (merged) hit of the same profile
        - they are not an incomplete fragment (<= 50% of the profile) while something at least as complete is kept
        i.e. drops that no clause of the property statement allows, read as leniently as possible
    """
    bad = []
    for hit in hits:
        if hit in out:
            continue
        if any(o[0] == hit[0] and o[1] <= hit[1] and hit[2] <= o[2] for o in out):
            continue
        if any(overlap(hit, o) > 0 and o[3] >= hit[3] for o in out):
            continue
        frac = (hit[2] - hit[1]) / lengths[hit[0]]
        if frac <= 0.5 and any((o[2] - o[1]) / lengths[o[0]] >= frac for o in out):
            continue
        bad.append(hit)
    return bad


# --------------------------------------------------------------------------
# 1. refine: rising chain, greedy "previous only" replacement
# --------------------------------------------------------------------------
def check_refine_chain():
    lengths = {"A": 100, "B": 100, "C": 100}
    hits = [("A", 0, 100, 10.0), ("B", 60, 160, 20.0), ("C", 120, 220, 30.0)]
    for mode in (False, True):
        out = refine(hits, lengths, mode)
        bad = unjustified_drops(hits, out, lengths)
        if bad:
            violation(f"refine_hmmscan_results(neighbour_mode={mode}) chain {hits} (all profiles 100 long, all hits "
                      f"complete): expected A[0,100) and C[120,220) (they share no residue; only B, which loses to C, "
                      f"overlaps A), got {out}; {bad} dropped although no better overlapping hit is kept")


# --------------------------------------------------------------------------
# 2. refine: two returned hits overlap by more than their margin (mixed profile lengths)
# --------------------------------------------------------------------------
def check_refine_margin():
    lengths = {"A": 100, "BIG": 400, "C": 100}
    hits = [("A", 10, 110, 30.0), ("BIG", 40, 100, 10.0), ("C", 70, 220, 30.0)]
    for mode in (False, True):
        out = refine(hits, lengths, mode)
        for first, second in itertools.combinations(out, 2):
            margin = 0.2 * max(lengths[first[0]], lengths[second[0]])
            if overlap(first, second) > margin:
                violation(f"refine_hmmscan_results(neighbour_mode={mode}) {hits} lengths={lengths}: returned hits "
                          f"{first} and {second} overlap by {overlap(first, second)} residues, allowed margin is "
                          f"20% of the longer profile = {margin:g}; expected only one of them (equal scores: the earlier)")


# --------------------------------------------------------------------------
# 3. refine: a hit is knocked out by a fragment that is then itself discarded as incomplete
# --------------------------------------------------------------------------
def check_refine_knockout():
    lengths = {"X": 100, "Y": 100, "Z": 100}
    hits = [("X", 0, 100, 20.0), ("Y", 60, 70, 30.0), ("Z", 200, 300, 10.0)]
    for mode in (False, True):
        out = refine(hits, lengths, mode)
        bad = [hit for hit in unjustified_drops(hits, out, lengths) if hit[0] == "X"]
        if bad:
            violation(f"refine_hmmscan_results(neighbour_mode={mode}) {hits} (profiles 100 long): the complete hit "
                      f"X[0,100) is replaced by the 10-residue fragment Y[60,70) (better score), which is then removed "
                      f"as incomplete; got {out}, expected X to be kept as nothing that overlaps it survives")
    # same profile, neighbour mode: the whole domain disappears
    lengths = {"B": 100}
    hits = [("B", 140, 200, 10.0), ("B", 150, 170, 20.0)]
    out = refine(hits, lengths, True)
    if not out:
        violation(f"refine_hmmscan_results(neighbour_mode=True) {hits} (profile 100 long): result is empty; the 60% "
                  f"complete hit B[140,200) loses to the nested 20% fragment B[150,170), which is then removed as "
                  f"incomplete (neighbour_mode=False gives {refine(hits, lengths, False)})")


# --------------------------------------------------------------------------
# helpers for hmmer.remove_overlapping
# --------------------------------------------------------------------------
def hmmer_hit(identifier, start, end, score):
    return HmmerHit(location=f"[{start * 3}:{end * 3}]", label="ref", locus_tag="cds", domain=identifier,
                    evalue=1e-10, score=score, identifier=identifier, description="desc",
                    protein_start=start, protein_end=end, translation="M" * (end - start))


def brief(hits):
    return [(h.identifier, h.protein_start, h.protein_end) for h in hits]


CUTOFFS = {"PF_A": 20.0, "PF_B": 20.0, "PF_C": 20.0}


# --------------------------------------------------------------------------
# 4. hmmer.remove_overlapping: leading hit shorter than the limit is returned twice
# --------------------------------------------------------------------------
def check_hmmer_duplicate():
    short = hmmer_hit("PF_A", 10, 15, 50.0)
    other = hmmer_hit("PF_B", 100, 160, 50.0)
    out = remove_overlapping([short, other], CUTOFFS)  # default overlap_limit=10
    if len(out) != len(set(out)) or len(out) > 2:
        violation(f"hmmer.remove_overlapping({brief([short, other])}, overlap_limit=10): expected both hits once, "
                  f"got {brief(out)}: the first hit, being shorter than the limit, is returned twice")
    # and it makes the result depend on the listing order when starts tie
    long_hit = hmmer_hit("PF_B", 10, 110, 50.0)
    one = remove_overlapping([short, long_hit], CUTOFFS)
    two = remove_overlapping([long_hit, short], CUTOFFS)
    if one != two:
        violation(f"hmmer.remove_overlapping: same two hits {brief([short, long_hit])}, listed in the two possible "
                  f"orders, give {brief(one)} and {brief(two)}")


# --------------------------------------------------------------------------
# 5. hmmer.remove_overlapping: order of surviving hits with equal start follows the input order
# --------------------------------------------------------------------------
def check_hmmer_tie_order():
    lead = hmmer_hit("PF_C", 0, 30, 50.0)
    short = hmmer_hit("PF_A", 60, 65, 50.0)
    long_hit = hmmer_hit("PF_B", 60, 160, 50.0)
    results = {}
    for perm in itertools.permutations([lead, short, long_hit]):
        results.setdefault(tuple(brief(remove_overlapping(list(perm), CUTOFFS))), []).append(brief(perm))
    if len(results) > 1:
        violation(f"hmmer.remove_overlapping: the hits {brief([lead, short, long_hit])} (overlap_limit=10, all are "
                  f"kept, two start at 60) are returned in {len(results)} different orders depending on the order "
                  f"they are listed in: {list(results)}")


# --------------------------------------------------------------------------
# 6. hmmer.remove_overlapping: hits sharing fewer residues than the limit are filtered,
#    depending on where in the bigger hit the small one sits
# --------------------------------------------------------------------------
def check_hmmer_underlimit():
    big = hmmer_hit("PF_B", 15, 115, 80.0)
    edge = hmmer_hit("PF_A", 16, 24, 25.0)    # 8 residues, all inside big
    middle = hmmer_hit("PF_A", 22, 30, 25.0)  # 8 residues, all inside big
    out_edge = remove_overlapping([big, edge], CUTOFFS)
    out_middle = remove_overlapping([big, middle], CUTOFFS)
    if (edge in out_edge) != (middle in out_middle):
        violation(f"hmmer.remove_overlapping(overlap_limit=10): an 8-residue hit nested in {brief([big])} shares 8 < 10 "
                  f"residues with it wherever it sits, so it should always be kept (docstring: 'overlap_limit: the number "
                  f"of overlapping aminos required to be filtered'); at [16,24) -> {brief(out_edge)}, "
                  f"at [22,30) -> {brief(out_middle)}")
    tiny_best = hmmer_hit("PF_A", 117, 122, 100.0)
    container = hmmer_hit("PF_C", 112, 152, 80.0)
    out = remove_overlapping([container, tiny_best], CUTOFFS)
    if container not in out:
        violation(f"hmmer.remove_overlapping(overlap_limit=10): {brief([container])} is dropped because of the 5-residue "
                  f"hit {brief([tiny_best])} although they share only 5 < 10 residues; got {brief(out)}")


# --------------------------------------------------------------------------
# helpers for filter_results
# --------------------------------------------------------------------------
class FakeHSP:
    """ the attributes of Bio's HSP that the filters use; equality is identity, as for Bio's HSP """
    def __init__(self, query_id, hit_start, hit_end, bitscore, hit_id="cds"):
        self.query_id = query_id
        self.hit_id = hit_id
        self.hit_start = hit_start
        self.hit_end = hit_end
        self.bitscore = bitscore
        self.evalue = 1e-10

    def __repr__(self):
        return f"{self.query_id}[{self.hit_start},{self.hit_end})={self.bitscore:g}"


# --------------------------------------------------------------------------
# 7. filter_results: a profile outside the equivalence group is made to compete
# --------------------------------------------------------------------------
def check_filter_nonequivalent():
    groups = [{"A", "B"}]

    def run(hits):
        results, by_id = filter_results(list(hits), {"cds": list(hits)}, groups)
        assert results == by_id["cds"]
        return results

    hit_a = FakeHSP("A", 0, 100, 50.0)
    hit_b = FakeHSP("B", 200, 300, 40.0)   # equivalent to A, but nowhere near anything
    hit_x = FakeHSP("X", 10, 90, 30.0)     # in no equivalence group, overlaps A
    without_b = run([hit_a, hit_x])
    with_b = run([hit_a, hit_b, hit_x])
    if hit_x in without_b and hit_x not in with_b:
        violation(f"filter_results(equivalence_groups=[{{A,B}}]): {[hit_a, hit_x]} -> {without_b} (X is not equivalent "
                  f"to A, so it is kept), but {[hit_a, hit_b, hit_x]} -> {with_b}: X is removed as soon as the "
                  f"unrelated, non-overlapping hit of B is in the gene; expected X to survive, only equivalent "
                  f"profiles compete")
    # a non-equivalent hit also bridges two equivalent hits that do not overlap each other
    hit_a = FakeHSP("A", 0, 60, 10.0)
    bridge = FakeHSP("X", 30, 130, 30.0)
    hit_b = FakeHSP("B", 100, 160, 20.0)
    out = run([hit_a, bridge, hit_b])
    if hit_a not in out or hit_b not in out:
        violation(f"filter_results(equivalence_groups=[{{A,B}}]): {[hit_a, bridge, hit_b]} -> {out}; A and B share no "
                  f"residue, so both should survive, but the non-equivalent X links them into one group")


# --------------------------------------------------------------------------
# 8. filter_result_multiple: order of the result follows the listing order
# --------------------------------------------------------------------------
def check_filter_multiple_order():
    def run(hits):
        results, by_id = filter_result_multiple(list(hits), {"cds": list(hits)})
        return [str(h) for h in results], [str(h) for h in by_id["cds"]]

    first = FakeHSP("P", 20, 80, 20.0)
    second = FakeHSP("Q", 20, 60, 30.0)
    one = run([first, second])
    two = run([second, first])
    if one[0] != two[0]:
        violation(f"filter_result_multiple: hits {[first, second]} (different profiles, equal start) give the result "
                  f"list {one[0]} or {two[0]} depending on the order they are listed in")
    early = FakeHSP("P", 10, 60, 20.0)
    late = FakeHSP("Q", 100, 160, 30.0)
    one = run([early, late])
    two = run([late, early])
    if one[1] != two[1]:
        violation(f"filter_result_multiple: the per-gene list for hits {[early, late]} is {one[1]} or {two[1]} "
                  f"depending on the listing order, i.e. not ordered by position and not order-independent")


def main():
    check_refine_chain()
    check_refine_margin()
    check_refine_knockout()
    check_hmmer_duplicate()
    check_hmmer_tie_order()
    check_hmmer_underlimit()
    check_filter_nonequivalent()
    check_filter_multiple_order()
    if not VIOLATIONS:
        print("NOTHING FOUND")
        return 0
    print(f"{len({tag for tag, _ in VIOLATIONS})} distinct defects, {len(VIOLATIONS)} demonstrations")
    return 1


if __name__ == "__main__":
    sys.exit(main())
