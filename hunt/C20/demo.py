"""C20 demo: a failed or refused write never damages existing results.

Run: cd <repo root> && PYTHONPATH=<repo root> /venv/bin/python SEED/demo.py
"""
import itertools
import logging
import os
import shutil
import sys
import tempfile

from antismash.common import serialiser
from antismash.common.errors import AntismashInputError
from antismash.common.module_results import ModuleResults
from antismash.common.secmet.test.helpers import DummyRecord
from antismash.config import build_config, destroy_config, update_config
from antismash.main import prepare_output_directory

VIOLATIONS = []


def violation(text):
    VIOLATIONS.append(text)
    print("VIOLATION:", text)


# ---------------------------------------------------------------- part 1
# prepare_output_directory vs. an independent reference
#
# reference: list the directory with os.listdir (sees everything), drop
#   - a sub-directory called "input"      (antiSMASH's own input copy)
#   - the configured log file
#   - in reuse mode, IF the reused JSON lives in this directory: everything
#     (the previous run's outputs; the most lenient reading of "the results
#     being reused"); region genbank files of that directory may be removed
# anything left => must refuse (AntismashInputError) and nothing on disk,
# inside or outside the directory, may change.

def snapshot(root):
    out = {}
    for dirpath, dirs, files in os.walk(root):
        for name in files:
            path = os.path.join(dirpath, name)
            with open(path, "rb") as handle:
                out[os.path.relpath(path, root)] = handle.read()
        for name in dirs:
            out[os.path.relpath(os.path.join(dirpath, name), root) + "/"] = None
    return out


def reference_must_refuse(outdir, input_file, logfile):
    if not os.path.isdir(outdir):
        return False
    reuse = os.path.dirname(os.path.abspath(input_file)) == os.path.abspath(outdir) \
        and input_file.endswith(".json")
    if reuse:
        return False
    for entry in os.listdir(outdir):
        full = os.path.join(outdir, entry)
        if entry == "input" and os.path.isdir(full):
            continue
        if logfile and os.path.abspath(full) == os.path.abspath(logfile):
            continue
        return True
    return False


def make_tree(root, paths):
    for path in paths:
        full = os.path.join(root, path)
        if path.endswith("/"):
            os.makedirs(full, exist_ok=True)
            continue
        os.makedirs(os.path.dirname(full), exist_ok=True)
        with open(full, "w", encoding="utf-8") as handle:
            handle.write("precious:" + path)


def directory_case(label, outdir, input_file, tree, cwd=None, logfile="", allowed_changes=()):
    root = tempfile.mkdtemp(prefix="c20_")
    old = os.getcwd()
    try:
        make_tree(root, tree)
        outdir = outdir.replace("ROOT", root)
        input_file = input_file.replace("ROOT", root)
        logfile = logfile.replace("ROOT", root)
        os.chdir(os.path.join(root, cwd) if cwd else root)
        destroy_config()
        build_config([], isolated=True)     # all defaults: logfile == ""
        if logfile:
            update_config({"logfile": logfile})
        must_refuse = reference_must_refuse(outdir or os.path.splitext(os.path.basename(input_file))[0],
                                            input_file, logfile)
        before = snapshot(root)
        try:
            prepare_output_directory(outdir, input_file)
            refused = False
        except AntismashInputError:
            refused = True
        after = snapshot(root)
        changed = sorted(k for k in set(before) | set(after)
                         if before.get(k, 0) != after.get(k, 0) and k not in allowed_changes)
        if must_refuse and not refused:
            violation(f"[{label}] tree={tree} outdir={os.path.relpath(outdir or '.', root)!r} "
                      f"input={os.path.relpath(input_file, root)!r} cwd={cwd!r}: expected refusal "
                      f"(AntismashInputError, 'aborting for safety'), actual: accepted"
                      + (f"; files changed/removed: {changed}" if changed else ""))
        elif changed:
            violation(f"[{label}] tree={tree} outdir={os.path.relpath(outdir, root)!r} "
                      f"input={os.path.relpath(input_file, root)!r}: expected nothing outside the "
                      f"reused directory to change, actual: removed/changed {changed}")
        return refused, changed
    finally:
        os.chdir(old)
        destroy_config()
        shutil.rmtree(root)


def part_directories():
    # sanity: things that work
    assert directory_case("ctl-other", "ROOT/out", "ROOT/g.gbk", ["out/other.txt"])[0]
    assert not directory_case("ctl-input", "ROOT/out", "ROOT/g.gbk", ["out/input/g.gbk"])[0]
    assert not directory_case("ctl-log", "ROOT/out", "ROOT/g.gbk", ["out/log.txt"],
                              logfile="ROOT/out/log.txt")[0]
    assert directory_case("ctl-inputfile", "ROOT/out", "ROOT/g.gbk", ["out/input"])[0]
    assert not directory_case("ctl-reuse", "ROOT/out", "ROOT/out/g.json",
                              ["out/g.json", "out/index.html", "out/g.region001.gbk"],
                              allowed_changes=("out/g.region001.gbk",))[0]
    assert not VIOLATIONS, "controls must pass"

    # D1: hidden entries are invisible to glob("*")
    directory_case("D1 hidden file", "ROOT/out", "ROOT/g.gbk", ["out/.precious.txt"])
    # D2a: glob metacharacters in the directory name, fresh input
    directory_case("D2a glob chars in outdir, fresh", "ROOT/out[1]", "ROOT/g.gbk", ["out[1]/other.txt"])
    # D2b: glob metacharacters, reuse: region genbanks of ANOTHER directory are deleted
    directory_case("D2b glob chars in outdir, reuse", "ROOT/out[1]", "ROOT/out[1]/g.json",
                   ["out[1]/g.json", "out1/x.region001.gbk"])
    # D3: reuse mode, output directory is a foreign directory not holding the reused results
    directory_case("D3 reuse into foreign dir", "ROOT/out", "ROOT/prev/g.json",
                   ["prev/g.json", "out/thesis.txt", "out/my.region001.gbk"])
    # D4: default logfile "" -> abspath("") == cwd -> the cwd is "the logfile"
    directory_case("D4 cwd is child of outdir, default --logfile", "ROOT/out", "ROOT/g.gbk",
                   ["out/work/important.txt"], cwd="out/work")


# ---------------------------------------------------------------- part 2
# fault injection on AntismashResults.write_to_file / dump_records

class Fine(ModuleResults):
    def to_json(self):
        return {"ok": 1, "record": self.record_id}

    def add_to_record(self, record):
        pass

    @staticmethod
    def from_json(json, record):
        return Fine(record.id)


class _Custom(Exception):
    pass


class _Inner:
    def __init__(self, exc):
        self.exc = exc

    def to_json(self):
        raise self.exc


def _deep():
    item = []
    for _ in range(2000):
        item = [item]
    return item


def _cyclic():
    item = {}
    item["self"] = item
    return item


FAULTS = {
    "raise TypeError": lambda: (_ for _ in ()).throw(TypeError("x")),
    "raise ValueError": lambda: (_ for _ in ()).throw(ValueError("x")),
    "raise KeyError": lambda: (_ for _ in ()).throw(KeyError("x")),
    "raise custom": lambda: (_ for _ in ()).throw(_Custom("x")),
    "raise AssertionError": lambda: (_ for _ in ()).throw(AssertionError("x")),
    "object()": lambda: {"a": object()},
    "set": lambda: {"a": {1, 2}},
    "int > 64 bit": lambda: {"a": 2 ** 70},
    "lone surrogate": lambda: {"a": "\ud800"},
    "tuple key": lambda: {(1, 2): 3},
    "bytes": lambda: {"a": b"abc"},
    "too deep": lambda: {"a": _deep()},
    "cyclic": _cyclic,
    "nested to_json ValueError": lambda: {"a": _Inner(ValueError("inner"))},
    "nested to_json SystemExit": lambda: {"a": _Inner(SystemExit(3))},
}


class Faulty(Fine):
    def __init__(self, record_id, kind):
        super().__init__(record_id)
        self.kind = kind

    def to_json(self):
        return FAULTS[self.kind]()


def build_results(nrec, nmod, fault_pos=None, kind=None, where="module"):
    records, results = [], []
    for rec_index in range(nrec):
        record = DummyRecord(seq="ATGC" * 20, record_id=f"rec{rec_index}")
        records.append(record)
        mods = {}
        for mod_index in range(nmod):
            if where == "module" and (rec_index, mod_index) == fault_pos:
                mods[f"mod{mod_index}"] = Faulty(record.id, kind)
            else:
                mods[f"mod{mod_index}"] = Fine(record.id)
        results.append(mods)
    res = serialiser.AntismashResults("in.gbk", records, results, "v1")
    if where == "raw-dict" and fault_pos:
        results[fault_pos[0]][f"mod{fault_pos[1]}"] = {"left": "over json"}   # reuse leftovers
    if where == "timings":
        res.timings_by_record = {"rec0": {"m": object()}}
    if where == "input_file":
        res.input_file = "bad\udcff.gbk"      # undecodable file name (surrogateescape)
    if where == "annotation":
        records[fault_pos[0]].annotations["weird"] = object()
    return res


def part_faults():
    tmp = tempfile.mkdtemp(prefix="c20_json_")
    path = os.path.join(tmp, "res.json")
    cases = 0
    try:
        def check(label, faulty, writer):
            nonlocal cases
            cases += 1
            with open(path, "wb") as handle:
                handle.write(b'{"previous": "results"}')
            before = open(path, "rb").read()
            reported = False
            try:
                writer(faulty)
            except BaseException:  # pylint: disable=broad-except
                reported = True
            after = open(path, "rb").read()
            if after != before:
                violation(f"[json fault] {label}: expected previous file unchanged, actual {len(after)} bytes left")
            if not reported:
                violation(f"[json fault] {label}: expected an error to be raised, actual: silent")

        writers = {
            "write_to_file": lambda res: res.write_to_file(path),
            "dump_records": lambda res: serialiser.dump_records(res.results, res.records, handle=path),
        }
        for nrec in (1, 2, 3):
            for nmod in (1, 2, 3):
                for pos in itertools.product(range(nrec), range(nmod)):
                    for kind in FAULTS:
                        for wname, writer in writers.items():
                            check(f"{wname} {nrec}x{nmod} fault at {pos} kind {kind}",
                                  build_results(nrec, nmod, pos, kind), writer)
                    for wname, writer in writers.items():
                        check(f"{wname} raw dict at {pos}",
                              build_results(nrec, nmod, pos, where="raw-dict"), writer)
                        check(f"{wname} annotation at {pos}",
                              build_results(nrec, nmod, pos, where="annotation"), writer)
        for where in ("timings", "input_file"):
            check(f"write_to_file fault in {where}", build_results(2, 2, where=where), writers["write_to_file"])
        # control: a good conversion does replace the file
        build_results(2, 2).write_to_file(path)
        assert open(path, "rb").read() != b'{"previous": "results"}'
    finally:
        shutil.rmtree(tmp)
    return cases


def main():
    logging.disable(logging.CRITICAL)
    part_directories()
    cases = part_faults()
    print(f"(fault injection: {cases} cases run)")
    if not VIOLATIONS:
        print("NOTHING FOUND")
        return 0
    return 1


if __name__ == "__main__":
    sys.exit(main())
