""" C02 hunt demo: rule text must be parsed by the documented grammar.

    Run as:  cd <repo root> && PYTHONPATH=<repo root> /venv/bin/python SEED/demo.py

    Every check below has its own small, independent reference (plain token
    scanning, exact rational arithmetic, or a truth table over profile
    presence) and prints a line starting with "VIOLATION:" when the unchanged
    antiSMASH code contradicts the property statement.
    Lines starting with "INFO:" are borderline observations that are NOT
    counted as violations (see NOTES.md).
"""

import itertools
import re
import signal
import sys
from fractions import Fraction

from antismash.common.hmm_rule_parser import rule_parser as rp
from antismash.common.hmm_rule_parser.structures import Multipliers, ProfileHit
from antismash.common.secmet.locations import FeatureLocation

SIGNATURES = {"a", "b", "c", "d"}
CATEGORIES = {"Cat"}
VIOLATIONS = []


def violation(text):
    VIOLATIONS.append(text)
    print("VIOLATION:", text)


def parse(text, multipliers=None, signatures=None):
    """ returns (rules, None) or (None, error) """
    try:
        parser = rp.Parser(text, set(signatures or SIGNATURES), set(CATEGORIES), multipliers=multipliers)
    except (ValueError, SyntaxError) as err:
        return None, err
    return parser.rules, None


# --------------------------------------------------------------------------
# independent helpers
# --------------------------------------------------------------------------
KEYWORDS = {"RULE", "CATEGORY", "DESCRIPTION", "EXAMPLE", "RELATED", "SUPERIORS", "CUTOFF",
            "NEIGHBOURHOOD", "CONDITIONS", "DEFINE", "AS", "EXTENDERS"}
NON_PROFILE_WORDS = {"and", "or", "not", "cds", "minimum", "minscore"}


def plain_tokens(text):
    """ a plain tokeniser: strip comments, split on whitespace and ()[],. """
    tokens = []
    for line in text.split("\n"):
        line = line.split("#", 1)[0]
        tokens.extend(tok for tok in re.split(r"(\s+|[()\[\],.])", line) if tok and not tok.isspace())
    return tokens


def profiles_named_in(text, sections):
    """ all profile identifiers a rule text names in the given sections """
    found = set()
    current = None
    for tok in plain_tokens(text):
        if tok in KEYWORDS:
            current = tok
        elif current in sections and tok not in NON_PROFILE_WORDS and re.match(r"^[A-Za-z][A-Za-z0-9_-]*$", tok):
            found.add(tok)
    return found


class FakeCDS:  # pylint: disable=too-few-public-methods
    """ the minimum the condition classes need from a CDS feature """
    def __init__(self, name, start, end):
        self.name = name
        self.location = FeatureLocation(start, end, 1)

    def get_name(self):
        return self.name


def truth_table(conditions, names):
    """ evaluates parsed conditions on a record of one CDS for every
        combination of profile presence """
    table = []
    for present in itertools.product([False, True], repeat=len(names)):
        hits = [ProfileHit("X", name, 100., 1e-20) for name, here in zip(names, present) if here]
        details = rp.Details("X", {"X": FakeCDS("X", 10, 100)}, {"X": hits}, 20000)
        table.append(bool(conditions.get_satisfied(details).met))
    return table


# --------------------------------------------------------------------------
# 1. unknown profiles outside CONDITIONS are accepted
# --------------------------------------------------------------------------
def check_unknown_profiles():
    base = "RULE r CATEGORY Cat CUTOFF 10 NEIGHBOURHOOD 5 CONDITIONS a and b"
    # control: the same unknown name inside CONDITIONS is rejected
    _, err = parse(base + " and nosuchprofile")
    assert err is not None and "without signatures" in str(err), err

    for label, text in [
        ("single identifier", base + " EXTENDERS nosuchprofile"),
        ("cds(...)", base + " EXTENDERS cds(a and nosuchprofile)"),
    ]:
        unknown = profiles_named_in(text, {"CONDITIONS", "EXTENDERS"}) - SIGNATURES
        assert unknown == {"nosuchprofile"}
        rules, err = parse(text)
        if err is None:
            violation(f"unknown profile in EXTENDERS ({label}) is accepted: {text!r} names {sorted(unknown)} "
                      f"which is not a signature; expected an error, got rule {rules[0].name!r} "
                      f"with extenders {rules[0].extenders}")
            break
    text = "RULE r CATEGORY Cat RELATED a, nosuchprofile CUTOFF 10 NEIGHBOURHOOD 5 CONDITIONS a"
    rules, err = parse(text)
    if err is None:
        print("INFO: (same root cause) unknown profile in RELATED is accepted too:", rules[0].related)


# --------------------------------------------------------------------------
# 2. regenerated text of a doubly negated operand does not parse
# --------------------------------------------------------------------------
def check_double_negation_roundtrip():
    for cond in ["a and not (not b)", "a and not (not cds(b and c))", "a or not (not minimum(1, [b, c]))"]:
        text = f"RULE r CATEGORY Cat CUTOFF 10 NEIGHBOURHOOD 5 CONDITIONS {cond}"
        rules, err = parse(text)
        assert err is None, err   # derivable from the documented grammar, and accepted
        names = sorted(SIGNATURES)
        original = truth_table(rules[0].conditions, names)
        regenerated = rules[0].reconstruct_rule_text()
        again, err = parse(regenerated)
        if err is not None:
            violation(f"regenerated text does not parse back: {text!r} -> reconstruct_rule_text() = {regenerated!r} "
                      f"-> {type(err).__name__}: {str(err).splitlines()[0]} "
                      "(expected: a rule with the same name, distances and meaning)")
            return
        if truth_table(again[0].conditions, names) != original:
            violation(f"regenerated text changes the meaning: {text!r} -> {regenerated!r}")
            return


# --------------------------------------------------------------------------
# 3. regenerated text loses distances that are not whole kilobases
# --------------------------------------------------------------------------
def check_fractional_distance_roundtrip():
    text = "RULE r CATEGORY Cat CUTOFF 5 NEIGHBOURHOOD 5 CONDITIONS a"
    multipliers = Multipliers(cutoff=1.0, neighbourhood=1.5)   # 1.5 is the default fungal neighbourhood multiplier
    rules, err = parse(text, multipliers)
    assert err is None
    rule = rules[0]
    expected = (int(Fraction(5) * 1000 * Fraction(1)), int(Fraction(5) * 1000 * Fraction(3, 2)))
    assert (rule.cutoff, rule.neighbourhood) == expected == (5000, 7500)
    regenerated = rule.reconstruct_rule_text()
    results = {}
    for label, mults in [("no multipliers", None), ("the same multipliers", multipliers)]:
        again, err = parse(regenerated, mults)
        assert err is None
        results[label] = (again[0].cutoff, again[0].neighbourhood)
    if all(value != expected for value in results.values()):
        violation(f"regenerated text loses distances: {text!r} with neighbourhood multiplier 1.5 has "
                  f"(cutoff, neighbourhood) = {expected}, reconstruct_rule_text() = {regenerated!r} parses back to "
                  f"{results['no multipliers']} (no multipliers) / {results['the same multipliers']} (same multipliers)")


# --------------------------------------------------------------------------
# 4. scaling by a multiplier truncates instead of rounding
# --------------------------------------------------------------------------
def check_multiplier_truncation():
    found = []
    for kilobases, mult_text in [(11, "0.7"), (3, "2.3"), (10, "1.13"), (20, "1.13")]:
        exact = Fraction(kilobases) * 1000 * Fraction(mult_text)   # decimal value as the user wrote it
        assert exact.denominator == 1
        text = f"RULE r CATEGORY Cat CUTOFF {kilobases} NEIGHBOURHOOD {kilobases} CONDITIONS a"
        rules, err = parse(text, Multipliers(cutoff=float(mult_text), neighbourhood=float(mult_text)))
        assert err is None
        if rules[0].cutoff != exact:
            found.append(f"CUTOFF {kilobases} x {mult_text} -> {rules[0].cutoff} (expected {int(exact)})")
    if found:
        violation("distances scaled by a multiplier are one base short (float product truncated by int()): "
                  + "; ".join(found))


# --------------------------------------------------------------------------
# 5. Ruleset.from_files applies the multipliers twice
# --------------------------------------------------------------------------
def check_ruleset_double_scaling():
    from antismash.detection import hmm_detection as core  # pylint: disable=import-outside-toplevel
    from antismash.common.hmm_rule_parser.cluster_prediction import Ruleset  # pylint: disable=import-outside-toplevel
    files = core._get_rule_files_for_strictness("strict")  # pylint: disable=protected-access

    def build(multipliers):
        return Ruleset.from_files(core.SIGNATURE_FILE, core.HMM_FILE, files, core.CATEGORIES,
                                  core.EQUIVALENCE_GROUPS, "demo", dynamic_profiles=core.DYNAMIC_PROFILES,
                                  multipliers=multipliers)
    # reference: the kilobase values as written in the rule file
    text = open(files[0], encoding="utf-8").read()
    match = re.search(r"RULE\s+T1PKS\b.*?CUTOFF\s+(\d+)\s+NEIGHBOURHOOD\s+(\d+)", text, re.S)
    cutoff_kb, neighbourhood_kb = int(match.group(1)), int(match.group(2))
    expected = (cutoff_kb * 1000 * 2, neighbourhood_kb * 1000 * 3)
    ruleset = build(Multipliers(cutoff=2.0, neighbourhood=3.0))
    rule = ruleset.get_rule_by_name("T1PKS")
    got = (rule.cutoff, rule.neighbourhood)
    if got != expected:
        message = (f"Ruleset.from_files(..., multipliers=Multipliers(2.0, 3.0)) scales twice: rule T1PKS "
                   f"(CUTOFF {cutoff_kb} NEIGHBOURHOOD {neighbourhood_kb}) has (cutoff, neighbourhood) = {got}, "
                   f"expected {expected}")
        copied = ruleset.copy_with_replacements(tool="other")
        again = copied.get_rule_by_name("T1PKS")
        if (again.cutoff, again.neighbourhood) != got or (rule.cutoff, rule.neighbourhood) != got:
            message += (f"; copy_with_replacements(tool=...) scales once more, also inside the original ruleset: "
                        f"{(rule.cutoff, rule.neighbourhood)}")
        violation(message)


# --------------------------------------------------------------------------
# borderline observations, not counted
# --------------------------------------------------------------------------
def info_observations():
    # cds() with only a parenthesised identifier is accepted but its regenerated text is rejected
    text = "RULE r CATEGORY Cat CUTOFF 10 NEIGHBOURHOOD 5 CONDITIONS a and cds((b))"
    rules, err = parse(text)
    if err is None:
        _, err2 = parse(rules[0].reconstruct_rule_text())
        if err2 is not None:
            print("INFO: 'cds((b))' (not derivable from the documented grammar) is accepted, "
                  "but its regenerated text 'cds(b)' is rejected")
    # minscore inside cds() is accepted although the grammar and the class docstring exclude it,
    # and then it is not limited to the single CDS
    text = "RULE r CATEGORY Cat CUTOFF 10 NEIGHBOURHOOD 5 CONDITIONS cds(minscore(a, 50) and b)"
    rules, err = parse(text)
    if err is None:
        feats = {"X": FakeCDS("X", 10, 100), "Y": FakeCDS("Y", 200, 300)}
        hits = {"X": [ProfileHit("X", "b", 100., 1e-20)], "Y": [ProfileHit("Y", "a", 100., 1e-20)]}
        met = rules[0].conditions.get_satisfied(rp.Details("X", feats, hits, 20000)).met
        print(f"INFO: 'cds(minscore(a, 50) and b)' is accepted; with b only in CDS X and a only in CDS Y it is {met}")

    # a self-referencing alias never terminates
    def on_alarm(_signum, _frame):
        raise TimeoutError()
    signal.signal(signal.SIGALRM, on_alarm)
    signal.setitimer(signal.ITIMER_REAL, 0.5)
    try:
        parse("DEFINE x AS a and x RULE r CATEGORY Cat CUTOFF 10 NEIGHBOURHOOD 5 CONDITIONS b or x")
    except TimeoutError:
        print("INFO: 'DEFINE x AS a and x' followed by a use of x does not terminate (stopped after 0.5 s)")
    finally:
        signal.setitimer(signal.ITIMER_REAL, 0)


def main():
    check_unknown_profiles()
    check_double_negation_roundtrip()
    check_fractional_distance_roundtrip()
    check_multiplier_truncation()
    check_ruleset_double_scaling()
    info_observations()
    if not VIOLATIONS:
        print("NOTHING FOUND")
        return 0
    return 1


if __name__ == "__main__":
    sys.exit(main())
