"""C16 hunt: sanitised record identifiers / gene identifiers.

Run as:  cd <repo root> && PYTHONPATH=<repo root> /venv/bin/python SEED/demo.py
Prints one "VIOLATION:" line per distinct defect and exits 1, or "NOTHING FOUND" and exits 0.
"""
import logging
import os
import subprocess
import sys
import tempfile
import warnings
from zlib import crc32

logging.disable(logging.CRITICAL)

from Bio import SeqIO
from Bio.Seq import Seq
from Bio.SeqFeature import SeqFeature, FeatureLocation
from Bio.SeqRecord import SeqRecord

from antismash.common import record_processing as rp
from antismash.common.errors import AntismashInputError
from antismash.common.secmet import Record
from antismash.common.secmet.errors import SecmetInvalidInputError
from antismash.common.secmet.test.helpers import DummyCDS
from antismash.config import build_config, destroy_config
from antismash.support import genefinding

warnings.simplefilter("ignore")  # only after the imports: antismash checks a warning while importing

ILLEGAL = set('''!"#$%&()*+,:;=>?@[]^`'{|}/ ''')
violations = []


class NoGenefinding:
    @staticmethod
    def run_on_record(_record, _options):
        return None


def preprocess(ids, allow_long):
    """ runs the real pre_process_sequences() on minimal records with the given ids """
    destroy_config()
    options = build_config(["--minlength", "1", "--genefinding-tool", "none", "--cpus", "1",
                            "--allow-long-headers" if allow_long else "--no-allow-long-headers"],
                           isolated=True, modules=[genefinding])
    records = []
    for rid in ids:
        record = Record("ACGT", id=rid, name=rid)
        record.add_cds_feature(DummyCDS(0, 3, locus_tag="x"))
        records.append(record)
    try:
        return rp.pre_process_sequences(records, options, NoGenefinding)
    finally:
        destroy_config()


def reference_check(ids, records, allow_long):
    """ the property, stated independently of the implementation """
    problems = []
    new = [rec.id for rec in records]
    if len(set(new)) != len(new):
        problems.append("duplicate ids")
    for old, rec in zip(ids, records):
        if set(rec.id) & ILLEGAL:
            problems.append(f"illegal char in {rec.id!r}")
        if not allow_long and len(rec.id) > 16:
            problems.append(f"too long {rec.id!r}")
        if rec.id != old and rec.original_id != old:
            problems.append(f"{old!r} -> {rec.id!r} but original_id={rec.original_id!r}")
    return problems


# --------------------------------------------------------------------------
# Defect 1: record ids - more than 1000 ids sharing a shortened form
# --------------------------------------------------------------------------
def defect_many_colliding_ids():
    # distinct, legal, 26-character ids, e.g. first contigs of 1002 metagenome bins;
    # all shorten to "c00001_metagen.." and share the 12-character prefix "metagenome_b"
    for count in (1001, 1002):
        ids = [f"metagenome_bin{i:04d}.contig1" for i in range(count)]
        assert len(set(ids)) == count
        try:
            records = preprocess(ids, allow_long=False)
        except AntismashInputError as err:
            outcome = f"rejected as input error: {err}"   # would be acceptable
            continue
        except Exception as err:  # pylint: disable=broad-except
            outcome = f"{type(err).__name__}: {err}"
            # a valid assignment exists (reference: c<index>_... is unique per record), so
            # neither "unique ids" nor a clean rejection of the input happened
            reference = {f"c{i + 1:05d}_metagen.." for i in range(count)}
            assert len(reference) == count and all(len(r) <= 16 for r in reference)
            violations.append(
                f"record ids: {count} distinct ids 'metagenome_bin0000.contig1' .. "
                f"'metagenome_bin{count - 1:04d}.contig1' with --no-allow-long-headers: expected {count} "
                f"pairwise distinct ids of <= 16 characters (e.g. c<record index>_metagen..), "
                f"actual: pre_process_sequences() dies with {outcome} (with {count - 1} ids it succeeds)"
            )
            continue
        problems = reference_check(ids, records, False)
        if problems:
            violations.append(f"record ids: {count} colliding ids: {problems[:3]}")


# --------------------------------------------------------------------------
# Defect 2: CDS names - the checksum-suffixed name of a splice variant can be taken
# --------------------------------------------------------------------------
def find_crc_pair():
    """ two overlapping plain locations whose str() have the same crc32 """
    first = "[4290:7482](+)"
    second = "[5262:8826](+)"
    assert crc32(first.encode()) == crc32(second.encode())
    return (4290, 7482), (5262, 8826)


CDS_SNIPPET = r'''
import logging
logging.disable(logging.CRITICAL)
from antismash.common.secmet import Record
from antismash.common.secmet.errors import SecmetInvalidInputError
from antismash.common.secmet.test.helpers import DummyCDS
rec = Record("A" * 10000)
try:
    for start, end in [(4000, 9000), (4290, 7482), (5262, 8826)]:
        rec.add_cds_feature(DummyCDS(start, end, strand=1, locus_tag="A"))
    print("ACCEPTED", ",".join(c.get_name() for c in rec.get_cds_features()))
except SecmetInvalidInputError as err:
    print("REJECTED", err)
except BaseException as err:
    print("CRASH", type(err).__name__)
'''


def defect_cds_checksum_collision():
    (s1, e1), (s2, e2) = find_crc_pair()
    # (a) directly on a Record
    rec = Record("A" * 10000)
    outcome = None
    try:
        for start, end in [(4000, 9000), (s1, e1), (s2, e2)]:
            rec.add_cds_feature(DummyCDS(start, end, strand=1, locus_tag="A"))
        names = [cds.get_name() for cds in rec.get_cds_features()]
        outcome = "accepted with names %s" % names
        bad = len(set(names)) != len(names)
    except SecmetInvalidInputError:
        bad = False  # clean rejection is fine
    except AssertionError as err:
        outcome = f"bare AssertionError({err})"
        bad = True

    # (b) through the input parser with invalid records to be skipped, not fatal
    seq = Seq("ATGAAACCC" * 1200)
    features = []
    for start, end in [(4000, 9000), (s1, e1), (s2, e2)]:
        features.append(SeqFeature(FeatureLocation(start, end, 1), type="CDS",
                                   qualifiers={"locus_tag": ["A"], "translation": ["MKP" * 10]}))
    bio = [SeqRecord(seq, id="rec1", name="rec1", features=features, annotations={"molecule_type": "DNA"}),
           SeqRecord(seq, id="rec2", name="rec2", annotations={"molecule_type": "DNA"},
                     features=[SeqFeature(FeatureLocation(0, 90, 1), type="CDS",
                                          qualifiers={"locus_tag": ["B"], "translation": ["MKP" * 10]})])]
    parser_outcome = None
    with tempfile.TemporaryDirectory() as tmp:
        path = os.path.join(tmp, "in.gbk")
        SeqIO.write(bio, path, "genbank")
        try:
            parsed = rp.parse_input_sequence(path, ignore_invalid_records=True)
            parser_outcome = "parsed %d records" % len(parsed)
            for record in parsed:
                names = [cds.get_name() for cds in record.get_cds_features()]
                if len(set(names)) != len(names):
                    parser_outcome += " with duplicate CDS names"
                    bad = True
        except AntismashInputError as err:
            parser_outcome = f"AntismashInputError: {err}"
        except AssertionError:
            parser_outcome = "uncaught AssertionError from parse_input_sequence(ignore_invalid_records=True)"
            bad = True

    # (c) the same under python -O, where the assert is all that stands in the way
    env = dict(os.environ)
    optimised = subprocess.run([sys.executable, "-O", "-c", CDS_SNIPPET], env=env, capture_output=True,
                               text=True, check=False).stdout.strip()
    if optimised.startswith("ACCEPTED"):
        names = optimised.split(" ", 1)[1].split(",")
        if len(set(names)) != len(names):
            bad = True

    if bad:
        violations.append(
            "CDS names: three overlapping CDS features with locus_tag 'A' at [4000:9000](+), "
            f"[{s1}:{e1}](+), [{s2}:{e2}](+) (the last two location strings share crc32 dd860b59; the same "
            "happens if any CDS is simply called 'A_dd860b59'): expected distinct names or "
            "SecmetInvalidInputError (record rejected/skipped), actual: "
            f"Record.add_cds_feature -> {outcome}; parser -> {parser_outcome}; python -O -> {optimised}"
        )


def main():
    defect_many_colliding_ids()
    defect_cds_checksum_collision()
    if not violations:
        print("NOTHING FOUND")
        return 0
    for line in violations:
        print("VIOLATION:", line)
    return 1


if __name__ == "__main__":
    sys.exit(main())
