#!/usr/bin/env python3
""" C14 hunt demo: NRPS/PKS module construction vs the documented module rules.

    Run as: cd <repo root> && PYTHONPATH=<repo root> /venv/bin/python SEED/demo.py

    Prints one "VIOLATION:" line per distinct defect and exits 1,
    or prints "NOTHING FOUND" and exits 0.
"""

import json
import sys

from antismash.common.hmmscan_refinement import HMMResult
from antismash.detection.nrps_pks_domains.module_identification import (
    CDSModuleInfo,
    Module,
    build_modules_for_cds,
    combine_modules,
)

# ---------------------------------------------------------------------------
# independent reference: plain label sets taken from the documentation at the
# top of module_identification.py, nothing imported from the code under test
# ---------------------------------------------------------------------------
REF_CONDENSATION = {"Cglyc", "Condensation_DCL", "Condensation_LCL", "Condensation_sid",
                    "Condensation_Starter", "Condensation_Dual", "Heterocyclization"}
REF_PURE_STARTERS = REF_CONDENSATION | {"PKS_KS", "SAT"}
REF_LOADERS = {"AMP-binding", "A-OX", "PKS_AT", "CAL_domain"}
REF_CARRIERS = {"ACP", "ACP_beta", "PCP", "PKS_PP", "PP-binding"}
REF_MODIFIERS = {"PKS_DH", "PKS_DH2", "PKS_DHt", "PKS_KR", "PKS_ER", "cMT", "nMT", "oMT",
                 "Beta_elim_lyase", "LPG_synthase_C", "TauD"}
REF_DOUBLE_TRANSPORTER = ["LPG_synthase_C", "Beta_elim_lyase"]


def make_domains(names):
    """ Builds non-overlapping HMMResults, 'PKS_KS:Trans-AT-KS' gives a KS with that subtype """
    domains = []
    for i, name in enumerate(names):
        subtype = None
        if ":" in name:
            name, subtype = name.split(":")
        internal = None
        if subtype:
            internal = [HMMResult(subtype, i * 100 + 1, i * 100 + 99, 1e-5, 10.)]
        domains.append(HMMResult(name, i * 100, i * 100 + 100, 1e-10, 50., internal_hits=internal))
    return domains


def labels(module):
    return [component.label for component in module]


def ref_is_trans_at(module):
    """ Documented: 'starter(specifically Trans-AT-KS) [modification, ...] carrier_protein
        [modification(specifically KR)] [finalisation]', i.e. the module starts with a
        ketosynthase and has no AT; the code comments allow a plain KS if an ATd is present
    """
    comps = list(module)
    starters = [c for c in comps if c.label in REF_PURE_STARTERS or c.label in REF_LOADERS]
    if not starters or starters[0].label != "PKS_KS":
        return False
    if any(c.label in REF_LOADERS for c in comps):
        return False
    return starters[0].subtype == "Trans-AT-KS" or any(c.label == "Trans-AT_docking" for c in comps)


def ref_may_be_complete(module):
    """ starter + loader + carrier protein, or trans-AT + carrier protein """
    labs = labels(module)
    has_cp = any(lab in REF_CARRIERS for lab in labs)
    has_loader = any(lab in REF_LOADERS for lab in labs)  # every loader can double as the starter
    return has_cp and (has_loader or ref_is_trans_at(module))


class _Loc:
    def __init__(self, strand):
        self.strand = strand


class _CDS:
    """ combine_modules() only looks at cds.location.strand """
    def __init__(self, strand):
        self.location = _Loc(strand)


def defect_non_ks_trans_at():
    """ A module is treated as trans-AT (and so complete without any loader, and
        allowed a KR after the carrier protein) whatever its starter is, as long as a
        Trans-AT_docking domain and any 'PKS*' named domain are present.
    """
    details = []
    # (a) single gene: condensation starter, no A/AT/CAL at all
    for starter in ("Condensation_LCL", "SAT"):
        names = [starter, "PKS_PP", "Trans-AT_docking"]
        modules = build_modules_for_cds(make_domains(names), "geneA")
        for module in modules:
            if module.is_complete() and not ref_may_be_complete(module):
                details.append(f"{names}: module {labels(module)} reported complete "
                               f"(is_trans_at={module.is_trans_at()}, is_nrps={module.is_nrps()}) "
                               "although it has no loader and no KS starter")
    # (b) and the KR after the carrier protein is accepted too
    names = ["Condensation_LCL", "PKS_PP", "Trans-AT_docking", "PKS_KR"]
    modules = build_modules_for_cds(make_domains(names), "geneA")
    for module in modules:
        labs = labels(module)
        carrier = [i for i, lab in enumerate(labs) if lab in REF_CARRIERS]
        if carrier and any(lab in REF_MODIFIERS for lab in labs[carrier[0] + 1:]) and not ref_is_trans_at(module):
            details.append(f"{names}: module {labs} keeps a modification domain after the carrier "
                           "protein although it is not a (KS started) trans-AT module")
    # (c) merging over two genes also produces such a 'complete' module
    first = build_modules_for_cds(make_domains(["Condensation_LCL", "PKS_KR"]), "geneA")
    second = build_modules_for_cds(make_domains(["ACP", "Trans-AT_docking"]), "geneB")
    merged = combine_modules(CDSModuleInfo(_CDS(1), second), CDSModuleInfo(_CDS(1), first))
    if merged is not None and not ref_may_be_complete(merged):
        details.append("genes [Condensation_LCL, PKS_KR] + [ACP, Trans-AT_docking]: merged into "
                       f"{labels(merged)}, is_complete={merged.is_complete()}, though a merge may only "
                       "happen if the result is complete (no loader, no KS starter)")
    if not details:
        return None
    return ("non-KS 'trans-AT' modules: input [Condensation_LCL, PKS_PP, Trans-AT_docking] in one gene; "
            "expected an incomplete module (no loader; trans-AT needs a KS starter), actual: is_complete()=True, "
            "is_trans_at()=True, NRPS typed; a following PKS_KR is also accepted after the carrier protein "
            "and combine_modules() merges fragments into such a module", details)


def defect_chained_double_transporter():
    """ The documented 'double transporter' exception (CP CP LPG_synthase_C Beta_elim_lyase)
        is not limited to a second carrier protein, every further CP followed by the same
        two domains is swallowed as well.
    """
    names = ["ACP", "ACP"] + REF_DOUBLE_TRANSPORTER + ["ACP"] + REF_DOUBLE_TRANSPORTER
    modules = build_modules_for_cds(make_domains(names), "geneA")
    details = []
    for module in modules:
        count = sum(1 for lab in labels(module) if lab in REF_CARRIERS)
        if count > 2:
            reloaded = Module.from_json(json.loads(json.dumps(module.to_json())))
            details.append(f"{names}: one module {labels(module)} with {count} carrier proteins "
                           f"(reload gives {labels(reloaded)})")
    names = ["PKS_KS", "PKS_AT", "ACP"] + (["PCP"] + REF_DOUBLE_TRANSPORTER) * 3
    modules = build_modules_for_cds(make_domains(names), "geneA")
    for module in modules:
        count = sum(1 for lab in labels(module) if lab in REF_CARRIERS)
        if count > 2:
            details.append(f"{names}: one complete={module.is_complete()} module with {count} carrier proteins")
    if not details:
        return None
    return ("chained double-transporter: input [ACP, ACP, LPG_synthase_C, Beta_elim_lyase, ACP, LPG_synthase_C, "
            "Beta_elim_lyase]; expected at most one carrier protein per module (two in the single documented "
            "double-transporter case), so the third ACP must open a new module; actual: a single module with "
            "3 carrier proteins (any number can be chained)", details)


def main():
    found = []
    for check in (defect_non_ks_trans_at, defect_chained_double_transporter):
        result = check()
        if result:
            found.append(result)
    if not found:
        print("NOTHING FOUND")
        return 0
    for summary, details in found:
        print(f"VIOLATION: {summary}")
        for detail in details:
            print(f"    - {detail}")
    return 1


if __name__ == "__main__":
    sys.exit(main())
