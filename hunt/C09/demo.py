""" C09 demo: annotations placed inside a gene must cover the nucleotides that
    encode them (3 bases per residue, inside the gene, translating to the same
    stretch of the gene's translation).

    Run as:  cd <repo root> && PYTHONPATH=<repo root> /venv/bin/python SEED/demo.py

    Every check is judged against an independent reference: the list of
    nucleotide positions of the gene in translation order (walk the parts of the
    location in order, descending inside a part for the reverse strand); protein
    range [s, e) must map to exactly reference[3*s:3*e].
"""

import logging
import sys
import warnings

logging.disable(logging.CRITICAL)

# pylint: disable=wrong-import-position
from Bio.Seq import Seq
from Bio.SeqFeature import SeqFeature, SimpleLocation, CompoundLocation as BioCompound
from Bio.SeqRecord import SeqRecord

from antismash.common import all_orfs
from antismash.common.hmmscan_refinement import HMMResult
from antismash.common.secmet import Record
from antismash.common.secmet.features import Prepeptide
from antismash.common.secmet.locations import CompoundLocation, FeatureLocation
from antismash.detection.nrps_pks_domains.domain_identification import generate_motif_features

VIOLATIONS = []


def report(text):
    VIOLATIONS.append(text)
    print("VIOLATION: " + text)


def positions(location):
    """ reference: nucleotide positions in translation order """
    result = []
    for part in location.parts:
        chunk = list(range(int(part.start), int(part.end)))
        if part.strand == -1:
            chunk.reverse()
        result.extend(chunk)
    return result


CODONS = {"M": "ATG", "K": "AAA", "L": "CTG", "A": "GCT", "C": "TGT", "D": "GAT",
          "E": "GAA", "F": "TTT", "G": "GGT", "P": "CCC", "S": "TCT", "T": "ACC"}


def encode(protein):
    return "".join(CODONS[aa] for aa in protein)


def build_record(sequence, bio_location, circular=False):
    """ builds a secmet Record with a single CDS, the way a GenBank input would arrive """
    bio = SeqRecord(Seq(sequence), id="rec", name="rec",
                    annotations={"molecule_type": "DNA",
                                 "topology": "circular" if circular else "linear"})
    bio.features.append(SeqFeature(bio_location, type="CDS",
                                   qualifiers={"locus_tag": ["geneA"], "transl_table": ["11"]}))
    record = Record.from_biopython(bio, taxon="bacteria")
    return record, record.get_cds_features()[0]


# ---------------------------------------------------------------------------
# defect 1: Prepeptide core/tail locations when the CDS includes its stop codon
# ---------------------------------------------------------------------------
def check_prepeptide():
    protein = "MKLACDEFG"
    for strand in (1, -1):
        coding = encode(protein) + "TAA"
        if strand == 1:
            sequence = "CC" + coding + "GGGG"
        else:
            sequence = "CC" + str(Seq(coding).reverse_complement()) + "GGGG"
        record, cds = build_record(sequence, SimpleLocation(2, 2 + len(coding), strand))
        assert cds.translation == protein, cds.translation
        # exactly what lassopeptides/thiopeptides do: the location of the CDS itself,
        # and leader + core + tail == the translation of the CDS
        leader, core, tail = protein[:3], protein[3:6], protein[6:]
        prepeptide = Prepeptide(cds.location, "lassopeptide", core, "geneA_lassopeptide",
                                "lassopeptides", leader=leader, tail=tail)
        gene_positions = positions(cds.location)
        offset = 0
        problems = []
        for bio, name, expected in zip(prepeptide.to_biopython(), ["leader", "core", "tail"],
                                       [leader, core, tail]):
            expected_positions = gene_positions[offset * 3:(offset + len(expected)) * 3]
            offset += len(expected)
            got_positions = positions(bio.location)
            got_translation = str(bio.location.extract(record.seq).translate(table=11))
            if got_positions != expected_positions or got_translation != expected:
                problems.append(f"{name} '{expected}' placed at {bio.location} "
                                f"({len(bio.location)} nt, translates to '{got_translation}'), "
                                f"expected {len(expected) * 3} nt at "
                                f"[{min(expected_positions)}:{max(expected_positions) + 1}]")
        if problems:
            report(f"Prepeptide.to_biopython, CDS {cds.location} with translation {protein} "
                   f"(stop codon inside the CDS location, as in every GenBank CDS), "
                   f"leader/core/tail = {leader}/{core}/{tail}: " + "; ".join(problems))
            return  # one line per defect is enough


# ---------------------------------------------------------------------------
# defect 2: exons that overlap (programmed -1 ribosomal frameshift) with a codon
#           straddling the junction
# ---------------------------------------------------------------------------
def check_overlapping_exons():
    # join(11..20,20..39): 10 + 20 = 30 nt = 10 residues, base 20 (1-based) is read twice
    exon1, exon2 = (10, 20), (19, 39)
    spliced = encode("MKLPTASDEF")
    assert len(spliced) == 30
    # lay the spliced sequence out on the genome, the shared base has to agree
    genome = ["C"] * 45
    reference = list(range(*exon1)) + list(range(*exon2))
    for pos, base in zip(reference, spliced):
        genome[pos] = base
    # the base shared by both exons: spliced[9] and spliced[10] must be the same letter
    assert spliced[9] == spliced[10], (spliced[9], spliced[10])
    sequence = "".join(genome)
    location = BioCompound([SimpleLocation(*exon1, 1), SimpleLocation(*exon2, 1)])
    record, cds = build_record(sequence, location)  # accepted without complaint
    assert cds.translation == "MKLPTASDEF", cds.translation
    assert positions(cds.location) == reference
    failures = []
    for start in range(10):
        for end in range(start + 1, 11):
            expected = reference[start * 3:end * 3]
            try:
                sub = cds.get_sub_location_from_protein_coordinates(start, end)
                got = positions(sub)
                translated = str(sub.extract(record.seq).translate(table=11))
            except Exception as err:  # pylint: disable=broad-except
                sub, got, translated = repr(err), None, None
            if got != expected:
                failures.append((start, end, sub, got, translated))
    if failures:
        start, end, sub, got, translated = failures[0]
        # and through a real caller
        motif = generate_motif_features(cds, [HMMResult("fake", start, end, 1e-10, 50.)])[0]
        report(f"get_sub_location_from_protein_coordinates (via Record.from_biopython + "
               f"generate_motif_features), forward CDS {cds.location} (exons overlap by 1 nt, "
               f"codon 3 straddles the junction), translation {cds.translation}: "
               f"{len(failures)} of 55 protein ranges are wrong, e.g. residues [{start}:{end}) "
               f"'{cds.translation[start:end]}' -> motif location {motif.location} with "
               f"{len(got)} nt (translating to '{translated}'), expected "
               f"{3 * (end - start)} nt at positions {reference[start * 3:end * 3]}; all wrong "
               f"ranges (start, end, nt returned): "
               f"{[(f[0], f[1], len(f[3]) if f[3] is not None else f[2]) for f in failures]}")


# ---------------------------------------------------------------------------
# defect 3: all_orfs.get_trimmed_orf on an ORF spanning the origin
# ---------------------------------------------------------------------------
def check_trimmed_orf():
    orf_seq = "ATGAAAATGCCCGGGAAACCCGGGTTTTAA"  # M K M P G K P G F *
    sequence = orf_seq[9:] + "C" * 30 + orf_seq[:9]  # ORF = [51:60) + [0:21) of a 60 nt circle
    record = Record(Seq(sequence), transl_table=11)
    record.annotations["topology"] = "circular"
    location = CompoundLocation([FeatureLocation(51, 60, 1), FeatureLocation(0, 21, 1)])
    orf = all_orfs.create_feature_from_location(record, location, label="orf1")
    assert orf.translation == "MKMPGKPGF"
    # trim to the second start codon, which is 6 nt into the coding sequence
    trimmed = all_orfs.get_trimmed_orf(orf, record, include=9, min_length=6)
    expected_positions = positions(location)[6:]
    expected_translation = "MPGKPGF"
    if trimmed is None:
        return
    if positions(trimmed.location) != expected_positions or trimmed.translation != expected_translation:
        inside = set(positions(trimmed.location)) <= set(positions(location))
        report(f"all_orfs.get_trimmed_orf (used by thiopeptides), circular record of 60 nt, "
               f"ORF {location} ({orf.translation}), trimming to the start codon 6 nt into "
               f"its coding sequence gives {trimmed.location} ({len(trimmed.location)} nt, "
               f"translation {trimmed.translation}, inside the ORF: {inside}), expected "
               f"join{{[57:60](+), [0:21](+)}} translating to {expected_translation}")


def main():
    warnings.simplefilter("ignore")  # biopython's partial codon warning
    check_prepeptide()
    check_overlapping_exons()
    check_trimmed_orf()
    if not VIOLATIONS:
        print("NOTHING FOUND")
        return 0
    return 1


if __name__ == "__main__":
    sys.exit(main())
