#!/usr/bin/env python
""" Demonstrates violations of property C03 (protoclusters are the maximal cutoff-chains of a rule's
    anchoring genes, each core the smallest span covering its group plus admitted extenders).

    Run as:  cd <repo root> && PYTHONPATH=<repo root> /venv/bin/python SEED/demo.py

    Everything is judged by an independent reference working on plain sets of base positions.
"""
import logging
import sys

from antismash.common.hmm_rule_parser import cluster_prediction, rule_parser, structures
from antismash.common.secmet.locations import CompoundLocation, FeatureLocation
from antismash.common.secmet.test.helpers import DummyCDS, DummyRecord

logging.disable(logging.CRITICAL)


# ---------------------------------------------------------------- driving the real code

def make_location(start, end, strand, length):
    """ start > end means the gene crosses the origin of the circular record """
    if start < end:
        return FeatureLocation(start, end, strand)
    parts = [FeatureLocation(start, length, strand), FeatureLocation(0, end, strand)]
    if strand == -1:
        parts.reverse()
    return CompoundLocation(parts)


def run_antismash(length, circular, genes, hits, cutoff, neighbourhood, conditions, extenders=None):
    """ genes: (name, start, end, strand); hits: gene name -> profile names
        returns a sorted list of (core bases, cluster bases, core text, cluster text)
    """
    record = DummyRecord(seq="A" * length, circular=circular)
    record.length = length
    for name, start, end, strand in genes:
        record.add_cds_feature(DummyCDS(locus_tag=name, translation="MAAAA",
                                        location=make_location(start, end, strand, length)))
    profile_names = sorted({p for names in hits.values() for p in names} | {"a", "x"})
    text = f"RULE R CATEGORY Cat CUTOFF 1 NEIGHBOURHOOD 1 CONDITIONS {conditions}"
    if extenders:
        text += f" EXTENDERS {extenders}"
    rules = rule_parser.Parser(text, set(profile_names), {"Cat"}).rules
    rules[0].cutoff = cutoff                # plain bases instead of kilobases
    rules[0].neighbourhood = neighbourhood

    def make_profile(profile_name):
        def find(rec, _hmmer_hits):
            return {cds.get_name(): [structures.DynamicHit(cds.get_name(), profile_name)]
                    for cds in rec.get_cds_features() if profile_name in hits.get(cds.get_name(), [])}
        return structures.DynamicProfile(profile_name, "desc", find)

    ruleset = cluster_prediction.Ruleset(tuple(rules), {}, "no_db", {"Cat"}, tool="demo",
                                         dynamic_profiles={p: make_profile(p) for p in profile_names},
                                         equivalence_groups=set())
    results = cluster_prediction.detect_protoclusters_and_signatures(record, ruleset)

    def bases(location):
        return frozenset(b for part in location.parts for b in range(int(part.start), int(part.end)))

    return sorted((sorted(bases(p.core_location)), sorted(bases(p.location)), str(p.core_location), str(p.location))
                  for p in results.protoclusters)


# ---------------------------------------------------------------- independent reference (base sets, circular)

def gene_bases(gene, length):
    _, start, end, _ = gene
    if start < end:
        return set(range(start, end))
    return set(range(start, length)) | set(range(0, end))


def gap(first, second, length):
    """ bases strictly between the closest bases of two sets on a ring, 0 if they overlap or touch """
    if first & second:
        return 0
    return min(min(abs(a - b), length - abs(a - b)) - 1 for a in first for b in second)


def uncovered_runs(covered, length):
    """ the maximal runs of bases of the ring that are not covered, as sets """
    free = set(range(length)) - covered
    runs = []
    for pos in sorted(free):
        if (pos - 1) % length in free and len(free) < length:
            continue
        run = set()
        cur = pos
        while cur in free and cur not in run:
            run.add(cur)
            cur = (cur + 1) % length
        runs.append(run)
    return runs


def smallest_spans(covered, length):
    """ all smallest contiguous spans of the ring that cover the given bases
        (= ring minus one of the largest uncovered runs) """
    runs = uncovered_runs(covered, length)
    if not runs:
        return [set(range(length))]
    largest = max(len(run) for run in runs)
    return [set(range(length)) - run for run in runs if len(run) == largest]


def reference_cores(length, genes, anchors, extender_genes, cutoff):
    """ maximal chains of anchors (gap < cutoff), smallest span per chain, then the closure
        over extender genes within the cutoff of the core as extended so far """
    by_name = {gene[0]: gene_bases(gene, length) for gene in genes}
    groups = [[name] for name in anchors]
    merged = True
    while merged:
        merged = False
        for i, first in enumerate(groups):
            for j in range(i + 1, len(groups)):
                if any(gap(by_name[a], by_name[b], length) < cutoff for a in first for b in groups[j]):
                    groups[i] = first + groups.pop(j)
                    merged = True
                    break
            if merged:
                break
    cores = []
    for group in groups:
        members = set(group)
        while True:
            covered = set().union(*(by_name[name] for name in members))
            spans = smallest_spans(covered, length)
            new = {name for name in extender_genes if name not in members
                   and any(gap(by_name[name], span, length) < cutoff or by_name[name] <= span for span in spans)}
            if not new:
                break
            members |= new
        cores.append((sorted(members), [sorted(span) for span in spans]))
    return cores


def describe(span_bases, length):
    span = set(span_bases)
    if len(span) == length:
        return f"[0:{length})"
    start = next(b for b in sorted(span) if (b - 1) % length not in span)
    end = (start + len(span)) % length or length
    if start < end:
        return f"[{start}:{end})"
    return f"join{{[{start}:{length}), [0:{end})}}"


def rotate(genes, shift, length):
    return [(name, (start + shift) % length, (end + shift) % length or length, strand)
            for name, start, end, strand in genes]


# ---------------------------------------------------------------- the defects

def defect_closed_ring():
    """ a chain that closes the ring: the core leaves out the gap containing the origin instead of the largest gap """
    length, cutoff = 60, 20
    genes = [("A", 0, 10, 1), ("B", 25, 35, 1), ("C", 40, 50, 1)]
    hits = {"A": ["a"], "B": ["a"], "C": ["a"]}
    expected = reference_cores(length, genes, ["A", "B", "C"], [], cutoff)
    assert len(expected) == 1
    expected_spans = expected[0][1]
    actual = run_antismash(length, True, genes, hits, cutoff, 2, "a")
    lines = []
    if len(actual) != 1 or actual[0][0] not in expected_spans:
        # the same ring with the origin placed elsewhere
        shifted = run_antismash(length, True, rotate(genes, 35, length), hits, cutoff, 2, "a")
        shifted_back = describe({(b - 35) % length for b in shifted[0][0]}, length)
        lines.append(
            "VIOLATION: [core is not the smallest span when the chain closes the ring] circular record of 60 bases, "
            "rule 'a' CUTOFF 20, anchoring genes A[0:10) B[25:35) C[40:50) (gaps 15, 5 and 10 over the origin, all < 20 "
            f"so one group): expected core {describe(expected_spans[0], length)} ({len(expected_spans[0])} bases, leaving out "
            f"the largest gap 10..25), actual core {actual[0][2]} ({len(actual[0][0])} bases, leaving out the gap at the origin); "
            f"the same ring with its origin moved by 35 bases gives {shifted_back}"
        )
    return lines


def defect_extender_origin_genes():
    """ an extender gene crossing the origin is never examined when another gene overlapping it is examined first """
    length, cutoff = 100, 5
    genes = [("X1", 89, 9, 1), ("X2", 99, 2, -1), ("C", 12, 15, 1), ("F", 50, 52, 1)]
    hits = {"C": ["a"], "X1": ["x"]}
    expected = reference_cores(length, genes, ["C"], ["X1"], cutoff)
    expected_spans = expected[0][1]
    actual = run_antismash(length, True, genes, hits, cutoff, 2, "a", extenders="x")
    lines = []
    if len(actual) != 1 or actual[0][0] not in expected_spans:
        without_x2 = run_antismash(length, True, [g for g in genes if g[0] != "X2"], hits, cutoff, 2, "a", extenders="x")
        without_f = run_antismash(length, True, [g for g in genes if g[0] != "F"], hits, cutoff, 2, "a", extenders="x")
        shifted = run_antismash(length, True, rotate(genes, 20, length), hits, cutoff, 2, "a", extenders="x")
        shifted_back = describe({(b - 20) % length for b in shifted[0][0]}, length)
        lines.append(
            "VIOLATION: [extender gene crossing the origin is skipped] circular record of 100 bases, rule 'a' CUTOFF 5 EXTENDERS x, "
            "anchoring gene C[12:15), gene X1 join{[89:100),[0:9)} with hit x (3 bases from C), hitless genes "
            "X2 join{[99:100),[0:2)} and F[50:52): "
            f"expected core {describe(expected_spans[0], length)} (X1 admitted), actual core {actual[0][2]}; "
            f"without the hitless X2 the code gives {without_x2[0][2]}, without the hitless F {without_f[0][2]}, "
            f"and with the origin moved by 20 bases {shifted_back}"
        )
        # second layout of the same defect: a small gene nested in the origin-crossing extender gene
        genes2 = [("X", 90, 30, 1), ("g", 2, 4, 1), ("C", 45, 50, 1), ("h", 75, 77, 1)]
        hits2 = {"C": ["a"], "X": ["x"]}
        expected2 = reference_cores(length, genes2, ["C"], ["X"], 16)[0][1]
        actual2 = run_antismash(length, True, genes2, hits2, 16, 2, "a", extenders="x")
        if actual2[0][0] not in expected2:
            lines.append(
                "  (same defect, second layout) CUTOFF 16, anchor C[45:50), extender X join{[90:100),[0:30)} 15 bases away, "
                f"hitless g[2:4) nested in X and hitless h[75:77): expected core {describe(expected2[0], length)}, "
                f"actual core {actual2[0][2]}"
            )
    return lines


def main():
    lines = defect_closed_ring() + defect_extender_origin_genes()
    if not lines:
        print("NOTHING FOUND")
        return 0
    for line in lines:
        print(line)
    return 1


if __name__ == "__main__":
    sys.exit(main())
