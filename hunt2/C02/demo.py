""" C02 (rule text is parsed by the documented grammar, precedence and aliases): demonstrations

    run as:  cd <repo root> && PYTHONPATH=<repo root> /venv/bin/python SEED/demo.py

    Every expectation below is stated by an independent reference (a hand written
    truth function, plain arithmetic, or the literal text), never by antiSMASH itself.
"""
import itertools
import signal
import sys

from antismash.common.hmm_rule_parser import rule_parser as rp
from antismash.common.hmm_rule_parser.cluster_prediction import Ruleset
from antismash.common.hmm_rule_parser.structures import DynamicProfile, Multipliers, ProfileHit
from antismash.common.test.helpers import DummyCDS

SIGS = {"a", "b", "d"}
CATS = {"c"}
HEAD = "RULE r CATEGORY c CUTOFF 1 NEIGHBOURHOOD 1 CONDITIONS "

violations = []


def violation(text):
    violations.append(text)
    print("VIOLATION:", text)


def parse(text, **kwargs):
    return rp.Parser(text, SIGS, CATS, **kwargs).rules


def truth_table(rule):
    """ the rule's answer for one isolated gene, for every subset of the profiles """
    cds = DummyCDS(10, 40, locus_tag="g")
    table = {}
    names = sorted(SIGS)
    for size in range(len(names) + 1):
        for present in itertools.combinations(names, size):
            hits = [ProfileHit("g", name, 50., 1e-5) for name in present]
            details = rp.Details("g", {"g": cds}, {"g": hits}, 1000)
            table[present] = rule.conditions.is_satisfied(details).met
    return table


class Timeout(Exception):
    pass


def _alarm(*_args):
    raise Timeout()


# ---------------------------------------------------------------------------
# 1. regenerated text of 'not ((not b))' does not parse
def demo_double_group_negation():
    conditions = "d and not ((not b))"
    rule = parse(HEAD + conditions)[0]
    # reference meaning, written by hand: d and not(not b) == d and b
    for present, got in truth_table(rule).items():
        assert got == ("d" in present and "b" in present), "the parse itself is right"
    regenerated = rule.reconstruct_rule_text()
    try:
        back = parse(regenerated)[0]
    except rp.RuleSyntaxError as err:
        violation(f"CONDITIONS '{conditions}' parses (meaning d and b), but its regenerated text is "
                  f"'{regenerated.split('CONDITIONS ')[1]}', which the parser rejects: "
                  f"{str(err).splitlines()[0]!r}; expected: parses back to the same meaning")
        return
    if truth_table(back) != truth_table(rule):
        violation(f"regenerated text of '{conditions}' changed meaning: {regenerated}")


# ---------------------------------------------------------------------------
# 2. alias values are scanned again for aliases when used, except for their first token
def demo_alias_rescan():
    rule = " RULE r CATEGORY c CUTOFF 1 NEIGHBOURHOOD 1 CONDITIONS p"
    # (a) an alias mentioning itself: by textual substitution 'p' is not yet defined inside its own
    #     definition, so it is the unknown profile 'p', to be rejected (as the code does for 'p or a')
    first = "DEFINE p AS p or a" + rule
    try:
        parse(first)
        first_result = "accepted"
    except ValueError as err:
        first_result = f"rejected ({str(err).splitlines()[0]})"
    later = "DEFINE p AS a or p" + rule
    signal.signal(signal.SIGALRM, _alarm)
    signal.setitimer(signal.ITIMER_REAL, 0.5)
    try:
        parse(later)
        later_result = "accepted"
    except Timeout:
        later_result = "HANG"
    except (ValueError, SyntaxError) as err:
        later_result = f"rejected ({str(err).splitlines()[0]})"
    finally:
        signal.setitimer(signal.ITIMER_REAL, 0)
    if later_result == "HANG":
        violation(f"'DEFINE p AS a or p' + 'CONDITIONS p' (one token changed in a well-formed file): the parser "
                  f"never returns, it expands p forever and grows without bound (stopped by a 0.5 s timer); "
                  f"expected: an error, as for 'DEFINE p AS p or a' which is {first_result}")

    # (b) a name defined as an alias only later: accepted or rejected depending on its position in the value
    results = {}
    for value in ["a and q", "q and a"]:
        text = f"DEFINE p AS {value} DEFINE q AS b" + rule
        try:
            results[value] = "accepted as '" + str(parse(text)[0].conditions) + "'"
        except ValueError as err:
            results[value] = f"rejected ({str(err).splitlines()[0]})"
    if results["a and q"].split()[0] != results["q and a"].split()[0]:
        violation("'DEFINE p AS <value> DEFINE q AS b ... CONDITIONS p': value 'a and q' is "
                  f"{results['a and q']}, value 'q and a' is {results['q and a']}; expected: one reading of "
                  "textual substitution for both (both 'a and b'/'b and a', or both unknown profile q)")


# ---------------------------------------------------------------------------
# 3. Ruleset applies the multipliers to the shared rule objects every time an instance is made
def demo_ruleset_copy():
    rules = parse("RULE r CATEGORY c CUTOFF 10 NEIGHBOURHOOD 20 CONDITIONS a")
    profiles = {"a": DynamicProfile("a", "desc", lambda record, hits: {})}
    multipliers = Multipliers(2.0, 3.0)
    ruleset = Ruleset(tuple(rules), {}, "db", CATS, "tool", multipliers=multipliers,
                      dynamic_profiles=profiles, equivalence_groups=[])
    expected = (10 * 1000 * 2, 20 * 1000 * 3)
    assert (ruleset.rules[0].cutoff, ruleset.rules[0].neighbourhood) == expected
    copy = ruleset.copy_with_replacements(tool="another-tool")
    got = (copy.rules[0].cutoff, copy.rules[0].neighbourhood)
    original = (ruleset.rules[0].cutoff, ruleset.rules[0].neighbourhood)
    if got != expected or original != expected:
        violation(f"Ruleset with multipliers (2.0, 3.0) over 'CUTOFF 10 NEIGHBOURHOOD 20', then "
                  f"copy_with_replacements(tool=...): the copy (multipliers still {copy.multipliers.cutoff}, "
                  f"{copy.multipliers.neighbourhood}) has distances {got} and the original now has {original}; "
                  f"expected {expected} for both (10 kb x 2, 20 kb x 3, applied once)")


# ---------------------------------------------------------------------------
# 4. a repeated operand is accepted when one copy is an 'and' chain in parentheses
def demo_repeated_operand():
    accepted = []
    rejected = []
    for conditions in ["a or (a)", "(a and b) or ((a and b))", "a and b or (a and b)"]:
        try:
            parse(HEAD + conditions)
            accepted.append(conditions)
        except ValueError:
            rejected.append(conditions)
    if "a and b or (a and b)" in accepted:
        violation(f"CONDITIONS 'a and b or (a and b)' repeats the operand 'a and b' (parentheses only group) and is "
                  f"accepted; expected: 'repeated condition' error, as for {rejected}")


# ---------------------------------------------------------------------------
# 5. regenerated text drops the part of a scaled distance below one kilobase
def demo_regenerated_distances():
    multipliers = Multipliers(0.7, 0.5)
    text = "RULE r CATEGORY c CUTOFF 11 NEIGHBOURHOOD 1 CONDITIONS a"
    rule = parse(text, multipliers=multipliers)[0]
    assert (rule.cutoff, rule.neighbourhood) == (7700, 500)   # 11 kb x 0.7, 1 kb x 0.5
    regenerated = rule.reconstruct_rule_text()
    plain = parse(regenerated)[0]
    scaled = parse(regenerated, multipliers=multipliers)[0]
    if (plain.cutoff, plain.neighbourhood) != (7700, 500) and (scaled.cutoff, scaled.neighbourhood) != (7700, 500):
        violation(f"'CUTOFF 11 NEIGHBOURHOOD 1' with multipliers (0.7, 0.5) is a rule with distances (7700, 500); "
                  f"its regenerated text says '{regenerated.split('c ', 1)[1].split(' CONDITIONS')[0]}' and parses "
                  f"back to {(plain.cutoff, plain.neighbourhood)} (without multipliers) or "
                  f"{(scaled.cutoff, scaled.neighbourhood)} (with them); expected the same distances (7700, 500)")


# ---------------------------------------------------------------------------
# 6. the first word of a DESCRIPTION is replaced when it is an alias name, the other words are not
def demo_description_alias():
    head = "DEFINE ks AS a or b RULE r CATEGORY c DESCRIPTION "
    tail = " CUTOFF 1 NEIGHBOURHOOD 1 CONDITIONS ks"
    first = parse(head + "ks domains" + tail)[0].description
    second = parse(head + "domains ks" + tail)[0].description
    if first != "ks domains" and second == "domains ks":
        violation(f"DESCRIPTION 'ks domains' (with DEFINE ks AS a or b) is stored as {first!r} while "
                  f"DESCRIPTION 'domains ks' is stored as {second!r}; expected: the free text as written, "
                  "or at least one treatment for every word")


def main():
    demo_double_group_negation()
    demo_alias_rescan()
    demo_ruleset_copy()
    demo_repeated_operand()
    demo_regenerated_distances()
    demo_description_alias()
    if not violations:
        print("NOTHING FOUND")
        return 0
    return 1


if __name__ == "__main__":
    sys.exit(main())
