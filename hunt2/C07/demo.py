#!/usr/bin/env python3
""" C07 - detection must not depend on where the origin of a circular record is.

    Run as:  cd <repo root> && PYTHONPATH=<repo root> /venv/bin/python SEED/demo.py

    Every scenario below describes a circular record in rotation-free "ring"
    coordinates (gene = list of (start, length) exons, going round the ring),
    a set of profile hits and a small ruleset.  For every requested rotation k
    the record is re-indexed (every coordinate becomes (x - k) mod N, features
    cut by the new origin become two-part locations), built from scratch out of
    ordinary Record / CDSFeature objects and pushed through the unchanged
        detect_protoclusters_and_signatures -> add_protocluster
        -> create_candidate_clusters -> create_regions
    pipeline.  The reported protoclusters (rule, genes inside the core, definition
    genes) are compared to an independent plain re-implementation (reference())
    that never sees an origin at all: it works in a frame cut in the middle of the
    largest empty stretch of the ring, where nothing crosses or is near the origin.

    A line starting with "VIOLATION:" is printed for every scenario in which some
    rotation disagrees with the reference (and with the other rotations).
"""

import logging
import sys

from Bio.Seq import Seq

from antismash.common.hmm_rule_parser import cluster_prediction, rule_parser
from antismash.common.hmm_rule_parser.structures import DynamicHit, DynamicProfile
from antismash.common.secmet import Record
from antismash.common.secmet.features import CDSFeature
from antismash.common.secmet.locations import CompoundLocation, FeatureLocation

logging.disable(logging.CRITICAL)
CATEGORIES = {"cat"}


# --------------------------------------------------------------------------- #
# building the rotated record and running the real code
# --------------------------------------------------------------------------- #
def rotated_location(ring, exons, strand, k):
    parts = []
    for start, length in exons:
        new_start = (start - k) % ring
        new_end = new_start + length
        if new_end > ring:  # cut by the new origin
            parts.extend([(new_start, ring), (0, new_end - ring)])
        else:
            parts.append((new_start, new_end))
    locations = [FeatureLocation(start, end, strand) for start, end in parts]
    if strand == -1:
        locations.reverse()  # biopython order for the reverse strand
    return locations[0] if len(locations) == 1 else CompoundLocation(locations)


def build_record(ring, genes, k, translations=None, sequence=None):
    sequence = sequence or "A" * ring
    assert len(sequence) == ring
    record = Record(Seq(sequence[k:] + sequence[:k]))
    record.id = "demo"
    record.add_annotation("topology", "circular")
    assert record.is_circular()
    for name, exons, strand in genes:
        location = rotated_location(ring, exons, strand, k)
        translation = "M" + "A" * (min(length for _, length in exons) // 3 - 1)
        if translations and name in translations:
            translation = translations[name]
        record.add_cds_feature(CDSFeature(location, locus_tag=name, translation=translation))
    return record


def build_ruleset(rule_text, hits):
    profile_names = sorted({profile for gene_hits in hits.values() for profile in gene_hits})
    profiles = {}
    for profile in profile_names:
        def detect(_record, _hmmer_hits, profile=profile):
            return {gene: [DynamicHit(gene, profile, bitscore=100.)]
                    for gene, gene_hits in hits.items() if profile in gene_hits}
        profiles[profile] = DynamicProfile(profile, "demo profile", detect)
    rules = rule_parser.Parser(rule_text, set(profile_names), CATEGORIES).rules
    return cluster_prediction.Ruleset(tuple(rules), {}, "", CATEGORIES, "rule-based-clusters",
                                      dynamic_profiles=profiles, equivalence_groups=[])


def arc_of(location, k, ring):
    """ the (start, length) arc, in ring coordinates, of a one or two part area location """
    return ((location.parts[0].start + k) % ring, sum(len(part) for part in location.parts))


def inside(exons, arc, ring):
    return all((start - arc[0]) % ring + length <= arc[1] for start, length in exons)


def actual(ring, genes, hits, ruleset, k, translations=None, sequence=None):
    record = build_record(ring, genes, k, translations, sequence)
    results = cluster_prediction.detect_protoclusters_and_signatures(record, ruleset)
    results.annotate_cds_features()
    for protocluster in results.protoclusters:
        record.add_protocluster(protocluster)
    record.create_candidate_clusters()
    record.create_regions()
    assert all(len(region.location) * 2 < ring for region in record.get_regions()), "region over half the record"
    found = []
    for proto in record.get_protoclusters():
        core = arc_of(proto.core_location, k, ring)
        core_genes = tuple(sorted(name for name, exons, _ in genes if inside(exons, core, ring)))
        definition = tuple(sorted(cds.get_name() for cds in proto.definition_cdses))
        found.append((proto.product, core_genes, definition))
    return sorted(found)


# --------------------------------------------------------------------------- #
# the independent reference: no origin anywhere
# --------------------------------------------------------------------------- #
def reference(ring, genes, hits, rules):
    """ rules: list of dicts with name, cutoff, neighbourhood, needs (profiles that must all be
        in one CDS), extender (a profile or None), superiors (names)

        - a gene fires a rule if it has all the needed profiles
        - fired genes are joined (single linkage) if they overlap or the gap between them is < cutoff
        - a core is extended over extender genes at most cutoff away, until nothing changes
        - an inferior protocluster is dropped if a superior's core contains its core or if the
          runs of genes (first to last gene inside the core, in ring order) share a gene
    """
    # a frame in which nothing is near the origin: cut in the middle of the largest empty stretch
    covered = sorted((start % ring, length) for _, exons, _ in genes for start, length in exons)
    best_gap, cut = -1, 0
    for i, (start, length) in enumerate(covered):
        following = covered[(i + 1) % len(covered)][0]
        gap = (following - (start + length)) % ring
        if gap > best_gap:
            best_gap, cut = gap, (start + length + gap // 2) % ring
    spans = {}
    for name, exons, _ in genes:
        pieces = [((start - cut) % ring, (start - cut) % ring + length) for start, length in exons]
        assert all(end <= ring for _, end in pieces)
        spans[name] = (min(start for start, _ in pieces), max(end for _, end in pieces))
    order = sorted(spans, key=lambda gene: (spans[gene][0], spans[gene][1] - spans[gene][0]))

    def gap_between(one, two):
        if one[0] < two[1] and two[0] < one[1]:
            return -1  # overlapping
        linear = max(two[0] - one[1], one[0] - two[1])
        return min(linear, ring - max(one[1], two[1]) + min(one[0], two[0]))

    clusters = []
    for rule in rules:
        fired = [gene for gene in order if set(rule["needs"]) <= set(hits.get(gene, []))]
        groups = []
        for gene in fired:
            linked = [group for group in groups
                      if any(gap_between(spans[gene], spans[other]) < rule["cutoff"] for other in group)]
            merged = {gene}.union(*linked) if linked else {gene}
            groups = [group for group in groups if group not in linked] + [merged]
        for group in groups:
            core = (min(spans[gene][0] for gene in group), max(spans[gene][1] for gene in group))
            definition = set(group)
            changed = rule["extender"] is not None
            while changed:
                changed = False
                for gene in order:
                    span = spans[gene]
                    if rule["extender"] not in hits.get(gene, []):
                        continue
                    if core[0] <= span[0] and span[1] <= core[1]:
                        definition.add(gene)
                    elif gap_between(span, core) <= rule["cutoff"]:
                        core = (min(core[0], span[0]), max(core[1], span[1]))
                        definition.add(gene)
                        changed = True
            contained = [gene for gene in order if core[0] <= spans[gene][0] and spans[gene][1] <= core[1]]
            run = set(range(order.index(contained[0]), order.index(contained[-1]) + 1))
            clusters.append({"rule": rule, "core": core, "genes": contained, "definition": definition, "run": run})

    kept = []
    for cluster in clusters:
        redundant = False
        for other in clusters:
            if other["rule"]["name"] not in cluster["rule"]["superiors"]:
                continue
            contains = other["core"][0] <= cluster["core"][0] and cluster["core"][1] <= other["core"][1]
            if contains or cluster["run"] & other["run"]:
                redundant = True
        if not redundant:
            kept.append((cluster["rule"]["name"], tuple(sorted(cluster["genes"])),
                         tuple(sorted(cluster["definition"]))))
    return sorted(kept)


# --------------------------------------------------------------------------- #
# the scenarios
# --------------------------------------------------------------------------- #
KB = 1000


def scaled(genes):
    return [(name, [(start * KB, length * KB) for start, length in exons], strand) for name, exons, strand in genes]


SCENARIOS = [
    {
        "title": "extender gene crossing the origin is never looked at (apply_extenders: walk ends "
                 "before the origin-crossing genes, 'longest_cds' ignores them)",
        "ring": 300 * KB,
        # c fires the rule; X (28 kb) carries the extender profile and ends 2 kb before c;
        # n is a small gene inside X; f is an unrelated gene far away
        "genes": scaled([("X", [(290, 28)], 1), ("n", [(2, 3)], 1), ("c", [(20, 6)], 1), ("f", [(100, 6)], 1)]),
        "hits": {"c": ["A"], "X": ["E"]},
        "rule_text": "RULE r1 CATEGORY cat CUTOFF 3 NEIGHBOURHOOD 5 CONDITIONS A EXTENDERS E",
        "rules": [{"name": "r1", "cutoff": 3 * KB, "needs": ["A"], "extender": "E", "superiors": []}],
        "rotations": [150 * KB, 10 * KB, 280 * KB, 0, 295 * KB],
    },
    {
        "title": "extender gene that only comes into reach through an origin-crossing extender gene is "
                 "not looked at again (apply_extenders: origin-crossing genes are walked out of ring order)",
        "ring": 400 * KB,
        # c fires the rule and lies inside X; X and u carry the extender profile; u overlaps X but is
        # 8 kb from c; f1/f2 are unrelated genes far away
        "genes": scaled([("c", [(100, 6)], 1), ("X", [(90, 40)], 1), ("u", [(80, 12)], 1),
                         ("f1", [(40, 6)], 1), ("f2", [(200, 6)], 1)]),
        "hits": {"c": ["A"], "X": ["E"], "u": ["E"]},
        "rule_text": "RULE r1 CATEGORY cat CUTOFF 3 NEIGHBOURHOOD 5 CONDITIONS A EXTENDERS E",
        "rules": [{"name": "r1", "cutoff": 3 * KB, "needs": ["A"], "extender": "E", "superiors": []}],
        "rotations": [300 * KB, 0, 95 * KB, 110 * KB, 120 * KB],
    },
    {
        "title": "CUTOFF 0 rule (as the shipped NRPS-like rule): overlapping core genes are joined by the "
                 "start-ordered scan (overlap test) but not by the origin handling (distance < 0)",
        "ring": 1000 * KB,
        # G1 and G2 overlap by 4 bases (ATGA style), M is another hit elsewhere on the chromosome
        "genes": [("G1", [(100000, 3000)], 1), ("G2", [(102996, 3004)], 1), ("M", [(500000, 3000)], 1)],
        "hits": {"G1": ["PP-binding", "AMP-binding"], "G2": ["PP-binding", "AMP-binding"],
                 "M": ["PP-binding", "AMP-binding"]},
        "rule_text": "RULE NRPS-like CATEGORY cat CUTOFF 0 NEIGHBOURHOOD 20 "
                     "CONDITIONS cds(PP-binding and AMP-binding)",
        "rules": [{"name": "NRPS-like", "cutoff": 0, "needs": ["PP-binding", "AMP-binding"],
                   "extender": None, "superiors": []}],
        "rotations": [0, 400000, 101000, 104000, 102998],
    },
    {
        "title": "origin inside the intron of a gene: the gene sorts after an origin-crossing gene that "
                 "starts later (Feature.__lt__), and remove_redundant_protoclusters' first-to-last gene run "
                 "then takes in that foreign gene - the inferior protocluster disappears",
        "ring": 400 * KB,
        # P (two exons, 30 kb intron) fires the inferior rule r1, Q fires the superior rule r0 and overlaps
        # P's second exon, R is an unrelated gene in P's intron
        "genes": scaled([("P", [(90, 20), (140, 6)], 1), ("Q", [(114, 45)], 1), ("R", [(110, 12)], 1),
                         ("far", [(300, 9)], 1)]),
        "hits": {"P": ["A"], "Q": ["E"]},
        "rule_text": "RULE r0 CATEGORY cat CUTOFF 2 NEIGHBOURHOOD 5 CONDITIONS E\n"
                     "RULE r1 CATEGORY cat SUPERIORS r0 CUTOFF 5 NEIGHBOURHOOD 5 CONDITIONS A",
        "rules": [{"name": "r0", "cutoff": 2 * KB, "needs": ["E"], "extender": None, "superiors": []},
                  {"name": "r1", "cutoff": 5 * KB, "needs": ["A"], "extender": None, "superiors": ["r0"]}],
        "rotations": [0, 200 * KB, 100 * KB, 125 * KB, 150 * KB, 140 * KB, 138 * KB],
    },
]


def shipped_nrps_like_check():
    """ Extra context for the CUTOFF 0 scenario: the same layout run through the rules shipped
        with antiSMASH (strict + relaxed), returns a description or None if unavailable """
    try:
        import antismash.detection.hmm_detection as hmm_detection
        base = cluster_prediction.Ruleset.from_files(
            hmm_detection.SIGNATURE_FILE, hmm_detection.HMM_FILE,
            hmm_detection._get_rule_files_for_strictness("relaxed"),  # pylint: disable=protected-access
            hmm_detection.CATEGORIES, hmm_detection.EQUIVALENCE_GROUPS, "rule-based-clusters",
            dynamic_profiles=hmm_detection.DYNAMIC_PROFILES)
    except Exception as err:  # pylint: disable=broad-except
        return f"(shipped rules could not be loaded: {err})"
    scenario = SCENARIOS[2]
    hits = scenario["hits"]
    cutoff = base.get_rule_by_name("NRPS-like").cutoff
    outcomes = {}
    for k in (0, 104000):
        profiles = {}
        for profile in ("PP-binding", "AMP-binding"):
            def detect(_record, _hmmer_hits, profile=profile):
                return {gene: [DynamicHit(gene, profile, bitscore=100.)] for gene in hits}
            profiles[profile] = DynamicProfile(profile, "demo profile", detect)
        ruleset = cluster_prediction.Ruleset(tuple(base.rules), {}, "", hmm_detection.CATEGORIES,
                                             "rule-based-clusters", dynamic_profiles=profiles,
                                             equivalence_groups=[])
        outcomes[k] = actual(scenario["ring"], scenario["genes"], hits, ruleset, k)
    return (f"with the shipped strict+relaxed rules (NRPS-like has cutoff {cutoff}): "
            f"rotation 0 -> {outcomes[0]}, rotation 104000 -> {outcomes[104000]}")


def shipped_darobactin_ruleset():
    """ The shipped strict rules, limited as with --hmmdetection-limit-to-rule-names darobactin """
    import antismash.detection.hmm_detection as hmm_detection
    base = cluster_prediction.Ruleset.from_files(
        hmm_detection.SIGNATURE_FILE, hmm_detection.HMM_FILE,
        hmm_detection._get_rule_files_for_strictness("strict"),  # pylint: disable=protected-access
        hmm_detection.CATEGORIES, hmm_detection.EQUIVALENCE_GROUPS, "rule-based-clusters",
        dynamic_profiles=hmm_detection.DYNAMIC_PROFILES)
    return base.copy_with_replacements(rules=tuple(rule for rule in base.rules if rule.name == "darobactin"))


def unannotated_precursor_scenario():
    """ Scenario 6: as scenario 5, but the rSAM gene is on the forward strand and the darobactin precursor is
        not annotated, it is an ORF in the sequence that the dynamic profile darobactin_rSAM has to find
        (find_motif_around_anchor -> all_orfs.find_all_orfs / get_trimmed_orf).
        Returns the number of violations shown.
    """
    import random
    from antismash.common.hmm_rule_parser.structures import HMMerHit
    ring = 60 * KB
    rng = random.Random(5)
    ring_sequence = [rng.choice("ACGT") for _ in range(ring)]
    precursor = "MKNWNWSKSFQEITAAELQ"
    codons = {"M": "ATG", "K": "AAA", "N": "AAC", "W": "TGG", "S": "TCC", "F": "TTC", "Q": "CAG", "E": "GAA",
              "I": "ATC", "T": "ACC", "A": "GCC", "L": "CTG"}
    orf = "".join(codons[amino] for amino in precursor) + "TAA"
    orf_start = 31800
    ring_sequence[orf_start:orf_start + len(orf)] = list(orf)
    ring_sequence = "".join(ring_sequence)
    genes = [("rsam", [(30000, 1500)], 1)]
    hit_table = {"rsam": [HMMerHit("rsam", "PF04055", 0, 100, 40, 1e-20, 120.),
                          HMMerHit("rsam", "TIGR04085", 0, 100, 27, 1e-20, 90.)]}
    ruleset = shipped_darobactin_ruleset()

    # independent reference: reading the ring directly (no origin involved), 300 bases after the end of the rSAM
    # gene there is a start codon followed in frame by 18 codons and a stop codon, a 19 aa peptide with the
    # W.W.K.. motif, well within 10 kb: darobactin_rSAM holds for the rSAM gene, which fires the rule on its own
    from Bio.Seq import Seq as _Seq
    import re
    peptide = str(_Seq(ring_sequence[orf_start:orf_start + len(orf)]).translate())
    assert peptide == precursor + "*" and re.search(r"W.W.K..", peptide) and 10 <= len(precursor) <= 80
    assert 0 < orf_start - (30000 + 1500) < 10000
    expected = [("darobactin", ("rsam",), ("rsam",))]

    original = cluster_prediction.find_hmmer_hits
    cluster_prediction.find_hmmer_hits = lambda *_args, **_kwargs: {name: list(found) for name, found in hit_table.items()}
    outcomes = {}
    try:
        for k in (0, 15000, 45000, 31000, 33000, 31810, 31850, 30700, 31400):
            try:
                outcomes[k] = actual(ring, genes, {}, ruleset, k, sequence=ring_sequence)
            except Exception as err:  # pylint: disable=broad-except
                outcomes[k] = f"exception {err!r}"
    finally:
        cluster_prediction.find_hmmer_hits = original
    good = [k for k, got in outcomes.items() if got == expected]
    print(f"--- scenario 6: ring of {ring} bases of random sequence (seed 5), gene rsam at [30000:31500](+) with "
          f"hmmsearch hits PF04055 and TIGR04085, unannotated ORF for {precursor} at [{orf_start}:{orf_start + len(orf)}](+); "
          "shipped rule 'darobactin' only")
    print(f"    reference: {expected}")
    print(f"    rotations agreeing with the reference: {good}")
    shown = 0
    in_orf = [k for k in outcomes if orf_start < k < orf_start + len(orf) and outcomes[k] != expected]
    in_gene = [k for k in outcomes if 30000 < k < 31500 and outcomes[k] != expected]
    if in_orf:
        shown += 1
        print("VIOLATION: [6] origin inside an unannotated precursor ORF: all_orfs.get_trimmed_orf() rebuilds the ORF's "
              "location from location.start/.end, which for an ORF crossing the origin are 0 and the record length, the "
              "motif is lost and darobactin_rSAM (likewise triceptide_rSAM) no longer holds. "
              f"Ring {ring}, origin moved to base {in_orf}: expected {expected} (reference, and the unchanged code at "
              f"origins {good}), actual at origin {in_orf[0]}: {outcomes[in_orf[0]]}")
    if in_gene:
        shown += 1
        print("VIOLATION: [7] origin inside the rSAM gene itself: all_orfs.find_intergenic_areas() uses location.start/.end "
              "of the origin-crossing gene (0 and the record length), no intergenic area is left, no ORF is found and "
              f"darobactin_rSAM no longer holds. Ring {ring}, origin moved to base {in_gene}: expected {expected} "
              f"(reference, and the unchanged code at origins {good}), actual at origin {in_gene[0]}: {outcomes[in_gene[0]]}")
    others = [k for k in outcomes if outcomes[k] != expected and k not in in_orf and k not in in_gene]
    if others:
        print(f"    (also differing: {[(k, outcomes[k]) for k in others]})")
    return shown


def dynamic_profile_scenario():
    """ Scenario 5 uses the shipped 'darobactin' rule and its dynamic profile darobactin_rSAM, with the
        hits of the (absent) hmmsearch binary replaced by a hand-built hit table.
        Returns True if a violation was shown.
    """
    import antismash.detection.hmm_detection as hmm_detection
    from antismash.common.hmm_rule_parser.structures import HMMerHit
    ring = 100 * KB
    # a radical SAM / SPASM gene on the reverse strand, a 19 aa darobactin precursor (W.W.K.. motif) 300 bases
    # further along, and an unrelated gene
    genes = [("rsam", [(30000, 1500)], -1), ("pre", [(31800, 60)], -1), ("other", [(60000, 900)], 1)]
    translations = {"pre": "MKNWNWSKSFQEITAAELQ"}
    hit_table = {"rsam": [HMMerHit("rsam", "PF04055", 0, 100, 40, 1e-20, 120.),
                          HMMerHit("rsam", "TIGR04085", 0, 100, 27, 1e-20, 90.)]}
    ruleset = shipped_darobactin_ruleset()
    original = cluster_prediction.find_hmmer_hits
    cluster_prediction.find_hmmer_hits = lambda *_args, **_kwargs: {name: list(found) for name, found in hit_table.items()}

    # independent reference for the shipped rule
    #     CUTOFF 5  CONDITIONS (rSAM_with_SPASM and darobactin_precursor) or darobactin_rSAM
    # 'pre' is a 10-80 aa CDS with the W.W.K.. motif (darobactin_precursor), 'rsam' has PF04055 and TIGR04085
    # (rSAM_with_SPASM) and a precursor within 10 kb (darobactin_rSAM); the two genes are 300 bases apart going
    # round the ring (< 5 kb), so both fire the rule and form a single core
    import re
    precursors = [name for name, _, _ in genes
                  if 10 <= len(translations.get(name, "")) <= 80 and re.search(r"W.W.K..", translations[name])]
    anchor_start, anchor_length = genes[0][1][0]
    window = ((anchor_start - 10000) % ring, anchor_length + 20000)
    near = [name for name, exons, _ in genes if name in precursors and inside(exons, window, ring)]
    gap = (genes[1][1][0][0] - (anchor_start + anchor_length)) % ring
    assert near == ["pre"] and gap == 300
    expected = [("darobactin", ("pre", "rsam"), ("pre", "rsam"))]

    good, bad = [], []
    try:
        for k in (0, 50000, 15000, 28000, 32000, 41000):
            try:
                got = actual(ring, genes, {}, ruleset, k, translations)
            except Exception as err:  # pylint: disable=broad-except
                got = f"exception {err!r}"
            (good if got == expected else bad).append((k, got))
    finally:
        cluster_prediction.find_hmmer_hits = original
    print(f"--- scenario 5: ring of {ring} bases, genes {genes}, translation of 'pre' {translations['pre']}, "
          "hmmsearch hit table: rsam -> PF04055, TIGR04085; shipped rule 'darobactin' only")
    print(f"    reference: {expected}")
    print(f"    rotations agreeing with the reference: {[k for k, _ in good]}")
    if bad:
        print("VIOLATION: [5] dynamic profiles darobactin_rSAM / triceptide_rSAM (find_motif_around_anchor): a reverse "
              "strand rSAM gene within 10 kb of the origin makes detection fail, Record.extend_location() hands back a "
              "reverse strand two-part location that CDSCollection refuses. "
              f"Ring {ring}, origin moved to base {[k for k, _ in bad]}: expected {expected} (reference, and the "
              f"unchanged code at origins {[k for k, _ in good]}), actual at origin {bad[0][0]}: {bad[0][1]}")
    return bool(bad)


def main():
    violations = 0
    for number, scenario in enumerate(SCENARIOS, 1):
        ring, genes, hits = scenario["ring"], scenario["genes"], scenario["hits"]
        expected = reference(ring, genes, hits, scenario["rules"])
        good, bad = [], []
        for k in scenario["rotations"]:
            ruleset = build_ruleset(scenario["rule_text"], hits)
            try:
                got = actual(ring, genes, hits, ruleset, k)
            except Exception as err:  # pylint: disable=broad-except
                got = f"exception: {err!r}"
            (good if got == expected else bad).append((k, got))
        print(f"--- scenario {number}: ring of {ring} bases, genes (name, exons as (start, length), strand):")
        for gene in genes:
            print(f"      {gene}  hits={hits.get(gene[0], [])}")
        print(f"    rules: {scenario['rule_text']!r}")
        print(f"    reference (rule, genes in core, definition genes): {expected}")
        print(f"    rotations agreeing with the reference: {[k for k, _ in good]}")
        if bad:
            violations += 1
            k, got = bad[0]
            print(f"VIOLATION: [{number}] {scenario['title']}. Ring {ring}, origin moved to base "
                  f"{[k for k, _ in bad]}: expected protoclusters {expected} (reference, and the unchanged "
                  f"code itself at origins {[k for k, _ in good]}), actual at origin {k}: {got}")
            if number == 3:
                print(f"    {shipped_nrps_like_check()}")
    try:
        violations += dynamic_profile_scenario()
    except Exception as err:  # pylint: disable=broad-except
        print(f"--- scenario 5 could not be run: {err!r}")
    try:
        violations += unannotated_precursor_scenario()
    except Exception as err:  # pylint: disable=broad-except
        print(f"--- scenario 6 could not be run: {err!r}")
    if not violations:
        print("NOTHING FOUND")
        return 0
    return 1


if __name__ == "__main__":
    sys.exit(main())
