""" C14 hunt (h2): differential/brute-force checks of NRPS/PKS module construction
    against an independent reference (SEED/brute.py, SEED/flow.py).

    Prints one "VIOLATION:" line per distinct kind of failure and exits 1,
    or "NOTHING FOUND" and exits 0.
"""
import itertools
import os
import random
import sys

sys.path.insert(0, os.path.dirname(os.path.abspath(__file__)))
sys.argv = sys.argv[:1]

import brute  # noqa: E402  independent reference for single genes / gene pairs
import flow   # noqa: E402  generate_domains -> JSON -> add_to_record -> genbank round trips


def main() -> int:
    random.seed(20240914)
    found = {}

    def note(messages):
        for msg in messages:
            key = " ".join(msg.split(" ")[:3])
            found.setdefault(key, msg)

    small = ["PKS_KS", "PKS_KS:Trans-AT-KS", "PKS_AT", "AMP-binding", "Condensation_LCL", "CAL_domain",
             "PKS_KR", "LPG_synthase_C", "Beta_elim_lyase", "ACP", "Thioesterase", "Trans-AT_docking",
             "ECH", "PKS_Docking_Nterm"]
    # every sequence up to length 3 over a reduced alphabet (one name per role)
    for length in (1, 2, 3):
        for toks in itertools.product(small, repeat=length):
            note(brute.check_cds(list(toks))[0])
    # random longer single genes over the full alphabet and the reduced one
    for _ in range(1500):
        alpha = brute.FULL if random.random() < .5 else brute.ALPHA
        note(brute.check_cds([random.choice(alpha) for _ in range(random.randint(4, 10))])[0])
    # random adjacent pairs, both strands
    for _ in range(1500):
        alpha = brute.FULL if random.random() < .3 else small
        first = [random.choice(alpha) for _ in range(random.randint(1, 5))]
        second = [random.choice(alpha) for _ in range(random.randint(1, 6))]
        note(brute.check_pair(first, second, random.choice([1, -1])))
    # whole flow on small records of 2-5 genes
    for _ in range(30):
        genes = []
        base = random.choice([1, -1])
        for _ in range(random.randint(2, 5)):
            strand = base if random.random() < .85 else -base
            genes.append((strand, [random.choice(small) for _ in range(random.choice([0, 1, 1, 2, 2, 3, 4]))]))
        note(flow.check(genes))

    if not found:
        print("NOTHING FOUND")
        return 0
    for msg in found.values():
        print("VIOLATION:", msg[:1000])
    return 1


if __name__ == "__main__":
    sys.exit(main())
