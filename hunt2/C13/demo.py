#!/usr/bin/env python
""" C13 hunt 2: demonstrations against the UNCHANGED code.

    Run as:  cd <repo root> && PYTHONPATH=<repo root> /venv/bin/python SEED/demo.py

    Each defect is judged by a small independent reference written here
    (plain interval arithmetic on tuples), not by antiSMASH's own helpers.
"""
import sys
from unittest.mock import patch

from antismash.common.hmmscan_refinement import refine_hmmscan_results
from antismash.common.hmm_rule_parser import cluster_prediction
from antismash.common.hmm_rule_parser.cluster_prediction import filter_results, filter_result_multiple
from antismash.detection.nrps_pks_domains import domain_identification

VIOLATIONS = []


def report(text):
    VIOLATIONS.append(text)
    print("VIOLATION:", text)


# ---------------------------------------------------------------- helpers
class FakeHSP:  # what gather_by_query() reads from a Bio HSP
    def __init__(self, hit_id, start, end, score, evalue=1e-5, query_id="cds"):
        self.hit_id = hit_id
        self.query_start = start
        self.query_end = end
        self.bitscore = score
        self.evalue = evalue
        self.query_id = query_id


class FakeQueryResult:
    def __init__(self, hsps):
        self.hsps = hsps


def refine(hits, lengths, neighbour_mode):
    """ hits: (profile, start, end, score) -> same kind of tuples, as returned """
    query_results = [FakeQueryResult([FakeHSP(*hit)]) for hit in hits]
    refined = refine_hmmscan_results(query_results, lengths, neighbour_mode=neighbour_mode)
    return [(r.hit_id, r.query_start, r.query_end, r.bitscore) for r in refined.get("cds", [])]


def overlap(first, second):
    """ shared positions of two (name, start, end, ...) tuples """
    return len(set(range(first[1], first[2])) & set(range(second[1], second[2])))


# ---------------------------------------------------------------- defect 1
def defect_1():
    """ refine_hmmscan_results(): two returned hits overlap by far more than the
        allowed 20% margin, because a short hit of a LONG profile sat between them
    """
    lengths = {"A": 100, "B": 100, "Z": 1000}
    a_hit = ("A", 0, 100, 50.)
    b_hit = ("B", 61, 161, 40.)
    z_hit = ("Z", 60, 65, 10.)   # 5 of 1000 profile positions, never returned itself
    failing_modes = []
    details = None
    for mode in (False, True):
        without = refine([a_hit, b_hit], lengths, mode)
        with_z = refine([a_hit, z_hit, b_hit], lengths, mode)
        for i, first in enumerate(with_z):
            for second in with_z[i + 1:]:
                allowed = 0.2 * max(lengths[first[0]], lengths[second[0]])
                if overlap(first, second) > allowed:
                    failing_modes.append(mode)
                    details = (first, second, overlap(first, second), allowed, with_z, without)
    if failing_modes:
        first, second, size, allowed, with_z, without = details
        report(f"[1, shielded overlap] refine_hmmscan_results(neighbour_mode in {failing_modes}) on A[0,100) 50, "
               f"Z[60,65) 10, B[61,161) 40 with profile lengths A=B=100, Z=1000: expected no two returned "
               f"hits to overlap by more than 20% of the longer profile (A vs B: {allowed:g}); actual result "
               f"{with_z} has {first[0]} and {second[0]} overlapping by {size}. Without the Z fragment "
               f"(which is not returned either way) the result is {without}.")
    # second form: the hit between them is displaced rather than removed as incomplete
    lengths = {"B": 100, "C": 500}
    hits = [("B", 85, 235, 10.), ("C", 140, 440, 10.), ("B", 150, 300, 20.)]
    result = refine(hits, lengths, False)
    for i, first in enumerate(result):
        for second in result[i + 1:]:
            allowed = 0.2 * max(lengths[first[0]], lengths[second[0]])
            if overlap(first, second) > allowed:
                report(f"[1, second form of the same defect: the middle hit is displaced instead of removed as incomplete] refine_hmmscan_results(neighbour_mode=False) on "
                       f"B[85,235) 10, C[140,440) 10, B[150,300) 20 (lengths B=100, C=500): returned {result}, "
                       f"the two B hits overlap by {overlap(first, second)} > allowed {allowed:g}")


# ---------------------------------------------------------------- defect 2
class FakeSearchHSP:  # hmmsearch orientation: query = profile, hit = gene
    def __init__(self, profile, cds, start, end, score, evalue=1e-10):
        self.query_id = profile
        self.hit_id = cds
        self.hit_start = start
        self.hit_end = end
        # HMMerHit.from_hsp reads these two
        self.query_start = start
        self.query_end = end
        self.bitscore = score
        self.evalue = evalue

    def as_tuple(self):
        return (self.query_id, self.hit_start, self.hit_end, self.bitscore)


class FakeRunResult:
    def __init__(self, accession, hsps):
        self.accession = accession
        self.hsps = hsps


class FakeSignature:
    def __init__(self, name):
        self.name = name
        self.cutoff = 5
        self.seed_count = 1


def defect_2():
    """ find_hmmer_hits(): filter_results() runs before filter_result_multiple(),
        so a hit that lost the competition between equivalent profiles stays lost
        when its winner is then discarded as the weaker of two hits of one profile
    """
    group = frozenset({"A", "B"})
    raw = [("A", "gene", 0, 100, 50.), ("B", "gene", 0, 100, 40.), ("A", "gene", 200, 300, 60.)]

    # as find_hmmer_hits() itself, with hmmsearch replaced
    hsps = [FakeSearchHSP(*hit) for hit in raw]
    run_results = [FakeRunResult("A.1", [hsps[0], hsps[2]]), FakeRunResult("B.1", [hsps[1]])]
    sigs = {"A": FakeSignature("A"), "B": FakeSignature("B")}
    with patch.object(cluster_prediction, "run_hmmsearch", return_value=run_results), \
            patch.object(cluster_prediction.fasta, "get_fasta_from_record", return_value=">gene\nMAGIC"):
        by_cds = cluster_prediction.find_hmmer_hits(None, sigs, "dummy.hmm", [group])
    kept = sorted((hit.query_id, hit.query_start, hit.query_end, hit.bitscore) for hit in by_cds.get("gene", []))

    # the two functions directly, in the same order
    hsps = [FakeSearchHSP(*hit) for hit in raw]
    results, by_id = filter_results(list(hsps), {"gene": list(hsps)}, [group])
    results, by_id = filter_result_multiple(results, by_id)
    kept_direct = sorted(hit.as_tuple() for hit in results)
    assert kept == kept_direct, (kept, kept_direct)

    # independent reference: every dropped hit needs a KEPT better hit that it competes with,
    # i.e. a kept hit of the same profile, or a kept hit of an equivalent profile sharing > 20 positions
    for profile, _, start, end, score in raw:
        hit = (profile, start, end, score)
        if hit in kept:
            continue
        excuses = [other for other in kept if other[3] >= score and (
                       other[0] == profile
                       or ({other[0], profile} <= group and overlap(other, hit) > 20))]
        if not excuses:
            report(f"[2, equivalent profile lost] find_hmmer_hits / filter_results + filter_result_multiple on one "
                   f"gene, equivalence group {{A, B}}, hits A[0,100) 50, B[0,100) 40, A[200,300) 60: expected "
                   f"B[0,100) to survive (the only hit that outscored it, A[0,100), is itself dropped, and the "
                   f"overlapping group {{A[0,100), B[0,100)}} must keep its best-scoring member), i.e. A[200,300) "
                   f"and B[0,100); actual result {kept}: {profile}[{start},{end}) is dropped although no kept hit "
                   f"overlaps it and no other hit of profile {profile} is kept")


# ---------------------------------------------------------------- defect 3
def defect_3():
    """ find_domains(): the terminal-docking filter runs after the competition,
        so a complete domain displaced by a mid-protein docking hit is lost when
        that docking hit is then discarded for not being terminal
    """
    lengths = {"PKS_KR": 180, "PKS_Docking_Nterm": 30}
    raw = [("PKS_KR", 500, 680, 30.), ("PKS_Docking_Nterm", 600, 630, 35.)]
    query_results = [FakeQueryResult([FakeHSP(*hit)]) for hit in raw]

    class Cds:
        translation = "M" * 2000

    class Rec:
        @staticmethod
        def get_cds_name_mapping():
            return {"cds": Cds()}

    with patch.object(domain_identification.subprocessing, "run_hmmscan", return_value=query_results), \
            patch.object(domain_identification.utils, "get_hmm_lengths", return_value=lengths):
        found = domain_identification.find_domains(">cds\nMAGIC", Rec())
    kept = [(r.hit_id, r.query_start, r.query_end, r.bitscore) for r in found.get("cds", [])]
    # reference: the KR hit is complete (180 of 180) and may only go if a kept, better hit overlaps it
    kr_hit = raw[0]
    if kr_hit not in kept and not any(overlap(kr_hit, other) and other[3] >= kr_hit[3] for other in kept):
        report(f"[3, lower confidence: pipeline of refine + docking filter] find_domains() on a 2000 aa protein "
               f"with PKS_KR[500,680) 30 (complete, profile length 180) and a mid-protein "
               f"PKS_Docking_Nterm[600,630) 35: expected PKS_KR to be returned (nothing that overlaps it is "
               f"kept); actual result {kept}: the docking hit displaces PKS_KR in refine_hmmscan_results() and "
               f"is then removed by filter_nonterminal_docking_domains()")


def main():
    defect_1()
    defect_2()
    defect_3()
    if not VIOLATIONS:
        print("NOTHING FOUND")
        return 0
    return 1


if __name__ == "__main__":
    sys.exit(main())
