""" Demonstration of the defects found for property C12 (per-region GenBank files).

    Run as:  cd <repo root> && PYTHONPATH=<repo root> /venv/bin/python SEED/demo.py

    Every scenario builds the input as GenBank text, loads it the way antiSMASH does
    (SeqIO.parse -> Record.from_biopython), which shows that the input is accepted, adds a
    sideloaded subregion, creates the regions and writes the region files.
    The reference is independent of antiSMASH: plain base positions / plain expectations
    (the file exists, Biopython alone can read it, antiSMASH can load it, one region, same genes).
"""
import io
import os
import random
import sys
import tempfile

from Bio import SeqIO
from Bio.Seq import Seq
from Bio.SeqFeature import BeforePosition, ExactPosition, SeqFeature, SimpleLocation
from Bio.SeqRecord import SeqRecord

from antismash.common.secmet import Record
from antismash.common.secmet.features import AntismashDomain, Module
from antismash.common.secmet.features.subregion import SideloadedSubRegion
from antismash.common.secmet.locations import CompoundLocation, FeatureLocation

VIOLATIONS = []


def violation(text):
    VIOLATIONS.append(text)
    print("VIOLATION: " + text)


def genbank_text(length, circular, cds, extra_feature_lines=""):
    """ cds: list of (name, biopython location, translation or None)
        returns the GenBank text of a record of random bases with those CDS features
    """
    rng = random.Random(12)
    seq = "".join(rng.choice("ACGT") for _ in range(length))
    record = SeqRecord(Seq(seq), id="REC", name="REC", description="demo")
    record.annotations["molecule_type"] = "DNA"
    record.annotations["topology"] = "circular" if circular else "linear"
    for name, location, translation in cds:
        qualifiers = {"locus_tag": [name]}
        if translation:
            qualifiers["translation"] = [translation]
        record.features.append(SeqFeature(location, type="CDS", qualifiers=qualifiers))
    handle = io.StringIO()
    SeqIO.write([record], handle, "genbank")
    text = handle.getvalue()
    if extra_feature_lines:
        text = text.replace("ORIGIN", extra_feature_lines + "ORIGIN", 1)
    return text


def load_full(text):
    """ loads the full record exactly as antiSMASH does for its input: this must work, else the input is illegal """
    bio = list(SeqIO.parse(io.StringIO(text), "genbank"))
    assert len(bio) == 1
    return Record.from_biopython(bio[0], taxon="bacteria")


def write_and_reload(region):
    """ returns (file text or None, loaded records or None, error or None) """
    handle, filename = tempfile.mkstemp(suffix=".gbk")
    os.close(handle)
    try:
        try:
            region.write_to_genbank(filename=filename)
        except BaseException as err:  # pylint: disable=broad-except
            return None, None, f"writing failed with {type(err).__name__}: {err}"
        with open(filename, encoding="utf-8") as text_handle:
            text = text_handle.read()
        # Biopython alone must be able to read it
        plain = list(SeqIO.parse(io.StringIO(text), "genbank"))
        assert len(plain) == 1
        try:
            loaded = Record.from_genbank(filename, taxon="bacteria")
        except BaseException as err:  # pylint: disable=broad-except
            return text, None, f"loading failed with {type(err).__name__}: {err}"
        return text, loaded, None
    finally:
        os.unlink(filename)


def region_is_faithful(record, region, loaded):
    """ the plain reference: one region, same sequence, same genes at the same (shifted) bases """
    if len(loaded) != 1 or len(loaded[0].get_regions()) != 1:
        return False
    length = len(record.seq)
    if region.crosses_origin():
        bases = list(range(region.start, length)) + list(range(0, region.end))
    else:
        bases = list(range(region.start, region.end))
    index = {base: i for i, base in enumerate(bases)}
    if str(loaded[0].seq) != "".join(str(record.seq)[b] for b in bases):
        return False

    def positions(location):
        result = []
        for part in location.parts:
            chunk = list(range(int(part.start), int(part.end)))
            result.extend(reversed(chunk) if part.strand == -1 else chunk)
        return result
    old = sorted((cds.get_name(), [index[p] for p in positions(cds.location)]) for cds in region.cds_children)
    new = sorted((cds.get_name(), positions(cds.location)) for cds in loaded[0].get_regions()[0].cds_children)
    return old == new


# ---------------------------------------------------------------------------------------------
def defect_1():
    """ a partial gene whose translation is longer than its location, close to the end of a region """
    # forward gene <201..290 (30 codons) with a translation of 40 residues: explicitly accepted for
    # locations with an ambiguous end (cds_feature._is_valid_translation_length), as in NCBI records
    partial = SimpleLocation(BeforePosition(200), ExactPosition(290), 1)
    text = genbank_text(600, False, [
        ("other", SimpleLocation(100, 160, 1), None),
        ("partial", partial, "MKLAVMKLAV" * 4),
    ])
    outcomes = {}
    for region_end in (320, 300):
        record = load_full(text)  # the input is accepted
        assert sorted(cds.get_name() for cds in record.get_cds_features()) == ["other", "partial"]
        record.add_subregion(SideloadedSubRegion(FeatureLocation(90, region_end, 1), tool="side", label="demo"))
        record.create_regions()
        region = record.get_regions()[0]
        assert sorted(cds.get_name() for cds in region.cds_children) == ["other", "partial"]
        _, loaded, error = write_and_reload(region)
        outcomes[region_end] = error or ("ok" if region_is_faithful(record, region, loaded) else "differs")
    assert outcomes[320] == "ok", outcomes  # control: 30 bases of room after the gene
    if outcomes[300] != "ok":
        violation("linear record of 600 bases, forward CDS 'partial' <201..290 with a 40 residue /translation "
                  "(accepted in the full record), sideloaded subregion/region [90:300): expected a region file that "
                  "antiSMASH can load again with genes 'other' and 'partial'; actual: " + outcomes[300] +
                  " (the same region ending at 320 loads fine; mirror image for reverse-strand genes at a region start)")


def defect_2():
    """ a between-bases site feature after the origin, inside an origin-spanning region """
    site_after = ('     misc_feature    40^41\n'
                  '                     /note="site after the origin"\n')
    site_before = ('     misc_feature    540^541\n'
                   '                     /note="site before the origin"\n')
    cds = [("a", SimpleLocation(30, 90, 1), None), ("b", SimpleLocation(510, 570, 1), None)]
    crossing = CompoundLocation([FeatureLocation(500, 600, 1), FeatureLocation(0, 100, 1)])
    outcomes = {}
    for label, lines, location in [("after origin, origin-spanning region", site_after, crossing),
                                   ("before origin, origin-spanning region", site_before, crossing),
                                   ("after origin, ordinary region", site_after, FeatureLocation(10, 100, 1))]:
        record = load_full(genbank_text(600, True, cds, lines))  # the input is accepted
        assert any(len(feature.location) == 0 for feature in record.get_generics())
        record.add_subregion(SideloadedSubRegion(location, tool="side", label="demo"))
        record.create_regions()
        region = record.get_regions()[0]
        text, loaded, error = write_and_reload(region)
        if error:
            outcomes[label] = error
        elif not region_is_faithful(record, region, loaded):
            outcomes[label] = "differs"
        else:
            outcomes[label] = "ok, site written as " + [line.split()[-1] for line in text.splitlines()
                                                        if "misc_feature" in line][0]
    assert outcomes["before origin, origin-spanning region"] == "ok, site written as 40^41", outcomes
    assert outcomes["after origin, ordinary region"] == "ok, site written as 30^31", outcomes
    if not outcomes["after origin, origin-spanning region"].startswith("ok"):
        violation("circular record of 600 bases with 'misc_feature 40^41' (a site between two bases, accepted in the "
                  "full record), region join{[500:600),[0:100)}: expected a region file of 200 bases with the site at "
                  "140^141; actual: " + outcomes["after origin, origin-spanning region"].rstrip(": ") +
                  " - no file at all (the same site before the origin, or in a region not spanning the origin, is "
                  "written correctly)")


def defect_3():
    """ an aSModule on a gene that the region cuts through (secmet API only, like the known prepeptide finding) """
    cds = [("cut", SimpleLocation(90, 390, 1), None), ("inside", SimpleLocation(420, 480, 1), None)]
    outcomes = {}
    for with_module in (False, True):
        record = load_full(genbank_text(600, False, cds))
        gene = record.get_cds_by_name("cut")
        location = gene.get_sub_location_from_protein_coordinates(30, 60)  # [180:270)
        domain = AntismashDomain(location, "demo_tool", FeatureLocation(30, 60), "cut", domain="PKS_KS")
        domain.domain_id = "demo_domain_1"
        domain.translation = gene.translation[30:60] if len(gene.translation) >= 60 else "A" * 30
        record.add_antismash_domain(domain)
        if with_module:
            record.add_module(Module(FeatureLocation(180, 270, 1), [domain], complete=True))
        record.add_subregion(SideloadedSubRegion(FeatureLocation(150, 500, 1), tool="side", label="demo"))
        record.create_regions()
        region = record.get_regions()[0]
        assert [c.get_name() for c in region.cds_children] == ["inside"]  # 'cut' is not a gene of the region
        _, loaded, error = write_and_reload(region)
        outcomes[with_module] = error or ("ok" if region_is_faithful(record, region, loaded) else "differs")
    assert outcomes[False] == "ok", outcomes  # control: the domain alone is no problem
    if outcomes[True] != "ok":
        violation("(secmet API level) linear record, gene 'cut' [90:390) with an aSDomain and an aSModule at [180:270), "
                  "sideloaded region [150:500) cutting through the gene: the module lies inside the region and is "
                  "written, its gene is not; expected a loadable file; actual: " + outcomes[True] +
                  " (with the aSDomain alone the file loads)")


def main():
    defect_1()
    defect_2()
    defect_3()
    if not VIOLATIONS:
        print("NOTHING FOUND")
        return 0
    return 1


if __name__ == "__main__":
    sys.exit(main())
