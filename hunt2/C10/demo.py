#!/usr/bin/env python
""" C10 (round trips of annotated records): demonstrations of violations found in the unchanged code.

    Run as:  cd <repo root> && PYTHONPATH=<repo root> /venv/bin/python SEED/demo.py

    Every check builds a small record, writes it (GenBank text and/or results JSON), reads it back
    and compares against an independent reference: plain strings/lists taken from the original
    record before writing, or the text of the first output.
"""

import io
import json
import logging
import random
import sys
import warnings

from Bio import SeqIO
from Bio.Seq import Seq

from antismash.common import serialiser
from antismash.common.hmmscan_refinement import HMMResult
from antismash.common.secmet import Record
from antismash.common.secmet.features import (
    CDSFeature,
    Feature,
    Module,
    Prepeptide,
    Protocluster,
    Source,
)
from antismash.common.secmet.features.module import ModuleType
from antismash.common.secmet.features.subregion import SideloadedSubRegion
from antismash.common.secmet.locations import CompoundLocation, FeatureLocation
# importing this registers the aSDomain variant used by the NRPS/PKS domain detection, as in a normal run
from antismash.detection.nrps_pks_domains.domain_identification import generate_domain_features

warnings.simplefilter("ignore")
logging.disable(logging.CRITICAL)

VIOLATIONS = []


def violation(text):
    VIOLATIONS.append(text)
    print("VIOLATION:", text)


class Formats:
    """ collects, per check, the formats a difference shows up in and reports it once """
    def __init__(self):
        self.failed = {}

    def add(self, name, message):
        self.failed.setdefault(message, []).append(name)

    def report(self):
        for message, names in self.failed.items():
            violation(f"[{'+'.join(names)}] {message}")


# ---------------------------------------------------------------- helpers
def make_record(length, circular=False):
    rnd = random.Random(1)
    rec = Record(Seq("".join(rnd.choice("ACGT") for _ in range(length))), transl_table=11)
    rec.id = rec.name = "rec1"
    rec.description = "test"
    for key, val in (("topology", "circular" if circular else "linear"), ("molecule_type", "DNA"),
                     ("source", "thing"), ("organism", "thing"), ("data_file_division", "BCT"),
                     ("date", "01-JAN-2000"), ("accessions", ["rec1"]), ("taxonomy", ["Bacteria", "Firmicutes"])):
        rec.add_annotation(key, val)
    return rec


def gb_text(record):
    handle = io.StringIO()
    SeqIO.write([record.to_biopython()], handle, "genbank")
    return handle.getvalue()


def via_genbank(record):
    text = gb_text(record)
    return Record.from_biopython(list(SeqIO.parse(io.StringIO(text), "genbank"))[0], "bacteria"), text


def json_text(record):
    return json.dumps(serialiser.record_to_json(record.to_biopython()), sort_keys=True)


def via_json(record):
    text = json_text(record)
    return serialiser.record_from_json(json.loads(text), "bacteria"), text


def feature_lines(record):
    """ (type, location) of every emitted feature, in order """
    return [(f.type, str(f.location).replace("(+)", "")) for f in record.to_biopython().features]


def add_cds(record, location, name):
    cds = CDSFeature(location, translation="M" * (len(location) // 3), locus_tag=name)
    record.add_cds_feature(cds)
    return cds


# ---------------------------------------------------------------- 1
def prepeptide_long_sequences():
    """ a precursor peptide with a 45 aa leader (thiopeptides, class II lanthipeptides) """
    rec = make_record(1000)
    leader, core = ("ACDEFGHIKLMNPQRSTVWY" * 3)[:45], "CCSTCSGAGK"
    loc = FeatureLocation(100, 100 + 3 * (len(leader) + len(core)), 1)
    add_cds(rec, loc, "cdsA")
    rec.add_cds_motif(Prepeptide(loc, "thiopeptide", core, "cdsA", "thiopeptides", peptide_subclass="Type I",
                                 score=10., monoisotopic_mass=1000., molecular_weight=1001., leader=leader))
    expected = [(f.type, str(f.location)) for f in rec.to_biopython().features if f.type == "CDS_motif"]
    new, first = via_genbank(rec)
    motif = new.get_cds_motifs()[0]
    actual = [(f.type, str(f.location)) for f in new.to_biopython().features if f.type == "CDS_motif"]
    if motif.leader != leader or actual != expected or gb_text(new) != first:
        violation("[GenBank] Prepeptide with a 45 aa leader on CDS [100:265](+): expected leader "
                  f"{leader!r} and leader/core features {expected}; the re-read record has leader {motif.leader!r} "
                  f"(a blank where the qualifier line was wrapped) and features {actual}; "
                  f"second GenBank output identical to the first: {gb_text(new) == first} "
                  "(the same happens to core_sequence / tail_sequence longer than about 42 aa)")


# ---------------------------------------------------------------- 2
def prepeptide_location_parts():
    """ a precursor peptide on the reverse strand """
    rec = make_record(1000)
    loc = FeatureLocation(100, 160, -1)
    add_cds(rec, loc, "cdsA")
    rec.add_cds_motif(Prepeptide(loc, "lanthipeptide", "ACDEFGHIKL", "cdsA", "lanthipeptides", peptide_subclass="Class I",
                                 score=10., monoisotopic_mass=1000., molecular_weight=1001., leader="MNPQRSTVWY"))
    expected = str(rec.get_cds_motifs()[0].location)
    formats = Formats()
    for name, via in (("GenBank", via_genbank), ("JSON", via_json)):
        new, _ = via(rec)
        actual = str(new.get_cds_motifs()[0].location)
        if actual != expected:
            formats.add(name, "Prepeptide (leader 10 aa + core 10 aa) on the reverse strand: location expected "
                        f"{expected}, the re-read record has {actual} (same with tails, and for forward strand "
                        "precursors crossing the origin): build_location_from_others() only joins parts that "
                        "follow each other in ascending order")
    formats.report()


# ---------------------------------------------------------------- 3
def feature_order_not_a_fixed_point():
    """ two generic features starting at the same base as an area, in the order NCBI files use (longest first) """
    rec = make_record(5000)
    for end in (2000, 100):  # NCBI order: same start, longer first
        feature = Feature(FeatureLocation(0, end, 1), "misc_feature")
        feature.notes.append(f"ends at {end}")
        rec.add_feature(feature)
    rec.add_subregion(SideloadedSubRegion(FeatureLocation(0, 1000), "sometool", label="area"))
    rec.create_regions()
    formats = Formats()
    for name, via, text_of in (("GenBank", via_genbank, gb_text), ("JSON", via_json, json_text)):
        new, first = via(rec)
        second = text_of(new)
        if first != second:
            formats.add(name, "linear record with misc_feature [0:2000], misc_feature [0:100] (in that order in the "
                        "input) and a sideloaded subregion [0:1000] (+ its region): the second output must equal the "
                        f"first; first output order {feature_lines(rec)}, output of the re-read record "
                        f"{feature_lines(new)}: Feature.__lt__ and CDSCollection.__lt__ disagree (short before long, "
                        "long before area, area before short), so sorted(all_features) depends on the order the "
                        "features happen to be stored in")
    formats.report()


# ---------------------------------------------------------------- 4
def identical_sources_swap():
    rec = make_record(500)
    rec.add_feature(Source(FeatureLocation(0, 500, 1), qualifiers={"organism": ["A"]}))
    rec.add_feature(Source(FeatureLocation(0, 500, 1), qualifiers={"organism": ["B"]}))
    expected = [f.qualifiers["organism"][0] for f in rec.to_biopython().features]
    formats = Formats()
    for name, via in (("GenBank", via_genbank), ("JSON", via_json)):
        new, _ = via(rec)
        actual = [f.qualifiers["organism"][0] for f in new.to_biopython().features]
        if actual != expected:
            formats.add(name, f"two source features over the same span: organisms written in order {expected}, "
                        f"the re-read record writes them as {actual} (they swap on every round trip, no output is a "
                        "fixed point): Feature.__lt__ answers True in both directions for two tied sources")
    formats.report()


# ---------------------------------------------------------------- 5 / 7 / 8 share a builder
def nrps_record(locus, strand=1, nested=False, two_modules=False):
    rec = make_record(6000)
    cds = add_cds(rec, FeatureLocation(300, 300 + 3 * 900, strand), locus)
    inner = HMMResult("Trans-AT-KS", 12, 390, 1e-90, 250.0)
    if nested:
        inner.add_internal_hits([HMMResult("Clade_5", 15, 380, 1e-80, 240.0)])
    hits = [HMMResult("PKS_KS", 10, 400, 1e-100, 300.1, internal_hits=[inner]),
            HMMResult("PKS_AT", 450, 700, 1e-50, 200.0)]
    features = generate_domain_features(cds, hits)
    for hit, feature in features.items():
        rec.add_antismash_domain(feature)
        cds.nrps_pks.add_domain(hit, feature.get_name())
    domains = list(features.values())
    groups = [[domains[0]], [domains[1]]] if two_modules else [domains]
    for group in groups:  # in protein order, as NRPSPKSDomains.add_to_record() does
        rec.add_module(Module(rec.connect_locations([dom.location for dom in group]), group,
                              module_type=ModuleType.PKS, complete=True))
    return rec, cds


def nrps_pks_long_names():
    locus = "contig_000123_scaffold_17_prodigal_00042"  # 40 characters
    rec, cds = nrps_record(locus)
    expected = [dom.feature_name for dom in cds.nrps_pks.domains]
    new, _ = via_genbank(rec)
    actual = [dom.feature_name for dom in new.get_cds_by_name(locus).nrps_pks.domains]
    missing = []
    for name in actual:
        try:
            new.get_domain_by_name(name)
        except KeyError:
            missing.append(name)
    if actual != expected:
        violation(f"[GenBank] CDS with a {len(locus)} character locus tag and NRPS/PKS domains: the NRPS_PKS qualifier "
                  f"must keep naming the aSDomain features {expected}; after the round trip it names {actual}, "
                  f"of which {len(missing)} no longer exist in the record (the aSDomain's own domain_id is repaired on "
                  "reading, the reference to it in NRPSPKSQualifier.add_from_qualifier() is not)")


def long_protein_id():
    """ a CDS that only has a (long) protein_id, as in some submitter-annotated WGS records """
    name = "gnl_WGS_ABCD_PROKKA_012345678901234567890123456789"  # 50 characters
    rec = make_record(3000)
    rec.add_cds_feature(CDSFeature(FeatureLocation(300, 1200, 1), translation="M" * 300, protein_id=name))
    new, first = via_genbank(rec)
    actual = new.get_cds_features()[0].get_name()
    if actual != name or gb_text(new) != first:
        again, _ = via_genbank(new)
        violation(f"[GenBank] CDS named only by the {len(name)} character protein_id {name!r}: the re-read CDS is called "
                  f"{actual!r}, after another round trip {again.get_cds_features()[0].get_name()!r} (the blank from the "
                  "wrapped line is not removed as it is for locus_tag, and _sanitise_id_value() turns it into '_'); "
                  "the output is not a fixed point and domains naming the CDS no longer find it "
                  "(same for /gene of 52 characters)")


# ---------------------------------------------------------------- 6
def child_order_of_origin_spanning_areas():
    rec = make_record(10000, circular=True)
    for start in (9300, 9600, 100, 400):
        add_cds(rec, FeatureLocation(start, start + 240, 1), f"cds{start}")
    core = CompoundLocation([FeatureLocation(9700, 10000, 1), FeatureLocation(0, 300, 1)])
    rec.add_protocluster(Protocluster(core, rec.extend_location(core, 600), "rule-based-clusters", "T1PKS", 20, 600,
                                      "rule", product_category="PKS"))
    rec.create_candidate_clusters()
    rec.create_regions()
    expected = [cds.get_name() for cds in rec.get_protoclusters()[0].cds_children]
    formats = Formats()
    for name, via in (("GenBank", via_genbank), ("JSON", via_json)):
        new, _ = via(rec)
        actual = [cds.get_name() for cds in new.get_protoclusters()[0].cds_children]
        if actual != expected:
            formats.add(name, f"circular record, protocluster {rec.get_protoclusters()[0].location}: its CDS children "
                        f"are {expected} (the order along the cluster), the re-read protocluster has {actual} "
                        "(same for subregions; candidates and regions keep theirs): on reading, these areas are added before the genes, which then "
                        "arrive in file order (those after the origin first)")
    formats.report()


# ---------------------------------------------------------------- 7
def module_order_of_reverse_strand_genes():
    rec, cds = nrps_record("cdsA", strand=-1, two_modules=True)
    expected = [str(module.location) for module in cds.modules]
    formats = Formats()
    for name, via in (("GenBank", via_genbank), ("JSON", via_json)):
        new, _ = via(rec)
        actual = [str(module.location) for module in new.get_cds_by_name("cdsA").modules]
        if actual != expected:
            formats.add(name, "reverse strand CDS with two modules: cds.modules (and record.get_modules()) is "
                        f"{expected}, first module of the protein first, as nrps_pks.orderfinder relies on "
                        f"(modules[0] starter, modules[-1] final); the re-read CDS has {actual}: modules are "
                        "re-linked in file (coordinate) order")
    formats.report()


# ---------------------------------------------------------------- 8
def nrps_pks_subtypes_truncated():
    rec, cds = nrps_record("cdsA", nested=True)
    expected = [list(dom.subtypes) for dom in cds.nrps_pks.domains]
    formats = Formats()
    for name, via in (("GenBank", via_genbank), ("JSON", via_json)):
        new, _ = via(rec)
        actual = [list(dom.subtypes) for dom in new.get_cds_by_name("cdsA").nrps_pks.domains]
        if actual != expected:
            formats.add(name, "trans-AT KS domain with nested subtypes: the NRPS_PKS domain annotation of the CDS has "
                        f"subtypes {expected}, the re-read CDS has {actual} (only the first subtype is written)")
    formats.report()


# ---------------------------------------------------------------- 9
def mixed_strand_feature_cannot_be_written():
    rec = make_record(500)
    loc = CompoundLocation([FeatureLocation(39, 50, -1), FeatureLocation(9, 20, 1)])
    text = gb_text(rec).replace("ORIGIN", "     misc_feature    join(complement(40..50),10..20)\n"
                                          "                     /note=\"x\"\n"
                                          "     misc_feature    100..200\n"
                                          "                     /note=\"y\"\nORIGIN", 1)
    if "FEATURES" not in text:
        text = text.replace("     misc_feature    join", "FEATURES             Location/Qualifiers\n     misc_feature    join", 1)
    loaded = Record.from_biopython(list(SeqIO.parse(io.StringIO(text), "genbank"))[0], "bacteria")
    assert str(loaded.get_generics()[0].location) == str(loc), loaded.get_generics()[0].location
    try:
        loaded.to_biopython()
    except ValueError as err:
        violation("[GenBank+JSON] a record with misc_feature join(complement(40..50),10..20) is accepted by "
                  f"Record.from_biopython() but can never be written: to_biopython() raises ValueError({str(err)!r}) "
                  "from Feature.__lt__ while sorting")


def main():
    for check in (prepeptide_long_sequences, prepeptide_location_parts, feature_order_not_a_fixed_point,
                  identical_sources_swap, nrps_pks_long_names, long_protein_id,
                  child_order_of_origin_spanning_areas,
                  module_order_of_reverse_strand_genes, nrps_pks_subtypes_truncated,
                  mixed_strand_feature_cannot_be_written):
        check()
    if not VIOLATIONS:
        print("NOTHING FOUND")
        return 0
    return 1


if __name__ == "__main__":
    sys.exit(main())
