""" C05 demo: candidate cluster formation merges protoclusters into an unrelated candidate
    that merely has the same coordinates.

    Run as: cd <repo root> && PYTHONPATH=<repo root> /venv/bin/python SEED/demo.py
"""

import itertools
import sys

from antismash.common.secmet import Record
from antismash.common.secmet.features import CDSFeature, Protocluster
from antismash.common.secmet.locations import FeatureLocation
from antismash.common.secmet.qualifiers.gene_functions import GeneFunction


# ---------------------------------------------------------------- building inputs through the public API

def build_record(length, genes, protos, order=None):
    """ genes: name -> (start, end, products it is a defining (CORE) gene for)
        protos: name -> (core start, core end, extent start, extent end, product)
    """
    record = Record("A" * length)
    record.id = "demo"
    for name, (start, end, products) in genes.items():
        cds = CDSFeature(FeatureLocation(start, end, 1), locus_tag=name, translation="M" * ((end - start) // 3))
        for product in products:
            cds.gene_functions.add(GeneFunction.CORE, "demo", "dummy", product)
        record.add_cds_feature(cds)
    made = {}
    for name in (order or list(protos)):
        cstart, cend, start, end, product = protos[name]
        made[name] = Protocluster(FeatureLocation(cstart, cend, 1), FeatureLocation(start, end, 1), tool="demo",
                                  product=product, cutoff=20000, neighbourhood_range=20000, detection_rule="rule")
        record.add_protocluster(made[name])
    return record, made


# ---------------------------------------------------------------- independent reference (sets of base positions)

def bases(location):
    result = set()
    for part in location.parts:
        result.update(range(int(part.start), int(part.end)))
    return result


def components(nodes, linked):
    """ transitive groups of nodes under the relation """
    nodes = list(nodes)
    group_of = {node: {node} for node in nodes}
    for first, second in itertools.combinations(nodes, 2):
        if linked(first, second) and group_of[first] is not group_of[second]:
            merged = group_of[first] | group_of[second]
            for node in merged:
                group_of[node] = merged
    unique = []
    for group in group_of.values():
        if group not in unique:
            unique.append(group)
    return [frozenset(group) for group in unique]


def span(position_sets):
    """ linear records only: everything between the lowest and highest base """
    union = set().union(*position_sets)
    return set(range(min(union), max(union) + 1))


def reference_groups(made):
    """ the documented groups, by name: chemical hybrids and interleaved groups """
    names = list(made)
    cores = {name: bases(made[name].core_location) for name in names}
    defining = {name: {cds.get_name() for cds in made[name].definition_cdses} for name in names}
    shared = [group for group in components(names, lambda a, b: bool(defining[a] & defining[b])) if len(group) > 1]
    in_shared = set().union(*shared) if shared else set()
    hybrids = []
    for group in shared:
        core_span = span([cores[name] for name in group])
        contained = {name for name in names if name not in in_shared and cores[name] <= core_span}
        hybrids.append(frozenset(group | contained))
    in_hybrid = set().union(*hybrids) if hybrids else set()
    units = hybrids + [frozenset([name]) for name in names if name not in in_hybrid]
    unit_core = {unit: span([cores[name] for name in unit]) for unit in units}
    interleaved = [frozenset().union(*group) for group in components(units, lambda a, b: bool(unit_core[a] & unit_core[b]))
                   if len(group) > 1]
    return hybrids, interleaved


def describe(candidates):
    return "; ".join(f"{kind} {{{','.join(sorted(members))}}} {loc}" for kind, members, loc in candidates)


def run(length, genes, protos, order=None):
    record, made = build_record(length, genes, protos, order)
    record.create_candidate_clusters()
    name_of = {id(proto): name for name, proto in made.items()}
    reported = []
    for candidate in record.get_candidate_clusters():
        reported.append((str(candidate.kind), frozenset(name_of[id(p)] for p in candidate.protoclusters),
                         str(candidate.location)))
    return made, reported


# ---------------------------------------------------------------- the cases

def case_wrong_target():
    """ a 2.4 kb contig: all extents reaching 20 kb are clipped to the whole contig, so the hybrids
        {P,Q} and {T,U} have the same coordinates; S interleaves with {T,U} only
    """
    length = 2400
    genes = {
        "gPQ": (0, 300, ["p", "q"]),       # defines P and Q -> chemical hybrid {P,Q}
        "gTU": (1200, 1500, ["t", "u"]),   # defines T and U -> chemical hybrid {T,U}
        "gT2": (1900, 2100, ["t"]),
        "gS1": (1600, 1800, ["s"]),
        "gS2": (2200, 2400, ["s"]),
    }
    protos = {
        "P": (0, 300, 0, 1200, "p"),
        "Q": (0, 300, 0, 2400, "q"),
        "T": (1200, 2100, 0, 2400, "t"),
        "U": (1200, 1500, 900, 2400, "u"),
        "S": (1600, 2400, 1200, 2400, "s"),   # core overlaps the core of T, no defining gene shared with anything
    }
    return length, genes, protos


def case_disjoint_groups():
    """ no clipping involved: the hybrid {T,U} and the interleaved pair {A,B} are disjoint,
        they only happen to start and end at the same coordinates
    """
    length = 3000
    genes = {
        "gTU": (2400, 3000, ["t", "u"]),
    }
    protos = {
        "T": (2400, 3000, 1200, 3000, "t"),
        "U": (2400, 3000, 2100, 3000, "u"),
        "A": (1800, 2400, 1200, 2400, "a"),   # cores of A and B overlap each other,
        "B": (2100, 2400, 1500, 3000, "b"),   # and end exactly where the cores of T and U begin
        "Z": (300, 600, 0, 1500, "z"),        # a plain neighbour, so that the neighbouring group has other coordinates
    }
    return length, genes, protos


def main():
    violations = []

    # ---- case 1
    length, genes, protos = case_wrong_target()
    made, reported = run(length, genes, protos)
    hybrids, interleaved = reference_groups(made)
    assert sorted(map(sorted, hybrids)) == [["P", "Q"], ["T", "U"]], hybrids
    assert sorted(map(sorted, interleaved)) == [["S", "T", "U"]], interleaved
    # the same answer whatever the supply order, so this is not an ordering effect
    for order in itertools.permutations(protos):
        assert run(length, genes, protos, list(order))[1] == reported
    group = interleaved[0]
    holders = [cand for cand in reported if group <= cand[1]]
    with_s = [cand for cand in reported if "S" in cand[1] and len(cand[1]) > 1]
    if not holders:
        violations.append(
            "linear 2400 bp record, protoclusters P[core 0-300, extent 0-1200] Q[0-300, 0-2400] sharing defining gene gPQ, "
            "T[1200-2100, 0-2400] U[1200-1500, 900-2400] sharing defining gene gTU, S[core 1600-2400, extent 1200-2400] "
            "whose core overlaps only the core of T (no shared defining gene): the cores of {T,U,S} overlap transitively, so "
            "EXPECTED a candidate holding {S,T,U} (interleaved, or the hybrid {T,U} with S promoted into it) and S in no "
            "chemical hybrid with P/Q; ACTUAL " + describe(reported) + " -> no candidate holds {S,T,U}, S is reported as member of "
            "the chemical hybrid of P and Q (" + describe(with_s) + "), with which it shares neither a defining gene nor a core "
            "overlap (its core 1600-2400 is outside their core span 0-300); cause: build_candidates() merges the extras of a "
            "group into existing_candidates[0], the first candidate with the same coordinates, whichever candidate the group contains"
        )

    # ---- case 2 (same root cause, without any clipping and with a single candidate at the coordinates)
    length, genes, protos = case_disjoint_groups()
    made, reported = run(length, genes, protos)
    hybrids, interleaved = reference_groups(made)
    assert sorted(map(sorted, hybrids)) == [["T", "U"]], hybrids
    assert sorted(map(sorted, interleaved)) == [["A", "B"]], interleaved
    bad = [cand for cand in reported if cand[0] == "chemical_hybrid" and cand[1] not in hybrids]
    missing = [grp for grp in interleaved if not any(cand[1] == grp for cand in reported)]
    also = None
    if bad and missing:
        also = ("ALSO (same root cause): linear 3000 bp record, hybrid T,U [cores 2400-3000, extents 1200-3000 / 2100-3000] and the "
                "disjoint pair A[core 1800-2400, extent 1200-2400] B[core 2100-2400, extent 1500-3000] whose cores overlap each "
                "other but not T/U, plus a neighbour Z[core 300-600, extent 0-1500]: EXPECTED chemical_hybrid {T,U} and interleaved {A,B} "
                "(both 1200-3000) next to neighbouring {A,B,T,U,Z} 0-3000 and single {Z}; ACTUAL "
                + describe(reported) + " -> the interleaved group {A,B} is not reported and A,B are members of a chemical hybrid "
                "they have nothing in common with except the coordinates")

    if not violations:
        print("NOTHING FOUND")
        return 0
    for violation in violations:
        print("VIOLATION:", violation)
    if also:
        print(also)
    return 1


if __name__ == "__main__":
    sys.exit(main())
