#!/usr/bin/env python
""" C04 (location algebra vs the set-of-bases model) - demonstration of defects
    that are present in the UNCHANGED code.

    Run as:  cd <repo root> && PYTHONPATH=<repo root> /venv/bin/python SEED/demo.py

    The reference used throughout is independent of the code under test:
    a location is the set of base positions covered by its parts, a ring of
    length n is the integers modulo n.
"""

import os
import sys
import tempfile

from antismash.common.secmet.locations import (
    CompoundLocation,
    FeatureLocation,
    offset_location,
)
from antismash.common.secmet.record import Record

VIOLATIONS = []


def report(text):
    VIOLATIONS.append(text)
    print("VIOLATION:", text)


# ---------------------------------------------------------------- reference
def bases(location):
    """ the set of bases covered by a location """
    found = set()
    for part in location.parts:
        found.update(range(int(part.start), int(part.end)))
    return found


def ring_distance(base, others, size):
    """ number of steps from a base to the nearest base of a set, on a ring """
    return min(min((base - other) % size, (other - base) % size) for other in others)


def circular_record(size):
    record = Record("A" * size)
    record.add_annotation("topology", "circular")
    return record


def fmt(found):
    """ compact text for a set of bases """
    if not found:
        return "{}"
    ordered = sorted(found)
    runs = []
    start = prev = ordered[0]
    for base in ordered[1:]:
        if base != prev + 1:
            runs.append((start, prev))
            start = base
        prev = base
    runs.append((start, prev))
    return "{" + ",".join(f"{a}" if a == b else f"{a}..{b}" for a, b in runs) + "}"


# ------------------------------------------------------------------ defect A
def defect_extend_fills_intron():
    """ Record.extend_location(): an origin-spanning multi-part location whose two
        extensions meet is replaced by the whole record, including the gaps
        *inside* the location, however far those are from any of its bases
    """
    cases = [
        # (record length, parts in transcript order, strand, distance)
        (8, [(3, 4), (0, 1)], 1, 1),       # minimal with a distance > 0
        (4, [(2, 3), (0, 2)], 1, 0),       # minimal: extending by 0 adds a base
        (100, [(40, 50), (0, 10)], 1, 15),  # larger, with the metamorphic check below
        (100, [(0, 10), (40, 50)], -1, 15),  # reverse strand twin
    ]
    lines = []
    for size, coords, strand, distance in cases:
        record = circular_record(size)
        location = CompoundLocation([FeatureLocation(s, e, strand) for s, e in coords])
        assert location.crosses_origin()
        own = bases(location)
        result = record.extend_location(location, distance)
        covered = bases(result)
        # the most generous reading of "the bases within the distance": every base
        # no further than `distance` steps from some base of the location
        allowed = {base for base in range(size) if ring_distance(base, own, size) <= distance}
        too_far = covered - allowed
        if too_far:
            lines.append(
                f"ring {size}, {location} extended by {distance} -> {result}; bases {fmt(too_far)} are "
                f"more than {distance} from every base of the location (at most {fmt(allowed)} may be covered)"
            )
    # metamorphic confirmation: the same gene rotated so that it no longer spans the
    # origin is extended correctly, extension must commute with rotation
    size, distance, shift = 100, 15, 40
    record = circular_record(size)
    location = CompoundLocation([FeatureLocation(40, 50, 1), FeatureLocation(0, 10, 1)])
    direct = bases(record.extend_location(location, distance))
    rotated = offset_location(location, -shift, wrap_point=size)   # join{[0:10], [60:70]}
    via_rotation = {(base + shift) % size for base in bases(record.extend_location(rotated, distance))}
    previous = bases(record.extend_location(location, distance - 1))
    if direct != via_rotation:
        lines.append(
            f"ring {size}: extending {location} by {distance} covers {len(direct)} bases {fmt(direct)}, but rotating "
            f"it by -{shift} ({rotated}), extending and rotating back covers {len(via_rotation)} bases "
            f"{fmt(via_rotation)}; by {distance - 1} the direct result is still {fmt(previous)}"
        )
    if lines:
        report("Record.extend_location() of an origin-spanning location with an interior gap returns the "
               "whole record as soon as its two extensions meet (expected: only the bases within the distance): "
               + " || ".join(lines))


# ------------------------------------------------------------------ defect B
def defect_offset_zero_length():
    """ offset_location(): a between-bases site (GenBank '50^51', read by Biopython
        and accepted by secmet as the empty location [50:50]) cannot be shifted at all
    """
    lines = []
    for wrap in (None, 100):
        site = FeatureLocation(10, 10, 1)
        try:
            result = offset_location(site, 5, wrap_point=wrap)
        except AssertionError as err:
            lines.append(f"offset_location([10:10](+), 5, wrap_point={wrap}) raises AssertionError({err}) "
                         "(expected [15:15](+): no bases, same length 0, same strand)")
            continue
        if (int(result.start), int(result.end), result.strand) != (15, 15, 1) or len(result.parts) != 1:
            lines.append(f"offset_location([10:10](+), 5, wrap_point={wrap}) gives {result} (expected [15:15](+))")

    # the same thing end to end: the GenBank file of a region crossing the origin
    # cannot be written when a site feature lies after the origin
    try:
        from Bio.Seq import Seq
        from Bio.SeqFeature import Location as BioLocation, SeqFeature
        from Bio.SeqRecord import SeqRecord
        from antismash.common.secmet.features import SubRegion

        def write_region(site_text):
            bio = SeqRecord(Seq("ATGC" * 250), id="demo", name="demo",
                            annotations={"molecule_type": "DNA", "topology": "circular"})
            bio.features.append(SeqFeature(BioLocation.fromstring(site_text, 1000, True), type="misc_feature"))
            record = Record.from_biopython(bio, taxon="bacteria")
            area = CompoundLocation([FeatureLocation(900, 1000, 1), FeatureLocation(0, 100, 1)])
            record.add_subregion(SubRegion(area, tool="demo"))
            record.create_regions()
            with tempfile.TemporaryDirectory() as directory:
                record.get_regions()[0].write_to_genbank(filename="region.gbk", directory=directory)
                with open(os.path.join(directory, "region.gbk"), encoding="utf-8") as handle:
                    return [line.strip() for line in handle if "misc_feature" in line]

        control = write_region("50..51")   # an ordinary two-base feature at the same place works
        try:
            written = write_region("50^51")
            if written != ["misc_feature    150^151"]:
                lines.append(f"region GenBank for site 50^51 in a region join(901..1000,1..100): {written} "
                             "(expected misc_feature 150^151)")
        except AssertionError:
            lines.append("end to end: Region.write_to_genbank() for the region join(901..1000,1..100) of a circular "
                         "1000 bp record dies with AssertionError in offset_location() when the record has "
                         f"'misc_feature 50^51' (with 'misc_feature 50..51' it writes {control})")
    except Exception as err:  # pylint: disable=broad-except
        lines.append(f"(end to end reproduction not possible here: {err!r})")

    if lines:
        report("offset_location() cannot shift a zero-length (between-bases site) location: " + " || ".join(lines))


# ------------------------------------------------------------------ defect C
def defect_offset_length_shortcut():
    """ offset_location(): 'the location covers the whole record' is decided by
        len(location) == wrap_point, but len() is the sum of the part lengths, so a
        location with slightly overlapping exons (tolerated by antiSMASH for
        frameshifts / ribosomal slippage) can have that length without covering
        the record, and is then not shifted at all
    """
    lines = []
    cases = [
        (4, [(0, 2), (1, 3)], 1, 1),
        (10, [(0, 6), (4, 8)], 1, 3),
        (10, [(4, 8), (0, 6)], -1, -2),
    ]
    for size, coords, strand, offset in cases:
        location = CompoundLocation([FeatureLocation(s, e, strand) for s, e in coords])
        expected = {(base + offset) % size for base in bases(location)}
        result = offset_location(location, offset, wrap_point=size)
        if bases(result) != expected:
            lines.append(f"ring {size}, {location} (bases {fmt(bases(location))}) shifted by {offset} -> {result} "
                         f"covering {fmt(bases(result))}, expected {fmt(expected)}")
    if lines:
        report("offset_location() leaves a location unshifted when the sum of its part lengths equals the record "
               "length although it does not cover the record (overlapping exons): " + " || ".join(lines))


def main():
    defect_extend_fills_intron()
    defect_offset_zero_length()
    defect_offset_length_shortcut()
    if not VIOLATIONS:
        print("NOTHING FOUND")
        return 0
    return 1


if __name__ == "__main__":
    sys.exit(main())
