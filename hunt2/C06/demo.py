""" C06 hunt 2 - demo of what is left.

    Run as: cd <repo root> && PYTHONPATH=<repo root> /venv/bin/python SEED/demo.py

    Reference used for judging: every location is turned into its set of base
    positions; two regions overlap iff their sets intersect.
"""

import logging
import sys

logging.disable(logging.CRITICAL)

from antismash.common.secmet.features import Protocluster, Region, SubRegion
from antismash.common.secmet.locations import CompoundLocation, FeatureLocation
from antismash.common.secmet.test.helpers import DummyRecord


def mkloc(start, end, length):
    if start < end:
        return FeatureLocation(start, end, 1)
    return CompoundLocation([FeatureLocation(start, length, 1), FeatureLocation(0, end, 1)])


def bases(location):
    found = set()
    for part in location.parts:
        found.update(range(part.start, part.end))
    return found


def try_order(arcs, length=12):
    """ Adds one region per arc, in the given order, to a fresh circular record.
        Returns (accepted flags, the record)
    """
    record = DummyRecord(seq="A" * length, circular=True)
    flags = []
    for start, end in arcs:
        sub = SubRegion(mkloc(start, end, length), tool="demo")
        record.add_subregion(sub)
        try:
            record.add_region(Region([], [sub]))
            flags.append(True)
        except ValueError:
            flags.append(False)
    return flags, record


def defect_add_region():
    """ add_region() stops checking for overlaps at the position the new region
        sorts to; an origin-crossing region sorts first, so only the first
        existing region is ever checked
    """
    lines = []
    arcs = [(3, 4), (8, 12), (10, 2)]   # ring of 12: [3:4), [8:12), join{[10:12),[0:2)}
    # reference: which should be accepted, judged on sets of bases
    accepted_sets = []
    expected = []
    for start, end in arcs:
        current = bases(mkloc(start, end, 12))
        fine = all(not current & other for other in accepted_sets)
        expected.append(fine)
        if fine:
            accepted_sets.append(current)
    actual, record = try_order(arcs)
    regions = record.get_regions()
    overlapping = [(str(a.location), str(b.location)) for i, a in enumerate(regions) for b in regions[i + 1:]
                   if bases(a.location) & bases(b.location)]
    # the same three in another order, for the contrast
    reverse_flags, _ = try_order([(10, 2), (3, 4), (8, 12)])
    if actual != expected or overlapping:
        lines.append(
            "VIOLATION: Record.add_region() on a circular record of 12 with regions [3:4) and [8:12) present: "
            "adding region join{[10:12),[0:2)}, which shares bases 10-11 with [8:12), "
            f"expected ValueError('regions cannot overlap') (accept flags {expected}), "
            f"actual accept flags {actual}; get_regions() now holds overlapping regions {overlapping}; "
            f"the same three regions added as cross-origin first are judged {reverse_flags} "
            "(only the first existing region is checked against a new origin-crossing region)"
        )
    return lines


def note_recreate():
    """ Not counted as a violation (calling create_regions() while regions exist is
        arguably misuse), but recorded: the natural 'clear and re-create' history fails
        because clear_candidate_clusters() silently re-creates the regions itself.
    """
    record = DummyRecord(seq="A" * 36, circular=False)
    record.add_protocluster(Protocluster(FeatureLocation(12, 13), FeatureLocation(10, 20), "t", "a", 1, 1, "rule"))
    sub = SubRegion(FeatureLocation(2, 6, 1), tool="demo")
    record.add_subregion(sub)
    record.create_candidate_clusters()
    record.create_regions()
    record.clear_candidate_clusters()   # re-creates a region for the subregion on its own
    record.create_candidate_clusters()
    try:
        record.create_regions()
    except ValueError as err:
        stale = sub.parent is not None and not any(sub.parent is region for region in record.get_regions())
        return [f"NOTE (not counted): addP, addS, createC, createR, clearC, createC, createR -> create_regions() raised "
                f"ValueError({err}); the subregion's parent is now a Region that is not in the record: {stale}"]
    return []


def main():
    lines = defect_add_region()
    notes = note_recreate()
    for line in lines + notes:
        print(line)
    if lines:
        return 1
    print("NOTHING FOUND")
    return 0


if __name__ == "__main__":
    sys.exit(main())
