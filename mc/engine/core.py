"""Runner shared by all checks.

A property module (mc.props.cNN) provides

    ID, LEVEL, RULE, ASSUMPTIONS
    shards(tier)        -> list of picklable shard descriptors (a partition of the case space)
    run_shard(shard)    -> Result   (executes every case of the shard on the real code)
    replay(case)        -> list of (clause, detail) for one case (dict from a replay file)
    REQUIRED_BUCKETS    -> optional {tier: [bucket names that must be non-zero]}  (vacuity self-test)
    finalize(cov, tier) -> optional hook to add coverage keys

The runner shards over processes, classifies failures against KNOWN_FINDINGS.txt,
writes evidence and replay artefacts and decides the exit code.
Exit: 0 held / only known findings, 1 violation(s), 2 harness error.
"""
from __future__ import annotations

import collections
import gzip
import hashlib
import importlib
import json
import multiprocessing
import os
import random
import subprocess
import sys
import time
import traceback

ROOT = os.path.dirname(os.path.dirname(os.path.dirname(os.path.abspath(__file__))))
MAX_DETAILED = 40          # unknown failures kept with detail per shard
MAX_REPLAYS = 10           # replay files written per run


class Result:
    """What one shard reports back."""
    __slots__ = ("evals", "nontrivial", "outcomes", "buckets", "failures", "samples", "extra",
                 "known", "overflow", "all_failures", "clauses")

    def __init__(self) -> None:
        self.evals = 0
        self.nontrivial = 0
        self.outcomes: collections.Counter = collections.Counter()
        self.buckets: collections.Counter = collections.Counter()
        self.failures: list = []       # (case, clause, detail) for unknown failures
        self.samples: list = []
        self.extra: dict = {}          # summed numerically by the runner
        self.known: collections.Counter = collections.Counter()
        self.overflow = 0
        self.clauses: collections.Counter = collections.Counter()   # unknown failures per clause
        self.all_failures: list | None = None   # (key, clause) when dumping

    def fail(self, case, clause: str, detail=None) -> None:
        """case: JSON-able description sufficient for replay(); clause: which part
        of the oracle failed."""
        key = case_key(case)
        if _DUMP:
            if self.all_failures is None:
                self.all_failures = []
            self.all_failures.append((key, clause, case if len(self.all_failures) < 100000 else None))
        fid = _KNOWN.get((key, clause))
        if fid is not None:
            self.known[fid] += 1
            return
        self.clauses[clause] += 1
        if self.clauses[clause] <= 5 and len(self.failures) < MAX_DETAILED:
            self.failures.append((case, clause, detail))
        else:
            self.overflow += 1

    def sample(self, case, limit: int = 3) -> None:
        if len(self.samples) < limit:
            self.samples.append(case)


def case_key(case) -> str:
    """Canonical key of a case: compact JSON (sorted keys)."""
    if isinstance(case, str):
        return case
    return json.dumps(case, sort_keys=True, separators=(",", ":"), default=str)


_KNOWN: dict = {}
_DUMP = False
_FINDINGS: dict = {}


def load_known(prop_id: str) -> None:
    """Parses KNOWN_FINDINGS.txt; loads the exact case lists of open findings of prop_id."""
    _KNOWN.clear()
    _FINDINGS.clear()
    path = os.path.join(ROOT, "KNOWN_FINDINGS.txt")
    if not os.path.exists(path):
        return
    with open(path, encoding="utf-8") as handle:
        for line in handle:
            line = line.strip()
            if not line or line.startswith("#"):
                continue
            status, _, rest = line.partition(":")
            status = status.strip()
            if status != "open":
                continue
            head, _, desc = rest.partition("::")
            fields = dict(f.split("=", 1) for f in head.split())
            if fields.get("property") != prop_id:
                continue
            fid = fields["id"]
            _FINDINGS[fid] = desc.strip()
            cases = os.path.join(ROOT, fields["cases"])
            with gzip.open(cases, "rt", encoding="utf-8") as cz:
                for cline in cz:
                    cline = cline.rstrip("\n")
                    if not cline:
                        continue
                    key, _, clause = cline.rpartition("\t")
                    _KNOWN[(key, clause)] = fid


def _run_one(args):
    modname, shard = args
    mod = importlib.import_module(modname)
    try:
        res = mod.run_shard(shard)
    except Exception:   # harness error, never a verdict
        return ("error", shard, traceback.format_exc())
    return ("ok", shard, res)


def repo_head() -> str:
    try:
        out = subprocess.run(["git", "-C", "/repo", "rev-parse", "HEAD"], capture_output=True, text=True, check=False)
        dirty = subprocess.run(["git", "-C", "/repo", "status", "--porcelain", "-uno"], capture_output=True, text=True, check=False)
        return out.stdout.strip() + ("+dirty" if dirty.stdout.strip() else "")
    except OSError:
        return "unknown"


def run_check(prop_id: str, tier: str, dump_path: str | None = None) -> int:
    global _DUMP
    start = time.time()
    seed = int(os.environ.get("VERIF_SEED", "0") or 0)
    modname = f"mc.props.{prop_id.lower()}"
    mod = importlib.import_module(modname)
    load_known(prop_id)
    _DUMP = dump_path is not None
    shards = list(mod.shards(tier))
    # VERIF_SEED only rotates the order in which shards are handed out
    if not getattr(mod, "KEEP_SHARD_ORDER", False):
        random.Random(seed).shuffle(shards)
    workers = int(os.environ.get("VERIF_WORKERS", "0") or 0) or min(16, os.cpu_count() or 1)
    workers = max(1, min(workers, len(shards)))
    results = []
    if workers == 1 or getattr(mod, "SERIAL", False):
        for shard in shards:
            results.append(_run_one((modname, shard)))
    else:
        ctx = multiprocessing.get_context("fork")
        with ctx.Pool(workers, maxtasksperchild=getattr(mod, "MAXTASKS", None)) as pool:
            for item in pool.imap_unordered(_run_one, [(modname, s) for s in shards], chunksize=1):
                results.append(item)
    errors = [r for r in results if r[0] == "error"]
    if errors:
        for _, shard, tb in errors[:3]:
            sys.stderr.write(f"HARNESS ERROR in shard {shard!r}:\n{tb}\n")
        return 2
    # deterministic merge order regardless of completion order
    results.sort(key=lambda r: case_key(r[1]))
    evals = nontrivial = overflow = 0
    outcomes: collections.Counter = collections.Counter()
    buckets: collections.Counter = collections.Counter()
    known: collections.Counter = collections.Counter()
    clauses: collections.Counter = collections.Counter()
    extra: collections.Counter = collections.Counter()
    extra_other: dict = {}
    failures = []
    samples = []
    dumped = []
    for _, shard, res in results:
        evals += res.evals
        nontrivial += res.nontrivial
        outcomes.update(res.outcomes)
        buckets.update(res.buckets)
        known.update(res.known)
        clauses.update(res.clauses)
        overflow += res.overflow
        failures.extend(res.failures)
        for key, val in res.extra.items():
            if isinstance(val, (int, float)) and not isinstance(val, bool):
                extra[key] += val
            else:
                extra_other.setdefault(key, val)
        if len(samples) < 6:
            samples.extend(res.samples[:2])
        if res.all_failures:
            dumped.extend(res.all_failures)
    if dump_path:
        dumped.sort(key=lambda x: (x[0], x[1]))
        opener = gzip.open if dump_path.endswith(".gz") else open
        with opener(dump_path, "wt", encoding="utf-8") as handle:
            for key, clause, _ in dumped:
                handle.write(f"{key}\t{clause}\n")
        by_clause = collections.Counter(c for _, c, _ in dumped)
        print(f"dumped {len(dumped)} failing (case, clause) pairs to {dump_path}: {dict(by_clause)}")
    # vacuity self-test
    missing = [b for b in getattr(mod, "REQUIRED_BUCKETS", {}).get(tier, []) if not buckets.get(b)]
    n_viol = len(failures) + overflow
    coverage = {
        "evaluations": evals,
        "distinct_nontrivial": nontrivial,
        "rule": mod.RULE,
        "samples": samples[:6],
        "exhaustive": True,
        "bound": getattr(mod, "BOUNDS", {}).get(tier, ""),
        "shards": len(shards),
        "distinct_outcomes": len(outcomes),
        "outcome_histogram": {str(k): v for k, v in outcomes.most_common(25)},
        "buckets": dict(sorted(buckets.items())),
        "known_findings_matched": dict(known),
        "violations_per_clause": dict(clauses),
        "repo_head": repo_head(),
    }
    coverage.update({k: (int(v) if float(v).is_integer() else v) for k, v in extra.items()})
    coverage.update(extra_other)
    if hasattr(mod, "finalize"):
        mod.finalize(coverage, tier)
    evidence = {
        "property_id": prop_id,
        "tier": tier,
        "seed": seed,
        "level": mod.LEVEL,
        "coverage": coverage,
        "assumptions": list(mod.ASSUMPTIONS),
        "wall_s": round(time.time() - start, 2),
        "violations": n_viol,
    }
    os.makedirs(os.path.join(ROOT, "evidence"), exist_ok=True)
    ev_path = os.path.join(ROOT, "evidence", f"{prop_id}.json")
    with open(ev_path, "w", encoding="utf-8") as handle:
        json.dump(evidence, handle, indent=1, sort_keys=True, default=str)
        handle.write("\n")
    validate_evidence(ev_path)
    for fid, count in sorted(known.items()):
        print(f"KNOWN-FINDING: property={prop_id} {fid} ({count} listed cases reproduced) {_FINDINGS.get(fid, '')}")
    print(f"{prop_id} {tier}: evaluations={evals} distinct_nontrivial={nontrivial} outcomes={len(outcomes)} "
          f"known={sum(known.values())} violations={n_viol} wall={evidence['wall_s']}s")
    if missing and not n_viol:
        sys.stderr.write(f"HARNESS ERROR: vacuity self-test failed, empty buckets: {missing}\n")
        return 2
    if missing:
        # a code change can legitimately empty a bucket; with violations to report the verdict is the violations
        print(f"   note: coverage buckets empty on this tree: {missing}")
    if n_viol:
        rdir = os.path.join(ROOT, "replays", prop_id)
        os.makedirs(rdir, exist_ok=True)
        failures.sort(key=lambda f: (len(case_key(f[0])), case_key(f[0]), f[1]))
        seen_clause: collections.Counter = collections.Counter()
        written = 0
        for case, clause, detail in failures:
            if written >= MAX_REPLAYS:
                break
            if seen_clause[clause] >= 3:
                continue
            seen_clause[clause] += 1
            digest = hashlib.sha1((case_key(case) + clause).encode()).hexdigest()[:12]
            path = os.path.join(rdir, f"{digest}.json")
            with open(path, "w", encoding="utf-8") as handle:
                json.dump({"property": prop_id, "case": case, "clause": clause, "detail": detail,
                           "repo_head": coverage["repo_head"], "tier": tier}, handle, indent=1, default=str)
            print(f"VIOLATION property={prop_id} replay={path}")
            print(f"   clause={clause} case={case_key(case)[:300]} detail={str(detail)[:300]}")
            written += 1
        print(f"   total unknown failing (case, clause) pairs: {n_viol}; per clause: {dict(clauses.most_common())}")
        return 1
    return 0


def validate_evidence(path: str) -> None:
    try:
        import jsonschema
    except ImportError:
        return
    schema_path = "/root/.vp/EVIDENCE.schema.json"
    if not os.path.exists(schema_path):
        schema_path = os.path.join(ROOT, "mc", "EVIDENCE.schema.json")
    if not os.path.exists(schema_path):
        return
    with open(schema_path, encoding="utf-8") as handle:
        schema = json.load(handle)
    with open(path, encoding="utf-8") as handle:
        jsonschema.validate(json.load(handle), schema)


def run_replay(prop_id: str, path: str) -> int:
    mod = importlib.import_module(f"mc.props.{prop_id.lower()}")
    with open(path, encoding="utf-8") as handle:
        data = json.load(handle)
    case = data["case"]
    first = mod.replay(case)
    second = mod.replay(case)
    if [c for c, _ in first] != [c for c, _ in second]:
        sys.stderr.write(f"HARNESS ERROR: replay not deterministic: {first!r} vs {second!r}\n")
        return 2
    if first:
        for clause, detail in first:
            print(f"VIOLATION property={prop_id} replay={path}")
            print(f"   clause={clause} detail={str(detail)[:500]}")
        return 1
    print(f"{prop_id}: case in {path} holds on this tree")
    return 0
