"""E3: deviation-bounded exploration of a run that is a function of a list of choice indices (stateless).

explore(run, bound): runs with all defaults (choice 0 everywhere), then with every single deviation at every recorded
choice point, then every pair, ... up to `bound` deviations (iterative context bounding applied to nondeterministic
choices). A replayed prefix that no longer fits the recorded arities is a hard error (Scheduler.choose raises).
"""


def explore(run, scheduler, bound, max_runs=None):
    """run() -> observable outcome (hashable/comparable); uses scheduler.choose() internally.
    Yields (schedule, outcome) for every explored schedule. Schedules are the full choice lists actually taken."""
    stack = [([], 0)]     # (prefix, deviations used)
    seen = set()
    runs = 0
    while stack:
        prefix, used = stack.pop()
        scheduler.reset(prefix)
        outcome = run()
        points = list(scheduler.points)
        taken = list(prefix) + [0] * (len(points) - len(prefix))
        taken = taken[:len(points)]
        key = tuple(taken)
        if key in seen:
            continue
        seen.add(key)
        runs += 1
        yield taken, points, outcome
        if max_runs is not None and runs >= max_runs:
            return
        if used >= bound:
            continue
        for i in range(len(prefix), len(points)):
            for alt in range(1, points[i]):
                stack.append((taken[:i] + [alt], used + 1))
