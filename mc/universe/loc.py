"""Ring/line location universe and compact, parser-independent encoding.

Encoding: strand sign then parts in stored order, e.g. "+3:7", "+5:7|0:2", "-0:2|5:7", "?1:4" (strand None)
"""
from antismash.common.secmet.locations import FeatureLocation as F, CompoundLocation as C

_SIGN = {1: "+", -1: "-", 0: "0", None: "?"}
_STRAND = {v: k for k, v in _SIGN.items()}


def enc(loc) -> str:
    return _SIGN[loc.strand if len({p.strand for p in loc.parts}) == 1 else None] + \
        "|".join(f"{int(p.start)}:{int(p.end)}" for p in loc.parts)


def dec(text: str):
    strand = _STRAND[text[0]]
    parts = [F(int(s), int(e), strand) for s, e in (p.split(":") for p in text[1:].split("|"))]
    return parts[0] if len(parts) == 1 else C(parts)


def simple(L, strand=1):
    return [F(s, e, strand) for s in range(L) for e in range(s + 1, L + 1)]


def bridging(L, strand=1):
    """two-part origin-spanning, never self-overlapping: [s,L)+[0,e) with 0<e<=s<L"""
    out = []
    for s in range(1, L):
        for e in range(1, s + 1):
            parts = [F(s, L, strand), F(0, e, strand)]
            if strand == -1:
                parts.reverse()
            out.append(C(parts))
    return out


def u_loc(L, strands=(1,), with_bridging=True):
    out = []
    for st in strands:
        out.extend(simple(L, st))
        if with_bridging:
            out.extend(bridging(L, st))
    return out


def ring_loc(s, length, L, strand=1):
    """location of `length` bases starting at s (mod L), wrapping if needed"""
    s %= L
    e = s + length
    if e <= L:
        return F(s, e, strand)
    parts = [F(s, L, strand), F(0, e - L, strand)]
    if strand == -1:
        parts.reverse()
    return C(parts)
