"""Gene worlds: a focus gene and 1-2 neighbours at boundary distances, on real Records.

A world is JSON-able: {"L": 60, "circ": bool, "genes": [[name, enc(location)], ...]}
Hit assignments are separate: {gene: {profile: score}}.
"""
import itertools

from Bio.Seq import Seq

from antismash.common.secmet import Record
from antismash.common.secmet.features import CDSFeature

from mc.ref import bases as R
from mc.universe.loc import dec, enc, ring_loc

GENE_LEN = 3


def make_record(L, circular, seq=None):
    rec = Record(Seq(seq or ("A" * L)))
    rec.id = rec.name = "rec"
    rec.add_annotation("topology", "circular" if circular else "linear")
    return rec


def make_cds(loc, name):
    return CDSFeature(loc, "M" * max(1, len(loc) // 3), locus_tag=name)


def build_world(world):
    """-> (record, {name: CDSFeature}) ; genes added in the given order"""
    rec = make_record(world["L"], world["circ"])
    feats = {}
    for name, text in world["genes"]:
        feat = make_cds(dec(text), name)
        rec.add_cds_feature(feat)
        feats[name] = feat
    return rec, feats


def near_relation(world, cutoff):
    """{gene: [other genes whose set-of-bases distance is < cutoff]}"""
    L, circ = world["L"], world["circ"]
    sets = {name: R.bases(dec(text)) for name, text in world["genes"]}
    out = {}
    for g in sets:
        out[g] = [h for h in sets if h != g and R.distance(sets[g], sets[h], L, circ) < cutoff]
    return out


def gap_alphabet(cutoffs):
    gaps = {-1, 0}
    for c in cutoffs:
        gaps.update({c - 1, c, c + 1})
    return sorted(g for g in gaps if g >= -1)


def placements(L, circ, focus_start, gaps, strand=1):
    """neighbour locations at each gap to the left / right of the focus gene [focus_start, +GENE_LEN)"""
    out = []
    for side in (-1, 1):
        for gap in gaps:
            if side == 1:
                start = focus_start + GENE_LEN + gap
            else:
                start = focus_start - gap - GENE_LEN
            if circ:
                out.append(ring_loc(start, GENE_LEN, L, strand))
            elif 0 <= start and start + GENE_LEN <= L:
                out.append(ring_loc(start, GENE_LEN, L, strand))
    return out


def worlds(n_neighbours, cutoffs, L=60):
    """focus gene g + n neighbours h1..hn at every boundary gap on either side; line, ring interior,
    ring with the neighbour / the focus across or on the origin"""
    gaps = gap_alphabet(cutoffs)
    seen = set()
    for circ, starts in ((False, (20, 0, L - GENE_LEN)), (True, (20, 1, L - 2, L - GENE_LEN))):
        for fstart in starts:
            focus = ring_loc(fstart, GENE_LEN, L, 1)
            options = placements(L, circ, fstart, gaps, strand=-1 if fstart % 2 else 1)
            for combo in itertools.combinations(options, n_neighbours):
                genes = [["g", enc(focus)]] + [[f"h{i + 1}", enc(loc)] for i, loc in enumerate(combo)]
                key = (circ, tuple(x[1] for x in genes))
                if key in seen:
                    continue
                seen.add(key)
                yield {"L": L, "circ": circ, "genes": genes}


# scores for profile a: below / exactly at / above the minscore threshold (5)
HIT_MENU_FULL = [dict(zip("abc", v)) for v in itertools.product((None, 3, 5, 7), (None, 1), (None, 1))]
HIT_MENU_FULL = [{k: v for k, v in h.items() if v is not None} for h in HIT_MENU_FULL]
HIT_MENU_SMALL = [{}, {"a": 3}, {"a": 5}, {"a": 7}, {"b": 1}, {"a": 7, "b": 1}, {"c": 1}]
# a gene hit twice by the same profile: the value under the plain name is the best score, ">a"/"<a" is a second, weaker hit of "a"
# listed after/before it (the reference reads only plain names: a profile hits a gene, and with which best score)
HIT_MENU_DUP = [{"a": 7, ">a": 3}, {"a": 7, "<a": 3}, {"a": 7, ">a": 3, "b": 1}, {"a": 3, ">a": 3}]
