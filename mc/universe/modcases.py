"""Results of analysis modules whose external tools are not available offline, filled from hand-made hit tables the way the
modules' own analysis functions fill them (C17: their saved form must not depend on set iteration order)."""
import json


class _HSP:  # the attributes gather_by_query() reads from a Bio HSP
    def __init__(self, query_id, hit_id, start, end, evalue, bitscore):
        self.query_id = query_id
        self.hit_id = hit_id
        self.query_start = start
        self.query_end = end
        self.evalue = evalue
        self.bitscore = bitscore


class _QueryResult:
    def __init__(self, hsps):
        self.hsps = hsps


def terpene_prediction():
    """overlapping hits of one gene against the module's real profile data: the general prenyltransferase profile with a
    subtype profile, and three sibling cyclase subtypes"""
    from antismash.modules.terpene.data_loader import load_hmm_properties, load_hmm_lengths  # pylint: disable=import-outside-toplevel
    from antismash.modules.terpene import terpene_analysis as ta  # pylint: disable=import-outside-toplevel
    props = load_hmm_properties()
    lengths = load_hmm_lengths(props)
    hsps = [_HSP("cdsA", "PT_FPPS_like", 5, 290, 1e-50, 200.), _HSP("cdsA", "PT_noFPP_bact", 5, 260, 1e-90, 400.),
            _HSP("cdsC", "T1TS_Bas_a", 10, 300, 1e-50, 400.), _HSP("cdsC", "T1TS_Bas_b", 10, 300, 1e-50, 390.),
            _HSP("cdsC", "T1TS_CEABS", 10, 300, 1e-50, 380.)]
    refined = ta.filter_incomplete([_QueryResult(hsps)], lengths)
    refined = ta.filter_by_score(refined, props)
    prediction = ta.get_cluster_prediction(ta.get_cds_predictions(refined, props))
    return json.dumps(prediction.to_json())


def terpene_hits_kept():
    """two equal-start, equal-score fragments of equally long profiles, both too short to count as complete"""
    from antismash.modules.terpene.data_loader import load_hmm_properties, load_hmm_lengths  # pylint: disable=import-outside-toplevel
    from antismash.modules.terpene import terpene_analysis as ta  # pylint: disable=import-outside-toplevel
    lengths = load_hmm_lengths(load_hmm_properties())
    hsps = [_HSP("cdsD", "PT_noFPP_bact", 10, 110, 1e-50, 400.), _HSP("cdsD", "PT_FPP_bact", 10, 110, 1e-50, 400.)]
    refined = ta.filter_incomplete([_QueryResult(hsps)], lengths)
    return json.dumps({name: [hit.hit_id for hit in hits] for name, hits in refined.items()})


def t2pks_classes():
    """a chain length factor predicted as 8|9 with a C7-C12 cyclase: four product classes"""
    from antismash.modules.t2pks.results import CDSPrediction, ProtoclusterPrediction  # pylint: disable=import-outside-toplevel
    from antismash.modules.t2pks.t2pks_analysis import predict_product_class  # pylint: disable=import-outside-toplevel
    preds = {"clf": [CDSPrediction("CLF", "8|9", 500., 1e-100)], "cyc": [CDSPrediction("CYC", "C7-C12", 300., 1e-80)]}
    prediction = ProtoclusterPrediction(preds, [], [], predict_product_class(preds), {}, 0, 100)
    return json.dumps(prediction.to_json())


def ripp_clusters():
    """a RiPP protocluster with three precursors, as run_specific_analysis() registers them"""
    from antismash.modules.lanthipeptides.specific_analysis import LanthiResults  # pylint: disable=import-outside-toplevel
    from antismash.modules.lassopeptides.specific_analysis import LassoResults  # pylint: disable=import-outside-toplevel
    from antismash.modules.sactipeptides.specific_analysis import SactiResults  # pylint: disable=import-outside-toplevel
    from antismash.modules.thiopeptides.specific_analysis import ThioResults  # pylint: disable=import-outside-toplevel
    from mc.universe import protos as P  # pylint: disable=import-outside-toplevel
    from mc.universe import worlds as W  # pylint: disable=import-outside-toplevel
    from antismash.common.secmet.locations import FeatureLocation  # pylint: disable=import-outside-toplevel
    out = {}
    for cls in (LanthiResults, LassoResults, SactiResults):
        results = cls("rec")
        for locus in ("allorf_00100_00250", "nisA", "precursor_B"):
            results.clusters[1].add(locus)
        # new ORFs found by the module (precursors are mostly unannotated), to be added to the record
        for i, start in enumerate((30, 3, 18)):
            results.add_cds(W.make_cds(FeatureLocation(start, start + 9, 1), f"allorf_{i}"))
        saved = results.to_json()
        rec, _ = P.make_slotted_record(8, False, {}, with_genes=False)
        results.add_to_record(rec)
        out[cls.__name__] = [saved["protoclusters"], saved["new_cds_features"], [cds.get_name() for cds in rec.get_cds_features()]]
    # thiopeptides: the protoclusters in which motifs were found
    rec, _ = P.make_slotted_record(8, False, P.default_core_functions(8))
    for spec in ([1, 1, 0, 0, "p"], [3, 3, 0, 0, "p"], [5, 5, 0, 0, "p"]):
        rec.add_protocluster(P.make_protocluster(8 * P.SLOT, False, spec))
    thio = ThioResults(rec.id)
    for proto in (rec.get_protoclusters()[i] for i in (1, 0, 2)):
        thio.clusters_with_motifs.add(proto)
    out["ThioResults"] = thio.to_json()["protoclusters with motifs"]
    return json.dumps(out)


CASES = {"terpene-prediction": terpene_prediction, "terpene-hits-kept": terpene_hits_kept, "t2pks-classes": t2pks_classes,
         "ripp-clusters": ripp_clusters}
