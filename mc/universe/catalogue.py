"""Annotated-record catalogue U_rec (C10, C11, C12): real records built by the real producers.

spec = {"circ": bool, "layout": name, "rules": name|None, "sideload": name|None, "extras": [names]}

Every base record is first written to GenBank and parsed back once (that is how pipeline records are born), then the real
detection, sideloading, candidate/region formation and the requested extra annotations are applied.
"""
import io
import itertools

from Bio import SeqIO
from Bio.Seq import Seq
from Bio.SeqFeature import SeqFeature
from Bio.SeqRecord import SeqRecord

from antismash.common import hmmer
from antismash.common.hmm_rule_parser import cluster_prediction
from antismash.common.hmmscan_refinement import HMMResult
from antismash.common.secmet import Record
from antismash.common.secmet.features import Feature, Prepeptide
from antismash.common.secmet.locations import CompoundLocation as C, FeatureLocation as F
from antismash.common.secmet.qualifiers import GeneFunction
from antismash.detection.nrps_pks_domains import domain_identification
from antismash.detection.sideloader.data_structures import ProtoclusterAnnotation, SideloadedResults, SubRegionAnnotation, Tool
from antismash.modules.tta.tta import TTAResults

from mc.props import c03

L = 240
_CODONS = ["GCT", "AAA", "GAT", "TTA", "CCG", "GGT", "ACG", "TTA", "CAG", "GAA"]


def base_sequence():
    """aperiodic (so extraction equality pins coordinates), with TTA codons in every frame for the TTA module"""
    import random
    rng = random.Random(20240926)
    codons = ["GCT", "AAA", "GAT", "TTA", "CCG", "GGT", "ACG", "CAG", "GAA", "TCC", "ATC", "CTG"]
    return "".join(rng.choice(codons) for _ in range(L // 3))


LAYOUTS = {
    # name: list of (gene name, parts [(start, end)], strand, codon_start or None)
    "plain": [("g0", [(12, 72)], 1, None), ("g1", [(78, 138)], -1, None), ("g2", [(150, 210)], 1, None)],
    "touching": [("g0", [(12, 72)], 1, None), ("g1", [(72, 132)], 1, None), ("g2", [(132, 192)], -1, None)],
    "nested": [("g0", [(12, 132)], 1, None), ("g1", [(42, 102)], -1, None), ("g2", [(150, 210)], 1, None)],
    "multiexon": [("g0", [(12, 42), (51, 81)], 1, None), ("g1", [(90, 120), (129, 159)], -1, None), ("g2", [(171, 231)], 1, None)],
    "codonstart": [("g0", [(12, 72)], 1, 2), ("g1", [(78, 138)], -1, 3), ("g2", [(150, 210)], 1, None)],
    # two genes over the same bases on opposite strands: nothing but the strand tells their positions apart
    "opposite": [("g0", [(12, 72)], 1, None), ("g1", [(12, 72)], -1, None), ("g2", [(150, 210)], 1, None)],
    # a gene long enough for peptide sequences that do not fit on one line of a GenBank file
    "long": [("g0", [(12, 192)], 1, None), ("g1", [(198, 228)], -1, None)],
    # locus tags so long that names derived from them (domain names, cross references) do not fit on one line of a GenBank file
    "longnames": [("g0_" + "n" * 40, [(12, 72)], 1, None), ("g1_" + "n" * 40, [(78, 138)], -1, None), ("g2_" + "n" * 40, [(150, 210)], 1, None)],
    "origin": [("g0", [(12, 72)], 1, None), ("g1", [(78, 138)], -1, None), ("g2", [(210, 240), (0, 30)], 1, None)],
    "origin-reverse": [("g0", [(30, 90)], 1, None), ("g1", [(100, 160)], 1, None), ("g2", [(222, 240), (0, 42)], -1, None)],
    # an origin-spanning gene with genes shortly before and after it and one far away: with the "spread" rules this gives one
    # origin-spanning region holding a pre-origin, an origin-spanning and a post-origin protocluster, and a second region
    "origin-multi": [("g0", [(156, 210)], 1, None), ("g1", [(96, 114)], -1, None), ("g2", [(216, 240), (0, 30)], 1, None),
                     ("g3", [(36, 54)], 1, None)],
    # frame offsets on origin-spanning genes (5' exon before the origin on the forward strand, after it on the reverse strand)
    "origin-codonstart": [("g0", [(12, 72)], 1, None), ("g1", [(78, 138)], -1, 2), ("g2", [(210, 240), (0, 31)], 1, 2)],
    "origin-reverse-codonstart": [("g0", [(30, 90)], 1, 3), ("g1", [(100, 160)], 1, None), ("g2", [(222, 240), (0, 44)], -1, 3)],
}
CIRCULAR_ONLY = {"origin", "origin-reverse", "origin-multi", "origin-codonstart", "origin-reverse-codonstart"}

RULESETS = {
    # (name, cutoff, neighbourhood, tree, superiors, extender)
    "single": [("r1", 30, 9, c03.ID_A, [], None)],
    "twins": [("r1", 30, 9, c03.ID_A, [], None), ("r2", 30, 9, c03.ID_B, [], None)],
    "mixed": [("r1", 45, 6, c03.ID_A, [], None), ("r2", 9, 0, c03.ID_B, [], None),
              ("r3", 45, 21, ["and", [c03.ID_A, c03.ID_B]], [], None)],
    "separate": [("r1", 6, 3, c03.ID_A, [], None)],
    "spread": [("r1", 3, 9, c03.ID_A, [], None), ("r2", 3, 9, c03.ID_B, [], None)],
    # hits but no protocluster anywhere: the two profiles never come within the cutoff of each other
    "unmet": [("r1", 3, 3, ["and", [c03.ID_A, c03.ID_B]], [], None)],
}
HITS = {
    "single": {"g0": {"a": 7}, "g1": {"a": 7}},
    "twins": {"g0": {"a": 7, "b": 7}},
    "mixed": {"g0": {"a": 7, "b": 7}, "g1": {"b": 7}, "g2": {"a": 7}},
    "separate": {"g0": {"a": 7}, "g2": {"a": 7}},
    "spread": {"g0": {"a": 7}, "g1": {"a": 7}, "g2": {"b": 7}, "g3": {"a": 7}},
    "unmet": {"g0": {"a": 7}, "g1": {"b": 7}},
}
TOOL = Tool("side tool", "1.0", "a sideloading tool", {"conf": ["x", "y"]})


def _location(parts, strand):
    pieces = [F(s, e, strand) for s, e in parts]
    if strand == -1:
        pieces = pieces[::-1]
    return pieces[0] if len(pieces) == 1 else C(pieces)


def make_biopython(circular, layout, extras=()):
    """the raw input record, as a file would provide it"""
    rec = SeqRecord(Seq(base_sequence()), id="rec_1", name="rec_1", description="catalogue record")
    rec.annotations["molecule_type"] = "DNA"
    rec.annotations["topology"] = "circular" if circular else "linear"
    for name, parts, strand, codon_start in LAYOUTS[layout]:
        loc = _location(parts, strand)
        coding = len(loc) - ((codon_start or 1) - 1)
        quals = {"locus_tag": [name], "translation": ["M" + "K" * (coding // 3 - 1)]}
        if codon_start:
            quals["codon_start"] = [str(codon_start)]
        if "cdsnote" in extras and name != "g0":
            quals["note"] = ["a note from the input file"]
        rec.features.append(SeqFeature(loc, type="CDS", qualifiers=quals))
        if "gene" in extras:
            rec.features.append(SeqFeature(loc, type="gene", qualifiers={"locus_tag": [name], "gene": [name + "X"]}))
    if "source" in extras:
        rec.features.append(SeqFeature(F(0, L, 1), type="source", qualifiers={"organism": ["test organism"], "mol_type": ["genomic DNA"]}))
    if "two-sources" in extras and "source" not in extras:
        # two source features over the whole record (a record assembled from two organisms' sequences keeps both)
        rec.features.append(SeqFeature(F(0, L, 1), type="source", qualifiers={"organism": ["organism B"], "mol_type": ["genomic DNA"]}))
        rec.features.append(SeqFeature(F(0, L, 1), type="source", qualifiers={"organism": ["organism A"], "mol_type": ["genomic DNA"]}))
    if "misc" in extras:
        rec.features.append(SeqFeature(F(3, 9, 1), type="misc_feature", qualifiers={"note": ["a plain feature"]}))
    return rec


def normalise(bio):
    handle = io.StringIO()
    SeqIO.write([bio], handle, "genbank")
    handle.seek(0)
    return SeqIO.read(handle, "genbank")


def genbank_text(secmet_record):
    bio = secmet_record.to_biopython()
    handle = io.StringIO()
    SeqIO.write([bio], handle, "genbank")
    return "\n".join(line for line in handle.getvalue().splitlines() if not line.startswith("LOCUS"))


def build_record(spec):
    """-> secmet Record with everything the spec asks for (all producers are the real ones)"""
    circular = spec["circ"]
    extras = set(spec.get("extras", ()))
    if "*all*" in extras:
        extras = set(EXTRAS_MENU)     # "everything at once" keeps one name however many extras exist
    bio = normalise(make_biopython(circular, spec["layout"], extras))
    rec = Record.from_biopython(bio, taxon="bacteria")
    rec.record_index = 1
    rules = spec.get("rules")
    if rules:
        present = {name for name, _parts, _strand, _cs in LAYOUTS[spec["layout"]]}
        hits = {gene: table for gene, table in HITS[rules].items() if gene in present}
        ruleset = c03.make_ruleset(RULESETS[rules], hits)
        results = cluster_prediction.detect_protoclusters_and_signatures(rec, ruleset)
        results.annotate_cds_features()
        for proto in results.protoclusters:
            rec.add_protocluster(proto)
    sideload = spec.get("sideload")
    if sideload:
        wrap = L if circular else None
        subs, protos = [], []
        if sideload in ("sub", "both"):
            subs.append(SubRegionAnnotation(6, 141, "anchor", TOOL, {"extra": ["one", "two"]}, circular_origin=wrap))
        if sideload in ("proto", "both"):
            protos.append(ProtoclusterAnnotation(150, 210, "sideprod", TOOL, {"key": ["value"]}, 9, 12, circular_origin=wrap))
        if sideload == "twin-sub":
            subs.append(SubRegionAnnotation(6, 141, "first", TOOL, {}, circular_origin=wrap))
            subs.append(SubRegionAnnotation(6, 141, "second", TOOL, {"k": ["v"]}, circular_origin=wrap))
        if sideload == "two-subs":
            # two subregions far apart: two regions, the later one holding subregion number 2
            subs.append(SubRegionAnnotation(6, 75, "left", TOOL, {}, circular_origin=wrap))
            subs.append(SubRegionAnnotation(147, 213, "right", TOOL, {"k": ["v"]}, circular_origin=wrap))
            protos.append(ProtoclusterAnnotation(150, 210, "sideprod", TOOL, {}, 3, 3, circular_origin=wrap))
        if sideload == "origin-sub" and circular:
            subs.append(SubRegionAnnotation(204, 36, "over origin", TOOL, {}, circular_origin=wrap))
        if sideload == "value-shapes":
            # qualifier value shapes: long text with and without places to wrap it, characters that mean something in GenBank
            # files, padding, an empty value
            subs.append(SubRegionAnnotation(6, 141, "word " * 30, TOOL, {"quoted": ['say "hi"'], "slash": ["/note=fake"], "padded": [" padded "],
                                                                          "empty": [""], "accent": ["caf\u00e9"], "number": ["1e5"]},
                                            circular_origin=wrap))
            protos.append(ProtoclusterAnnotation(150, 210, "sideprod", TOOL, {"two": ["two  spaces", "a=b"]}, 9, 12, circular_origin=wrap))
        if sideload == "unbreakable-values":
            # long values without a space to wrap at (a URL, a SMILES string, a sequence)
            subs.append(SubRegionAnnotation(6, 141, "x" * 130, TOOL, {"url": ["http://example.org/" + "a" * 90], "list": [",".join(["abcdefghij"] * 12)]},
                                            circular_origin=wrap))
        if sideload == "reserved-detail-keys":
            # detail names (free for the annotating tool to choose within the schema's pattern) that are also names of qualifiers
            # antiSMASH writes for the area itself
            subs.append(SubRegionAnnotation(6, 141, "anchor", TOOL, {"label": ["not the label"], "tool": ["x"]}, circular_origin=wrap))
            protos.append(ProtoclusterAnnotation(150, 210, "sideprod", TOOL, {"product": ["other"], "core_location": ["[1:2]"]}, 9, 12,
                                                 circular_origin=wrap))
        if sideload == "identical-areas":
            # annotations that differ only in their details: nothing an ordering can use
            subs.append(SubRegionAnnotation(6, 141, "same", TOOL, {"score": ["1"]}, circular_origin=wrap))
            subs.append(SubRegionAnnotation(6, 141, "same", TOOL, {"score": ["2"]}, circular_origin=wrap))
            protos.append(ProtoclusterAnnotation(150, 210, "sideprod", TOOL, {"score": ["1"]}, 9, 12, circular_origin=wrap))
            protos.append(ProtoclusterAnnotation(150, 210, "sideprod", TOOL, {"score": ["2"]}, 9, 12, circular_origin=wrap))
        if sideload == "strand-tie":
            # (with the 'separate' rules: detected protocluster of g0 with core [12:72) and extent [9:75) on the forward strand)
            # a sideloaded protocluster - no strand - with the same extent and a separate core, and a third one overlapping
            # both so that all three also get a single candidate: two singles equal in everything but the strand attribute
            protos.append(ProtoclusterAnnotation(72, 75, "sideprod", TOOL, {}, 63, 0, circular_origin=wrap))
            protos.append(ProtoclusterAnnotation(80, 90, "third", TOOL, {}, 10, 3, circular_origin=wrap))
        if sideload == "exact-gene-span":
            # (multiexon layout) a region that begins and ends exactly with a spliced gene
            subs.append(SubRegionAnnotation(12, 81, "just the gene", TOOL, {}, circular_origin=wrap))
        if sideload == "around-intron" and circular:
            # (multiexon layout) a region over the origin that leaves out nothing but the intron of g1: [129:240) + [0:120)
            subs.append(SubRegionAnnotation(129, 120, "all but an intron", TOOL, {}, circular_origin=wrap))
        if sideload == "origin-twin-protos" and circular:
            # two protoclusters with the same origin-crossing extent [210:240)+[0:100), one core after and one before the origin,
            # and a third one overlapping them
            protos.append(ProtoclusterAnnotation(10, 20, "post", TOOL, {}, 40, 80, circular_origin=wrap))
            protos.append(ProtoclusterAnnotation(220, 230, "pre", TOOL, {}, 10, 110, circular_origin=wrap))
            protos.append(ProtoclusterAnnotation(120, 130, "other", TOOL, {}, 40, 20, circular_origin=wrap))
        if sideload == "origin-protos" and circular:
            # sideloaded protoclusters around the origin: only the neighbourhood crosses it (either side), the core crosses it
            protos.append(ProtoclusterAnnotation(204, 234, "nbright", TOOL, {}, 9, 12, circular_origin=wrap))
            protos.append(ProtoclusterAnnotation(9, 39, "nbleft", TOOL, {"k": ["v"]}, 15, 3, circular_origin=wrap))
            protos.append(ProtoclusterAnnotation(228, 18, "coreover", TOOL, {}, 6, 3, circular_origin=wrap))
            protos.append(ProtoclusterAnnotation(102, 120, "elsewhere", TOOL, {}, 3, 30, circular_origin=wrap))
        if sideload == "origin-subs" and circular:
            # a pre-origin, an origin-spanning and a post-origin subregion chained into one region, and one elsewhere
            subs.append(SubRegionAnnotation(150, 212, "before", TOOL, {}, circular_origin=wrap))
            subs.append(SubRegionAnnotation(208, 33, "over", TOOL, {"k": ["v"]}, circular_origin=wrap))
            subs.append(SubRegionAnnotation(30, 60, "after", TOOL, {}, circular_origin=wrap))
            subs.append(SubRegionAnnotation(90, 120, "elsewhere", TOOL, {}, circular_origin=wrap))
        SideloadedResults(rec.id, subs, protos).add_to_record(rec)
    rec.create_candidate_clusters()
    rec.create_regions()
    if "pfam" in extras:
        pfam_hits = []
        # value menu: the first gene's hit sits on every "falsy" boundary (protein start 0, e-value 0.0 as HMMer reports for
        # very strong hits, score 0.0), the second gene's hit carries ordinary values
        # identifiers: PF00067 has four GO terms listed in ascending order in the pfam2go mapping, PF00048 three in another order
        for gene, (start, end, evalue, score, ident) in zip(_long_genes(rec.get_cds_features()),
                                                            [(0, 7, 0.0, 0.0, "PF00067.1"), (2, 9, 1e-10, 55.5, "PF00048.2")]):
            loc = gene.get_sub_location_from_protein_coordinates(start, end)
            pfam_hits.append(hmmer.HmmerHit(location=str(loc), label="PFtest", locus_tag=gene.get_name(), domain="p450",
                                            evalue=evalue, score=score, identifier=ident, description="a domain",
                                            protein_start=start, protein_end=end, translation=gene.translation[start:end]))
        hmmer.HmmerResults(rec.id, 0.01, 10.0, "/nonexistent/pfam/31.0/Pfam-A.hmm", "fullhmmer", pfam_hits).add_to_record(rec)
        # the real pfam2go module (pure Python, its mapping file is part of the repository) attaches the GO terms
        from antismash.modules.pfam2go import pfam2go  # pylint: disable=import-outside-toplevel
        pfam2go.Pfam2GoResults(rec.id, pfam2go.get_gos_for_pfams(rec)).add_to_record(rec)
    if "nrps" in extras and rec.get_cds_features_within_regions():
        nrps_results(rec).add_to_record(rec)
    if "nrps-double" in extras and "nrps" not in extras and rec.get_cds_features_within_regions():
        nrps_results(rec, "double").add_to_record(rec)
    if "prepeptide" in extras:
        gene = rec.get_cds_features()[0]
        total = len(gene.location) // 3
        pre = Prepeptide(gene.location, "lanthipeptide", "C" * (total - 8), gene.get_name(), "lanthipeptides", leader="L" * 5, tail="T" * 3,
                         peptide_subclass="Class I", score=12.5, monoisotopic_mass=100.25, molecular_weight=110.5,
                         alternative_weights=[120.5, 130.5])
        rec.add_cds_motif(pre)
    if "prepeptide-long" in extras and "prepeptide" not in extras and len(rec.get_cds_features()[0].location) >= 150:
        # a precursor whose leader (45 residues) is longer than a GenBank line
        gene = rec.get_cds_features()[0]
        total = len(gene.location) // 3
        rec.add_cds_motif(Prepeptide(gene.location, "lassopeptide", "C" * (total - 48), gene.get_name(), "lassopeptides", leader="L" * 45, tail="T" * 3,
                                     peptide_subclass="Class II", score=1.5, monoisotopic_mass=10.25, molecular_weight=11.5))
    if "smiles" in extras and rec.get_candidate_clusters():
        # what the NRPS/PKS structure prediction's results do to a candidate cluster (the module itself needs external tools):
        # only the first candidate cluster gets a structure, the others stay without
        first = rec.get_candidate_clusters()[0]
        first.smiles_structure = "NC(CC(=O)O)C(=O)O"
        first.polymer = "(asp) + (mal)"
    if "smiles-long" in extras and "smiles" not in extras and rec.get_candidate_clusters():
        # a structure longer than a GenBank line (SMILES strings hold no blanks)
        first = rec.get_candidate_clusters()[0]
        first.smiles_structure = "NC(CC(=O)O)C(=O)O" * 6
        first.polymer = "(asp) + (mal)"
    if "smiles-each" in extras and not extras & {"smiles", "smiles-long"}:
        # every candidate cluster with a structure of its own, so that a structure ending up on another candidate shows
        for cand in rec.get_candidate_clusters():
            cand.smiles_structure = "C" * cand.get_candidate_cluster_number() + "O"
            cand.polymer = f"(x{cand.get_candidate_cluster_number()})"
    if "smcog-function" in extras:
        # what smcog classification does to a gene: the description itself has the 'name: text' shape
        gene = rec.get_cds_features()[0]
        gene.gene_functions.add(GeneFunction.TRANSPORT, "smcogs", "SMCOG1000: ABC transporter ATP-binding protein (Score: 50; E-value: 1e-10)")
    if "prepeptide-plain" in extras:
        # a precursor without a subclass, leader or tail (e.g. lassopeptide style), on the last gene
        gene = rec.get_cds_features()[-1] if not rec.get_cds_features()[-1].location.crosses_origin() else rec.get_cds_features()[-2]
        total = len(gene.location) // 3
        rec.add_cds_motif(Prepeptide(gene.location, "lassopeptide", "C" * total, gene.get_name(), "lassopeptides"))
    if "cdsnote" in extras:
        # what smcog_trees' results do to a gene (the module itself needs external tools): a note is appended to the gene;
        # g1 also carries a note of its own from the input file, g0 does not
        for gene in rec.get_cds_features()[:2]:
            gene.notes.append(f"smCOG tree PNG image: smcogs/{gene.get_name()}.png")
    if "tta" in extras and rec.get_regions():
        tta = TTAResults(rec.id, 0.7, 0.65)
        for gene in rec.get_cds_features_within_regions():
            seq = gene.extract(rec.seq)
            for i in range(0, len(seq) - 2, 3):
                if str(seq[i:i + 3]).lower() == "tta":
                    tta.new_feature_from_other(gene, i)
        tta.add_to_record(rec)
    return rec


def _long_genes(genes):
    """the first two genes long enough (18 residues) to carry the fixed domain coordinates"""
    return [g for g in genes if len(g.translation) >= 18][:2]


def nrps_results(rec, variant=None):
    """real generate_domains with the three HMMER look-ups replaced by fixed tables (harness instrumentation);
    variant 'double': a module with two carrier proteins followed by the listed look-ahead pair and a terminating domain"""
    genes = [g.get_name() for g in _long_genes(rec.get_cds_features_within_regions())]
    table = {}
    if genes and variant == "double":
        names = ["PKS_KS", "PKS_AT", "ACP", "ACP", "LPG_synthase_C", "Beta_elim_lyase", "Thioesterase"]
        table[genes[0]] = [HMMResult(name, 1 + 2 * i, 3 + 2 * i, 1e-9, 40.0 + i) for i, name in enumerate(names)]
    elif genes:
        table[genes[0]] = [HMMResult("PKS_KS", 0, 5, 1e-9, 40.0), HMMResult("PKS_AT", 6, 11, 1e-9, 41.0), HMMResult("ACP", 12, 17, 0.0, 42.0)]
        table[genes[0]][0].add_internal_hits([HMMResult("Trans-AT-KS", 0, 5, 1e-8, 30.0)])
    if len(genes) > 1:
        table[genes[1]] = [HMMResult("AMP-binding", 1, 7, 1e-9, 43.0), HMMResult("PCP", 9, 15, 1e-9, 0.0)]
    motifs = {genes[0]: [HMMResult("motifA", 2, 4, 0.0, 5.0), HMMResult("motifB", 6, 8, 1e-3, 0.0)]} if genes else {}
    saved = (domain_identification.find_domains, domain_identification.find_subtypes, domain_identification.find_ab_motifs)
    saved_path = domain_identification.get_database_path
    domain_identification.get_database_path = lambda *_args: "/nonexistent"
    domain_identification.find_domains = lambda _fasta, _record: {k: list(v) for k, v in table.items()}
    domain_identification.find_subtypes = lambda _target, _path, existing, _record, **_kw: existing
    domain_identification.find_ab_motifs = lambda _fasta: motifs
    try:
        return domain_identification.generate_domains(rec)
    finally:
        (domain_identification.find_domains, domain_identification.find_subtypes, domain_identification.find_ab_motifs) = saved
        domain_identification.get_database_path = saved_path


def _loc(location):
    """location text with 'no strand' and 'forward' identified for single-strand-less areas (GenBank cannot tell them apart)"""
    text = str(location)
    if location.strand is None and "(" not in text:
        if "{" in text:
            return text.replace("]", "](+)")
        return text + "(+)"
    return text


def _transcript(location):
    out = []
    for part in location.parts:
        rng = list(range(int(part.start), int(part.end)))
        if part.strand == -1:
            rng.reverse()
        out.extend(rng)
    return out


def describe(rec):
    """canonical, comparison-friendly description of a secmet record"""
    bio = rec.to_biopython()
    features = []
    for feat in bio.features:
        quals = {k: list(v) if isinstance(v, (list, tuple)) else v for k, v in sorted(feat.qualifiers.items())}
        features.append((feat.type, _loc(feat.location), sorted((k, tuple(v) if isinstance(v, list) else v) for k, v in quals.items())))
    structure = {
        "protoclusters": [(p.get_protocluster_number(), _loc(p.location), _loc(p.core_location), p.product, p.tool,
                           sorted(c.get_name() for c in p.definition_cdses),
                           _parent_number(p))
                          for p in rec.get_protoclusters()],
        # (attributes are read from the objects, not from their converted form, so a conversion that invents values shows)
        "candidates": [(c.get_candidate_cluster_number(), _loc(c.location), str(c.kind),
                        [p.get_protocluster_number() for p in c.protoclusters], c.smiles_structure, c.polymer, _loc(c.core_location))
                       for c in rec.get_candidate_clusters()],
        "subregions": [(s.get_subregion_number(), _loc(s.location), s.tool, s.label) for s in rec.get_subregions()],
        "regions": [(r.get_region_number(), _loc(r.location), [c.get_candidate_cluster_number() for c in r.candidate_clusters],
                     [s.get_subregion_number() for s in r.subregions], sorted(c.get_name() for c in r.cds_children))
                    for r in rec.get_regions()],
        "gene_functions": [(g.get_name(), sorted((str(f), str(f.function), f.tool, f.description, f.product) for f in g.gene_functions))
                           for g in rec.get_cds_features()],
        # the record keeps modules in insertion order, which carries no meaning: compared as a sorted list
        "modules": sorted((str(m.location), m.type if hasattr(m, "type") else "", [d.get_name() for d in m.domains], m.is_complete())
                          for m in rec.get_modules()),
        "domains": sorted((d.get_name(), str(d.location)) for d in rec.get_antismash_domains()),
        "pfams": sorted((d.get_name(), str(d.location), d.identifier) for d in rec.get_pfam_domains()),
        # motif locations are compared by the bases they cover in transcript order: a precursor peptide is rebuilt from its
        # leader/core/tail pieces, which may partition the same bases differently
        "motifs": sorted((m.get_name(), tuple(_transcript(m.location)), m.location.strand, type(m).__name__) for m in rec.get_cds_motifs()),
    }
    return {"seq": str(rec.seq), "topology": "circular" if rec.is_circular() else "linear", "id": rec.id,
            "features": sorted(features, key=repr), "structure": structure}


def _parent_number(proto):
    if proto.parent is None:
        return None
    try:
        return proto.parent.get_candidate_cluster_number()
    except ValueError:
        return "stale"


EXTRAS_MENU = ["pfam", "nrps", "prepeptide", "tta", "misc", "gene", "source", "cdsnote", "prepeptide-plain", "smiles", "nrps-double",
               "smiles-long", "smcog-function", "smiles-each", "prepeptide-long", "two-sources"]


def specs(tier):
    """the catalogue: every combination of the menus (quick: extras one at a time, thorough: all subsets of size <= 2 + everything)"""
    out = []
    extras_menu = EXTRAS_MENU
    if tier == "quick":
        extra_sets = [[]] + [[e] for e in extras_menu] + [["*all*"]]
    else:
        extra_sets = [[]] + [[e] for e in extras_menu] + [list(c) for c in itertools.combinations(extras_menu, 2)] + [["*all*"]]
    for circ in (False, True):
        for layout in LAYOUTS:
            if layout in CIRCULAR_ONLY and not circ:
                continue
            for rules in (None, "single", "twins", "mixed", "separate", "spread"):
                for sideload in (None, "sub", "proto", "both", "twin-sub", "two-subs", "origin-sub", "origin-subs", "origin-protos",
                                 "value-shapes", "unbreakable-values", "identical-areas", "strand-tie", "exact-gene-span", "around-intron",
                                 "origin-twin-protos", "reserved-detail-keys"):
                    if sideload in ("origin-sub", "origin-subs", "origin-protos", "around-intron", "origin-twin-protos") and not circ:
                        continue
                    if sideload in ("value-shapes", "unbreakable-values", "identical-areas", "reserved-detail-keys") and \
                            (rules is not None or layout not in ("plain", "origin")):
                        continue
                    if sideload == "strand-tie" and (rules != "separate" or layout != "plain"):
                        continue
                    if sideload in ("exact-gene-span", "around-intron") and (rules is not None or layout != "multiexon"):
                        continue
                    if sideload == "origin-twin-protos" and (rules is not None or layout not in ("plain", "origin")):
                        continue
                    if rules is None and sideload is None:
                        continue
                    if layout == "long" and (rules, sideload) not in ((None, "both"), ("single", "sub")):
                        continue
                    if layout == "longnames" and (rules, sideload) != (None, "both"):
                        continue
                    for extras in extra_sets:
                        if "prepeptide-long" in extras and layout != "long":
                            continue
                        if tier == "quick" and len(extras) > 0 and (rules, sideload) not in (("mixed", None), ("twins", "both"), ("single", "sub"),
                                                                                                 (None, "both"), ("separate", "origin-sub"), (None, "two-subs"),
                                                                                                 ("spread", None), ("spread", "origin-subs"), (None, "origin-protos"),
                                                                                                 (None, "origin-twin-protos"), ("separate", "strand-tie"), (None, "identical-areas")):
                            continue
                        out.append({"circ": circ, "layout": layout, "rules": rules, "sideload": sideload, "extras": extras})
    return out
