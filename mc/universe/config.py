"""antiSMASH config objects for in-process runs (no external tools)."""
from antismash.config import build_config, update_config, destroy_config
from antismash.config.args import ModuleArgs


class DummyGenefinding:
    """minimal genefinding module: declares the options pre-processing reads, never finds genes"""
    __name__ = "genefinding"

    @staticmethod
    def get_arguments():
        args = ModuleArgs("genefinding", "genefinding")
        args.add_option("gff3", dest="gff3", default="", type=str, help="gff3")
        args.add_option("tool", dest="tool", default="none", type=str, help="tool")
        return args

    @staticmethod
    def run_on_record(_record, _options):
        return None


class FindingGenefinding(DummyGenefinding):
    """a genefinding module that annotates one fixed gene on records without genes (runs inside the worker processes)"""

    @staticmethod
    def run_on_record(record, _options):
        from antismash.common.secmet.features import CDSFeature  # pylint: disable=import-outside-toplevel
        from antismash.common.secmet.locations import FeatureLocation  # pylint: disable=import-outside-toplevel
        if len(record.seq) >= 9:
            record.add_cds_feature(CDSFeature(FeatureLocation(0, 9, 1), locus_tag=f"found_{record.id}", translation="MKK"))


def make_config(extra=None):
    destroy_config()
    options = build_config(["--cpus", "1", "--minlength", "1"] + list(extra or []), isolated=True, modules=[DummyGenefinding])
    update_config({"triggered_limit": False})
    return options


def make_config_with(genefinding, extra=None):
    destroy_config()
    options = build_config(["--minlength", "1"] + list(extra or []), isolated=True, modules=[genefinding])
    update_config({"triggered_limit": False})
    return options
