"""Slotted records with real Protocluster / SubRegion objects (C05, C06, C08, C19).

A record of `nslots` slots of SLOT bases; slot s holds gene g<s> at [s*SLOT+1, s*SLOT+4).
Protocluster spec: [cs, ce, nl, nr, product]  core = slots cs..ce inclusive (ce < cs wraps on a ring),
neighbourhood nl/nr slots to the left/right.
With a sixth element "t" (tight) the core is the span of the genes only ([cs*SLOT+1, ce*SLOT+4)), so that cores of adjacent slots
are separated by a few bases instead of touching and extents end inside slots (the slot-aligned universe has no small gaps).
"""
from antismash.common.secmet.features import Protocluster, SubRegion
from antismash.common.secmet.features.protocluster import SideloadedProtocluster
from antismash.common.secmet.locations import FeatureLocation as F
from antismash.common.secmet.qualifiers import GeneFunction

from mc.universe import worlds as W
from mc.universe.loc import ring_loc

SLOT = 6


def make_slotted_record(nslots, circular, core_functions=None, with_genes=True, bridging_gene=False):
    """core_functions: {slot: set(products)} genes carrying a CORE gene function for those products"""
    L = nslots * SLOT
    rec = W.make_record(L, circular)
    genes = {}
    if with_genes:
        for s in range(nslots):
            loc = F(s * SLOT + 1, s * SLOT + 4, 1 if s % 2 == 0 else -1)
            if bridging_gene and circular and s == nslots - 1:
                loc = ring_loc(L - 2, 3, L, 1)
            gene = W.make_cds(loc, f"g{s}")
            for product in sorted((core_functions or {}).get(s, ())):
                gene.gene_functions.add(GeneFunction.CORE, "tool", "dom", product)
            rec.add_cds_feature(gene)
            genes[s] = gene
    return rec, genes


def default_core_functions(nslots):
    return {s: {"p", "q"} if s % 2 == 0 else {"p"} for s in range(nslots)}


def make_protocluster(L, circular, spec):
    """-> Protocluster or None when the spec does not fit the topology"""
    cs, ce, nl, nr, product = spec[:5]
    flags = spec[5] if len(spec) > 5 else ""
    tight = "t" in flags
    # "s": a sideloaded protocluster, whose locations carry no strand
    strand = None if "s" in flags else 1
    nslots = L // SLOT
    if not circular and ce < cs:
        return None
    clen = ((ce - cs) % nslots + 1) * SLOT
    cstart = cs * SLOT
    if tight:
        clen -= 3
        cstart += 1
    core = ring_loc(cstart, clen, L, strand)
    if circular:
        total = clen + (nl + nr) * SLOT
        if total >= L:
            if nl < 90 or len(core.parts) > 1:
                return None     # (a core crossing the origin keeps an origin-crossing extent in antiSMASH, never [0:L])
            # neighbourhoods larger than the record (nl = nr >= 90): the extent is clipped to the whole record, as on a line
            loc = F(0, L, strand)
        else:
            loc = ring_loc(cstart - nl * SLOT, total, L, strand)
    else:
        loc = F(max(0, cstart - nl * SLOT), min(L, cstart + clen + nr * SLOT), strand)
    if strand is None:
        return SideloadedProtocluster(core, loc, "side", product, neighbourhood_range=max(nl, nr, 1) * SLOT)
    return Protocluster(core, loc, "tool", product, SLOT, max(nl, nr) * SLOT, "rule", "cat")


def make_subregion(L, circular, spec):
    """spec: [first_slot, last_slot, label]"""
    first, last, label = spec
    nslots = L // SLOT
    if not circular and last < first:
        return None
    length = ((last - first) % nslots + 1) * SLOT
    if length >= L and circular:
        return None
    return SubRegion(ring_loc(first * SLOT, length, L, 1), tool="tool", label=label)


def protocluster_menu(nslots, circular, max_core=3, products=("p", "q"), neighbourhoods=((0, 0), (1, 1), (0, 2))):
    out = []
    for cs in range(nslots):
        for width in range(max_core):
            ce = cs + width
            if ce >= nslots:
                if not circular:
                    continue
                ce -= nslots
            for nl, nr in neighbourhoods:
                for product in products:
                    out.append([cs, ce, nl, nr, product])
    return out
