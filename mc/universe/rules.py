"""Condition ASTs of the rule grammar: generation, construction of real Conditions objects, rendering to rule text.

AST nodes (JSON-able lists):
  ["id", neg, name]            ["min", neg, k, [names]]        ["score", neg, name, s]
  ["and", [children]]          ["or", neg, [children]]  (a group; also the top level)
  ["cds", neg, inner]          inner is an and/or/id tree over identifiers only
"""
import itertools

from antismash.common.hmm_rule_parser.rule_parser import (
    AndCondition, CDSCondition, Conditions, MinimumCondition, ScoreCondition, SingleCondition, TokenTypes as T,
)

NAMES = ["a", "b", "c"]
SCORE_T = 5          # minscore threshold; hit scores are 3 (low) / 7 (high)


def build(n):
    """real Conditions objects, built directly (no parser)"""
    k = n[0]
    if k == "id":
        return SingleCondition(n[1], n[2])
    if k == "min":
        return MinimumCondition(n[1], n[2], list(n[3]))
    if k == "score":
        return ScoreCondition(n[1], n[2], n[3])
    if k == "and":
        subs = []
        for i, c in enumerate(n[1]):
            if i:
                subs.append(T.AND)
            subs.append(build(c))
        return AndCondition(subs)
    if k == "or":
        subs = []
        for i, c in enumerate(n[2]):
            if i:
                subs.append(T.OR)
            subs.append(build(c))
        return Conditions(n[1], subs)
    if k == "cds":
        inner = n[2]
        if inner[0] == "or" and not inner[1]:
            subs = []
            for i, c in enumerate(inner[2]):
                if i:
                    subs.append(T.OR)
                subs.append(build(c))
            return CDSCondition(n[1], subs)
        return CDSCondition(n[1], [build(inner)])
    raise ValueError(k)


def top(n):
    """wrap as a rule's top-level Conditions the way the parser does"""
    if n[0] == "or" and not n[1]:
        return build(n)
    return Conditions(False, [build(n)])


def render(n, style="minimal", _parent=None):
    """rule text. style: minimal (parentheses only where precedence needs them) | full (every binary node grouped)"""
    k = n[0]
    neg = "not " if (k != "and" and n[1]) else ""
    if k == "id":
        return neg + n[2]
    if k == "min":
        return f"{neg}minimum({n[2]}, [{', '.join(n[3])}])"
    if k == "score":
        return f"{neg}minscore({n[2]}, {n[3]})"
    if k == "cds":
        inner = render(n[2], style, "cds")
        if inner.startswith("(") and inner.endswith(")") and _balanced(inner[1:-1]):
            inner = inner[1:-1]
        return f"{neg}cds({inner})"
    if k == "and":
        text = " and ".join(render(c, style, "and") for c in n[1])
        if style == "full" and _parent is not None:
            return f"({text})"
        return text
    if k == "or":
        text = " or ".join(render(c, style, "or") for c in n[2])
        if len(n[2]) == 1:
            return f"{neg}({text})" if (n[1] or style == "full") else text
        if n[1] or _parent in ("and",) or (style == "full" and _parent is not None):
            return f"{neg}({text})"
        return text
    raise ValueError(k)


def _balanced(text):
    depth = 0
    for ch in text:
        if ch == "(":
            depth += 1
        elif ch == ")":
            depth -= 1
            if depth < 0:
                return False
    return depth == 0


def positive(n):
    k = n[0]
    if k in ("id", "min", "score"):
        return not n[1]
    if k == "and":
        return any(positive(c) for c in n[1])
    if k == "or":
        return (not n[1]) and any(positive(c) for c in n[2])
    if k == "cds":
        return (not n[1]) and positive(n[2])
    raise ValueError(k)


def profiles(n):
    k = n[0]
    if k in ("id", "score"):
        return {n[2]}
    if k == "min":
        return set(n[3])
    if k == "and":
        return set().union(*[profiles(c) for c in n[1]])
    if k == "or":
        return set().union(*[profiles(c) for c in n[2]])
    if k == "cds":
        return profiles(n[2])
    raise ValueError(k)


def leaves(n):
    k = n[0]
    if k in ("id", "min", "score"):
        return 1
    if k == "and":
        return sum(leaves(c) for c in n[1])
    if k == "or":
        return sum(leaves(c) for c in n[2])
    return leaves(n[2])


def atoms():
    out = [["id", neg, x] for x in NAMES for neg in (False, True)]
    out += [["min", neg, k, ["a", "b"]] for k in (1, 2, 3) for neg in (False, True)]
    out += [["score", neg, "a", SCORE_T] for neg in (False, True)]
    return out


def cds_groups(max_ids):
    ids = [["id", neg, x] for x in NAMES for neg in (False, True)]
    out = []
    for x, y in itertools.combinations(ids, 2):
        if x[2] == y[2]:
            continue
        for neg in (False, True):
            out.append(["cds", neg, ["and", [x, y]]])
            out.append(["cds", neg, ["or", False, [x, y]]])
    if max_ids >= 3:
        for x, y, z in itertools.permutations(ids, 3):
            if len({x[2], y[2], z[2]}) < 3 or y[2] > z[2]:
                continue
            for neg in (False, True):
                out.append(["cds", neg, ["and", [x, ["or", False, [y, z]]]]])
                out.append(["cds", neg, ["or", False, [x, ["and", [y, z]]]]])
    return out


CDS_REPRESENTATIVES = [
    ["cds", False, ["and", [["id", False, "a"], ["id", False, "b"]]]],
    ["cds", True, ["and", [["id", False, "a"], ["id", False, "b"]]]],
    ["cds", True, ["or", False, [["id", False, "a"], ["id", False, "b"]]]],
    ["cds", False, ["and", [["id", False, "a"], ["id", True, "b"]]]],
    ["cds", True, ["and", [["id", False, "b"], ["id", True, "c"]]]],
]


def cds_groups_with_score():
    """cds(...) around a formula that holds a minscore: the parser accepts it (unlike minimum inside cds), and the statement gives
    both cds and minscore a meaning for any formula - one single gene must satisfy it on its own, score included"""
    score = ["score", False, "a", SCORE_T]
    not_score = ["score", True, "a", SCORE_T]
    b, not_b = ["id", False, "b"], ["id", True, "b"]
    out = []
    for neg in (False, True):
        out.append(["cds", neg, ["and", [b, score]]])
        out.append(["cds", neg, ["and", [b, not_score]]])
        out.append(["cds", neg, ["or", False, [b, score]]])
        out.append(["cds", neg, ["and", [not_b, score]]])
    trees_ = [g for g in out if positive(g)]
    for group in out:
        for y in (["id", False, "c"], ["id", False, "b"]):
            trees_.append(["and", [group, y]])
            trees_.append(["or", False, [group, y]])
    return trees_


def _key(n):
    return repr(n)


def trees(max_leaves):
    """all condition trees with at most max_leaves leaves (cds groups count their identifiers),
    sibling duplicates excluded, at least one positive requirement"""
    by_n = {1: atoms()}
    if max_leaves >= 2:
        two = list(cds_groups(2))
        for x, y in itertools.combinations(by_n[1], 2):
            two.append(["and", [x, y]])
            two.append(["or", False, [x, y]])
            two.append(["or", True, [x, y]])
        # a representative set of cds groups (positive and negated) combined with every plain identifier, so that negated
        # groups - which cannot stand alone - are evaluated already at this size
        ids = [a for a in by_n[1] if a[0] == "id"]
        for group in CDS_REPRESENTATIVES:
            for y in ids:
                two.append(["and", [group, y]])
                two.append(["or", False, [group, y]])
        # parenthesised single operands, plain and negated, around plain and negated operands ("not (not b)"): a group with one
        # member is still a group
        singles = [a for a in by_n[1] if a[0] == "id" and a[2] in ("a", "b")] + CDS_REPRESENTATIVES[:2]
        # (and a group around a group around the operand: "not ((not b))")
        singles = singles + [["or", False, [a]] for a in singles[:4]]
        for inner in singles:
            for neg in (False, True):
                group = ["or", neg, [inner]]
                for y in ids:
                    if y[2] == "c" and not y[1]:
                        two.append(["and", [group, y]])
                        two.append(["and", [y, group]])
                        two.append(["or", False, [y, group]])
        by_n[2] = two
    if max_leaves >= 3:
        three = [t for t in cds_groups(3) if leaves(t) == 3]
        for x in by_n[2]:
            for y in by_n[1]:
                if x[0] == "and":
                    # flattening: (p and q) and r  ==  3-ary and; keep it as the parser would build it
                    three.append(["and", x[1] + [y]] if _key(y) not in map(_key, x[1]) else None)
                    three.append(["or", False, [x, y]])
                    three.append(["or", True, [x, y]])
                elif x[0] == "or":
                    three.append(["and", [x, y]])
                    if not x[1]:
                        three.append(["or", False, x[2] + [y]] if _key(y) not in map(_key, x[2]) else None)
                    else:
                        three.append(["or", False, [x, y]])
                    three.append(["or", True, [x, y]])
                else:   # cds group
                    three.append(["and", [x, y]])
                    three.append(["or", False, [x, y]])
                    three.append(["or", True, [x, y]])
        seen = set()
        uniq = []
        for t in three:
            if t is None or _key(t) in seen:
                continue
            seen.add(_key(t))
            uniq.append(t)
        by_n[3] = uniq
    def id_names(node):
        if node[0] == "id":
            return [node[2]]
        kids = node[1] if node[0] == "and" else node[2] if node[0] == "or" else [node[2]] if node[0] == "cds" else []
        return [name for kid in kids for name in id_names(kid)]

    def has_single_group(node):
        if node[0] == "id":
            return False
        kids = node[1] if node[0] == "and" else node[2] if node[0] == "or" else [node[2]] if node[0] == "cds" else []
        return (node[0] == "or" and len(kids) == 1) or any(has_single_group(kid) for kid in kids)

    out = []
    for n in sorted(by_n):
        for t in by_n[n]:
            if not positive(t):
                continue
            # a parenthesised single operand next to the same operand unparenthesised is a repeated condition, which is refused
            if has_single_group(t) and len(set(id_names(t))) < len(id_names(t)) and not any(k[0] == "cds" for k in _walk(t)):
                continue
            out.append(t)
    return out


def _walk(node):
    yield node
    if node[0] == "id":
        return
    kids = node[1] if node[0] == "and" else node[2] if node[0] == "or" else [node[2]] if node[0] == "cds" else []
    for kid in kids:
        yield from _walk(kid)
