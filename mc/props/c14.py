"""C14 NRPS/PKS modules partition a gene's domains in order and obey the module rules.

Every domain string up to a depth bound over (a) one representative per behavioural class of the ~75 profile names
(+ KS subtypes) and (b) the full alphabet, through the real build_modules_for_cds; every pair of head/tail strings
(both strands) through combine_modules; layout rules, completeness and JSON identity judged by an oracle written from
the module docstring over the label sets.
"""
import collections
import itertools

from antismash.common.hmmscan_refinement import HMMResult
from antismash.common.secmet.locations import FeatureLocation as F
from antismash.detection.nrps_pks_domains import module_identification as mi

from mc.engine.core import Result
from mc.universe import worlds as W

ID = "C14"
LEVEL = "exploration"
RULE = ("cases = domain strings (profile name, optional KS subtype) of length <= depth over the stated alphabet; pair cases = (head string, tail "
        "string, strand pair) for combine_modules; non-trivial = string of >= 2 module-forming domains; distinct by construction")
ASSUMPTIONS = [
    "the label sets (which profile is an adenylation, a carrier protein, ...) are data taken from the module; the rules applied to them are "
    "written independently from the module docstring",
    "profile names with identical answers to every classification predicate are interchangeable (representative alphabet); the full alphabet is "
    "enumerated to a smaller depth as a cross-check of that abstraction",
    "the explorer is bounded-exhaustive over strings rather than a state-graph search: the builder's two-domain look-ahead makes module lists "
    "a non-prefix-stable function of the string, so prefixes cannot soundly be merged into states",
]
BOUNDS = {
    "quick": "representative alphabet depth <= 3, core alphabet (14 symbols) depth 4; pairs of strings of length <= 2 over the core alphabet; "
             "the double-carrier-protein look-ahead case in every context (prefix <= 1 core symbol, suffix <= 2 representative symbols) and in pairs",
    "thorough": "representative alphabet depth <= 4, full alphabet depth <= 3, core alphabet depth 5; pairs of strings of length <= 2 over the "
                "representative alphabet; the double-carrier-protein look-ahead case with prefix <= 2 core symbols, suffix <= 2 representative symbols",
}
REQUIRED_BUCKETS = {t: ["modules:complete", "modules:trans-at", "modules:double-carrier", "modules:several", "pairs:merged",
                        "pairs:merged-with-trailing-kr", "pairs:refused", "special:double-carrier-module-with-more-domains"] for t in ("quick", "thorough")}

STARTERS = mi.CONDENSATIONS | mi.KETOSYNTHASES | mi.ADENYLATIONS | mi.ACYLTRANSFERASES | mi.ALTERNATE_STARTERS
LOADERS = mi.ADENYLATIONS | mi.ACYLTRANSFERASES | {"CAL_domain"}
PKS_SPECIFIC = mi.ACYLTRANSFERASES | mi.KETOSYNTHASES
NRPS_SPECIFIC = mi.ADENYLATIONS | mi.CONDENSATIONS


def all_labels():
    return sorted(set().union(*mi.CLASSIFICATIONS.values()))


def signature(label):
    special_names = ("PKS_KR", "LPG_synthase_C", "Beta_elim_lyase", "Trans-AT_docking", "Thioesterase", "TD", "Epimerization",
                     "Condensation_Starter", "SAT", "CAL_domain", "nMT", "cMT", "oMT", "PKS_DH", "PKS_DH2", "PKS_DHt", "PKS_ER", "Interface")
    return (label in mi.ADENYLATIONS, label in mi.ACYLTRANSFERASES, label in mi.CONDENSATIONS, label in mi.KETOSYNTHASES,
            label in mi.ALTERNATE_STARTERS, label in mi.ENDS, label in mi.MODIFIERS, label in mi.CARRIER_PROTEINS, label in mi.NON_MODULE,
            label in mi.SPECIAL, label in mi.OTHER, label.startswith("PKS"), label in special_names and label)


def representative_alphabet():
    classes = collections.OrderedDict()
    for label in all_labels():
        classes.setdefault(signature(label), label)
    reps = [(label, None) for label in classes.values()]
    return reps + [("PKS_KS", "Trans-AT-KS"), ("PKS_KS", "Iterative-KS")]


def full_alphabet():
    return [(label, None) for label in all_labels()] + [("PKS_KS", "Trans-AT-KS"), ("PKS_KS", "Iterative-KS")]


CORE = [("PKS_KS", None), ("PKS_KS", "Trans-AT-KS"), ("PKS_AT", None), ("AMP-binding", None), ("Condensation_LCL", None),
        ("PKS_KR", None), ("nMT", None), ("ACP", None), ("PCP", None), ("Thioesterase", None), ("Epimerization", None),
        ("Trans-AT_docking", None), ("CAL_domain", None), ("NRPS-COM_Nterm", None)]
CORE_PLUS = CORE + [("LPG_synthase_C", None), ("Beta_elim_lyase", None)]


def make_domains(seq, offset=0):
    out = []
    for i, (label, sub) in enumerate(seq):
        hit = HMMResult(label, offset + i * 10, offset + i * 10 + 8, 1e-5, 50.0)
        if sub:
            hit.add_internal_hits([HMMResult(sub, offset + i * 10, offset + i * 10 + 8, 1e-5, 40.0)])
        out.append(hit)
    return out


def analyse(labels_subs, first_in_cds):
    """independent reading of one module's component list -> dict of facts and list of layout problems"""
    labels = [l for l, _ in labels_subs]
    probs = []
    core = [(i, l) for i, l in enumerate(labels) if l not in mi.NON_MODULE and l not in mi.SPECIAL]
    explicit = [i for i, l in core if l in STARTERS and l not in LOADERS]
    loaders = [i for i, l in core if l in LOADERS]
    carriers = [i for i, l in core if l in mi.CARRIER_PROTEINS]
    ends = [i for i, l in core if l in mi.ENDS]
    mods = [i for i, l in core if l in mi.MODIFIERS]
    starter = next((i for i, l in core if l in STARTERS), None)
    loader = loaders[0] if loaders else None
    is_pks = any(l.startswith("PKS") or l in PKS_SPECIFIC for l in labels)
    # a trans-AT module is a PKS module: its starter is a ketosynthase (documented as "specifically Trans-AT-KS", with the docking
    # domain as the fallback for an inexact KS subtype) - a condensation domain next to a PKS_PP carrier is not one
    trans_at = bool(is_pks and starter is not None and loader is None and labels[starter] in mi.KETOSYNTHASES
                    and (labels_subs[starter][1] == "Trans-AT-KS" or "Trans-AT_docking" in labels))
    if len(explicit) > 1:
        probs.append("two-starters")
    if explicit and core and explicit[0] != core[0][0]:
        probs.append("starter-not-first")
    if len(loaders) > 1:
        probs.append("two-loaders")
    if len(ends) > 1:
        probs.append("two-ends")
    if ends and any(i > ends[0] for i, _ in core):
        probs.append("domain-after-end")
    if len(carriers) > 1:
        second = carriers[1]
        if len(carriers) > 2 or tuple(labels[second + 1:second + 3]) not in mi.DOUBLE_TRANSPORTER_CASES:
            probs.append("two-carrier-proteins")
    if carriers:
        first_cp = carriers[0]
        allowed_after = set()
        if len(carriers) > 1:
            allowed_after = {carriers[1] + 1, carriers[1] + 2}
        for i in mods:
            if i > first_cp and i not in allowed_after and not (trans_at and labels[i] == "PKS_KR"):
                probs.append("modification-after-carrier-protein")
        if loader is not None and loader > first_cp:
            probs.append("loader-after-carrier-protein")
    if starter is not None and loader is not None and starter != loader:
        s, l = labels[starter], labels[loader]
        if (s.startswith("PKS") or s in PKS_SPECIFIC) and l in NRPS_SPECIFIC:
            probs.append("nrps-loader-on-pks-starter")
        if s in NRPS_SPECIFIC and (l.startswith("PKS") or l in PKS_SPECIFIC):
            probs.append("pks-loader-on-nrps-starter")
    complete = bool(starter is not None and loader is not None and carriers and not (starter == loader and not first_in_cds)) \
        or bool(trans_at and carriers)
    if starter is not None and starter == loader and not first_in_cds:
        complete = False
    return {"complete": complete, "trans_at": trans_at, "double_cp": len(carriers) > 1}, probs


def check_string(seq, stats=None):
    domains = make_domains(seq)
    try:
        modules = mi.build_modules_for_cds(domains, "gene")
    except Exception as err:  # pylint: disable=broad-except
        return [("build-raised", f"{type(err).__name__}: {str(err)[:120]}")], None
    fails = []
    flat = [(c.label, c.subtype) for m in modules for c in m.components]
    want = [(l, s) for l, s in seq if l not in mi.NON_MODULE]
    if flat != want:
        fails.append(("partition", f"modules hold {flat}, input {want}"))
    for index, module in enumerate(modules):
        if not module.components:
            fails.append(("empty-module", str(index)))
            continue
        comps = [(c.label, c.subtype) for c in module.components]
        facts, probs = analyse(comps, index == 0)
        for prob in probs:
            fails.append((f"layout:{prob}", f"{module} in {[str(m) for m in modules]}"))
        try:
            if module.is_complete() != facts["complete"]:
                fails.append(("completeness", f"{module}: code={module.is_complete()} ref={facts['complete']}"))
            if module.is_trans_at() != facts["trans_at"]:
                fails.append(("trans-at-flag", f"{module}: code={module.is_trans_at()} ref={facts['trans_at']}"))
        except Exception as err:  # pylint: disable=broad-except
            fails.append(("predicate-raised", repr(err)[:100]))
        try:
            again = mi.Module.from_json(module.to_json())
            same = (again.to_json() == module.to_json() and again.is_complete() == module.is_complete()
                    and str(again) == str(module) and again.is_trans_at() == module.is_trans_at()
                    and again.is_iterative() == module.is_iterative() and again.is_terminated() == module.is_terminated()
                    and [(c.label, c.subtype, c.locus) for c in again.components] == [(c.label, c.subtype, c.locus) for c in module.components])
            if not same:
                fails.append(("json-identity", f"{module} -> {again}"))
        except Exception as err:  # pylint: disable=broad-except
            fails.append(("json-raised", f"{module}: {type(err).__name__}: {str(err)[:100]}"))
        if stats is not None:
            if facts["complete"]:
                stats["modules:complete"] += 1
            if facts["trans_at"]:
                stats["modules:trans-at"] += 1
            if facts["double_cp"]:
                stats["modules:double-carrier"] += 1
    if stats is not None and len(modules) > 1:
        stats["modules:several"] += 1
    return fails, modules


def check_pair(head_seq, tail_seq, strands, stats=None):
    prev_cds = W.make_cds(F(0, 300, strands[0]), "prev")
    cur_cds = W.make_cds(F(400, 700, strands[1]), "cur")
    try:
        prev_modules = mi.build_modules_for_cds(make_domains(head_seq), "prev")
        cur_modules = mi.build_modules_for_cds(make_domains(tail_seq), "cur")
    except Exception as err:  # pylint: disable=broad-except
        return [("build-raised", repr(err)[:100])]
    before_prev = [[(c.label, c.subtype) for c in m.components] for m in prev_modules]
    before_cur = [[(c.label, c.subtype) for c in m.components] for m in cur_modules]

    def snapshot(modules):
        """everything a module reports about itself (a refused merge must leave all of it alone)"""
        out = []
        for m in modules:
            try:
                out.append((m.to_json(), m.is_complete(), m.is_trans_at(), m.is_iterative(), m.is_terminated(), str(m)))
            except Exception as err:  # pylint: disable=broad-except
                out.append(("raised", repr(err)[:80]))
        return out
    snap_prev, snap_cur = snapshot(prev_modules), snapshot(cur_modules)
    prev = mi.CDSModuleInfo(prev_cds, list(prev_modules))
    cur = mi.CDSModuleInfo(cur_cds, list(cur_modules))
    try:
        merged = mi.combine_modules(cur, prev)
    except Exception as err:  # pylint: disable=broad-except
        return [("combine-raised", f"{type(err).__name__}: {str(err)[:120]}")]
    fails = []
    after_prev = [[(c.label, c.subtype) for c in m.components] for m in prev.modules]
    after_cur = [[(c.label, c.subtype) for c in m.components] for m in cur.modules]
    if merged is None:
        if after_prev != before_prev or after_cur != before_cur:
            fails.append(("refused-merge-changed-modules", f"{before_prev}|{before_cur} -> {after_prev}|{after_cur}"))
        elif snapshot(prev.modules) != snap_prev or snapshot(cur.modules) != snap_cur:
            fails.append(("refused-merge-changed-module-state", f"{before_prev}|{before_cur}: {snap_prev}|{snap_cur} -> "
                                                                f"{snapshot(prev.modules)}|{snapshot(cur.modules)}"[:600]))
        if stats is not None:
            stats["pairs:refused"] += 1
        return fails
    if strands[0] != strands[1]:
        fails.append(("merged-across-strands", ""))
    if not before_prev or not before_cur:
        fails.append(("merged-without-modules", ""))
        return fails
    comps = [(c.label, c.subtype) for c in merged.components]
    expected = before_prev[-1] + before_cur[0]
    trailing_kr = False
    if comps != expected:
        if len(before_cur) > 1 and before_cur[1] == [("PKS_KR", None)] and comps == expected + [("PKS_KR", None)]:
            trailing_kr = True
        else:
            fails.append(("merged-components", f"merged={comps} head={before_prev[-1]} tail={before_cur[0]}"))
    try:
        if not merged.is_complete():
            fails.append(("merged-incomplete", f"{merged}"))
    except Exception as err:  # pylint: disable=broad-except
        fails.append(("predicate-raised", repr(err)[:100]))
    consumed = 2 if trailing_kr else 1
    if after_prev != before_prev[:-1] + [comps] or after_cur != before_cur[consumed:]:
        fails.append(("merge-bookkeeping", f"{before_prev}|{before_cur} -> {after_prev}|{after_cur}"))
    elif snapshot(prev.modules[:-1]) != snap_prev[:-1] or snapshot(cur.modules) != snap_cur[consumed:]:
        fails.append(("merge-changed-other-modules", f"{before_prev}|{before_cur}"))
    # the merged module rebuilt from its saved form is identical
    try:
        again = mi.Module.from_json(merged.to_json())
        if again.to_json() != merged.to_json() or again.is_complete() != merged.is_complete() or again.is_trans_at() != merged.is_trans_at():
            fails.append(("merged-json-identity", f"{merged} -> {again}"))
    except Exception as err:  # pylint: disable=broad-except
        fails.append(("merged-json-raised", f"{merged}: {type(err).__name__}: {str(err)[:100]}"))
    # the merged module must itself respect the layout rules
    _, probs = analyse(comps, False)
    for prob in probs:
        fails.append((f"merged-layout:{prob}", f"{merged}"))
    if stats is not None:
        stats["pairs:merged"] += 1
        if trailing_kr:
            stats["pairs:merged-with-trailing-kr"] += 1
    return fails


N_SPECIAL = 16
ALPHABETS = {"reps": representative_alphabet, "full": full_alphabet, "core": lambda: CORE_PLUS}


def double_transporter_strings(tier):
    """the one look-ahead shortcut of the builder (two carrier proteins followed by a listed pair of domains), embedded in
    every short context: prefix (<= 1 / <= 2 core symbols) + CP CP + each listed pair + suffix (<= 2 representative symbols)"""
    carriers = [("ACP", None), ("PCP", None)]
    reps = representative_alphabet()
    prefixes = [[]] + [[a] for a in CORE]
    if tier == "thorough":
        prefixes += [[a, b] for a in CORE for b in CORE]
    suffixes = [[]] + [[a] for a in reps] + [[a, b] for a in reps for b in reps]
    for case in sorted(mi.DOUBLE_TRANSPORTER_CASES):
        middle_tail = [(label, None) for label in case]
        for cp1 in carriers:
            for cp2 in carriers:
                for prefix in prefixes:
                    for suffix in suffixes:
                        yield prefix + [cp1, cp2] + middle_tail + suffix
                    # the exception repeated: a further carrier protein followed by a listed pair again (and once more)
                    for case2 in sorted(mi.DOUBLE_TRANSPORTER_CASES):
                        again = [cp2] + [(label, None) for label in case2]
                        yield prefix + [cp1, cp2] + middle_tail + again
                        yield prefix + [cp1, cp2] + middle_tail + again + again
                        yield prefix + [cp1, cp2] + middle_tail + again + [("Thioesterase", None)]


def double_transporter_modules():
    """short domain strings whose (last / first) module holds the double carrier protein case, for the pair merge"""
    out = []
    for case in sorted(mi.DOUBLE_TRANSPORTER_CASES):
        body = [("PCP", None), ("PCP", None)] + [(label, None) for label in case]
        out.append(body)
        for extra in CORE_PLUS:
            out.append([extra] + body)
            out.append(body + [extra])
        for loader in (("AMP-binding", None), ("PKS_AT", None)):
            for extra in CORE_PLUS:
                out.append([("Condensation_LCL", None), loader] + body + [extra])
    return out


def shards(tier):
    out = []
    for chunk in range(N_SPECIAL):
        out.append(["special", tier, chunk])
    out.append(["special-pairs", tier])
    if tier == "quick":
        plans = [("reps", 3), ("core", 4)]
        pair_alpha = "core"
    else:
        plans = [("reps", 4), ("full", 3), ("core", 5)]
        pair_alpha = "reps"
    for alpha, depth in plans:
        n = len(ALPHABETS[alpha]())
        for first in range(n):
            out.append(["strings", alpha, depth, first])
    n = len(ALPHABETS[pair_alpha]())
    for first in range(n):
        out.append(["pairs", pair_alpha, first])
    return out


def run_shard(shard):
    res = Result()
    if shard[0] == "strings":
        _, alpha_name, depth, first = shard
        alpha = ALPHABETS[alpha_name]()
        for length in range(1, depth + 1):
            for rest in itertools.product(alpha, repeat=length - 1):
                seq = [alpha[first]] + list(rest)
                res.evals += 1
                res.nontrivial += sum(1 for l, _ in seq if l not in mi.NON_MODULE) > 1
                fails, modules = check_string(seq, res.buckets)
                if modules is not None:
                    res.outcomes[(len(modules), sum(m.is_complete() for m in modules))] += 1
                if fails or res.evals % 20011 == 1:
                    case = {"kind": "string", "seq": [list(x) for x in seq]}
                    for clause, detail in fails:
                        res.fail(case, clause, detail)
                    res.sample(case)
    elif shard[0] == "special":
        _, tier, chunk = shard
        for index, seq in enumerate(double_transporter_strings(tier)):
            if index % N_SPECIAL != chunk:
                continue
            res.evals += 1
            res.nontrivial += 1
            fails, modules = check_string(seq, res.buckets)
            if modules is not None:
                res.outcomes[("special", len(modules), sum(m.is_complete() for m in modules))] += 1
                if any(len([c for c in m.components if c.label in mi.CARRIER_PROTEINS]) > 1 and len(m.components) > 4 for m in modules):
                    res.buckets["special:double-carrier-module-with-more-domains"] += 1
            if fails or res.evals % 20011 == 1:
                case = {"kind": "string", "seq": [list(x) for x in seq]}
                for clause, detail in fails:
                    res.fail(case, clause, detail)
                res.sample(case)
    elif shard[0] == "special-pairs":
        specials = double_transporter_modules()
        others = [[a] for a in CORE_PLUS] + [[a, b] for a in CORE_PLUS for b in CORE_PLUS]
        for head, tail in itertools.chain(itertools.product(specials, others), itertools.product(others, specials)):
            for strands in ((1, 1), (-1, -1), (1, -1)):
                res.evals += 1
                res.nontrivial += 1
                fails = check_pair(head, tail, strands, res.buckets)
                res.outcomes[("special-pair", strands[0] == strands[1], tuple(sorted({c for c, _ in fails})))] += 1
                if fails or res.evals % 20011 == 1:
                    case = {"kind": "pair", "head": [list(x) for x in head], "tail": [list(x) for x in tail], "strands": list(strands)}
                    for clause, detail in fails:
                        res.fail(case, clause, detail)
                    res.sample(case)
    else:
        _, alpha_name, first = shard
        alpha = ALPHABETS[alpha_name]()
        singles = [[a] for a in alpha]
        doubles = [[a, b] for a in alpha for b in alpha]
        # tails whose second module is a lone KR (the documented trailing-KR merge), after every two-domain first module
        triples_tail = [[a, b, ("PKS_KR", None)] for a in CORE_PLUS for b in CORE_PLUS]
        heads = [[alpha[first]]] + [[alpha[first], b] for b in alpha]
        tails = singles + doubles + triples_tail
        for head in heads:
            for tail in tails:
                for strands in ((1, 1), (-1, -1), (1, -1)):
                    res.evals += 1
                    res.nontrivial += 1
                    fails = check_pair(head, tail, strands, res.buckets)
                    res.outcomes[("pair", strands[0] == strands[1], tuple(sorted({c for c, _ in fails})))] += 1
                    if fails or res.evals % 20011 == 1:
                        case = {"kind": "pair", "head": [list(x) for x in head], "tail": [list(x) for x in tail], "strands": list(strands)}
                        for clause, detail in fails:
                            res.fail(case, clause, detail)
                        res.sample(case)
    return res


def replay(case):
    if case["kind"] == "string":
        return check_string([tuple(x) for x in case["seq"]])[0]
    return check_pair([tuple(x) for x in case["head"]], [tuple(x) for x in case["tail"]], tuple(case["strands"]))
