"""C12 Per-region GenBank files are faithful, self-consistent extracts.

Every region of every catalogue record that has regions (first / later region, touching a record end, origin-spanning,
containing origin-spanning genes, several candidates and subregions, precursor peptides, modules) is written with the
real Region.write_to_genbank to a scratch file, parsed and loaded again with the real readers.
"""
import collections
import copy
import io
import os
import shutil
import tempfile

from Bio import SeqIO

from antismash.common.secmet import Record
from antismash.common.secmet.features import Prepeptide

from mc.engine.core import Result
from mc.ref import bases as R
from mc.universe import catalogue as K

ID = "C12"
LEVEL = "exploration"
RULE = ("cases = (catalogue record with >= 1 region, region index); non-trivial = region that is not the first of its record, spans the origin "
        "or contains more than one area; distinct by construction")
ASSUMPTIONS = [
    "the catalogue sequence is aperiodic, so equality of extracted sequences pins coordinates",
    "features are matched between the full record and the region file by (type, identifying qualifier, extracted sequence)",
]
BOUNDS = {"quick": "all regions of the 763-record quick catalogue", "thorough": "all regions of the 9690-record thorough catalogue"}
REQUIRED_BUCKETS = {t: ["region:later-in-record", "region:origin-spanning", "region:with-origin-spanning-gene", "region:several-areas",
                        "region:prepeptide", "region:modules"] for t in ("quick", "thorough")}
N_CHUNKS = 32
IDENT_QUALS = ("locus_tag", "domain_id", "label", "product", "prepeptide", "note")


def feature_key(feature, sequence):
    def value(qual, text):
        # identifiers longer than a line of the file are wrapped by the writer and antiSMASH removes the blank again when it reads
        # them (locus tags, domain ids and the labels derived from them hold no blanks of their own); free text is compared as is
        if qual in ("locus_tag", "domain_id") or (qual == "label" and feature.type in ("aSDomain", "PFAM_domain", "CDS_motif", "aSModule")):
            return text.replace(" ", "")
        return text
    ident = tuple((q, tuple(value(q, v) for v in feature.qualifiers.get(q, ()))) for q in IDENT_QUALS if feature.qualifiers.get(q))
    return (feature.type, ident, str(feature.location.extract(sequence)))


def check_record(spec, stats=None):
    try:
        rec = K.build_record(spec)
    except Exception as err:  # pylint: disable=broad-except
        return [("catalogue-build-raised", f"{type(err).__name__}: {str(err)[:150]}")], 0
    regions = rec.get_regions()
    if not regions:
        return [], 0
    bio = rec.to_biopython()
    # the full record as the pipeline hands it over: with the antiSMASH structured comment of main.add_antismash_comments
    bio.annotations.setdefault("structured_comment", {})["antiSMASH-Data"] = {
        "Version": "verif", "Run date": "2000-01-01 00:00:00", "NOTE": "This is an extract from the original record!",
        "Starting at": "1", "Ending at": str(len(bio.seq))}
    before_annotations = copy.deepcopy(bio.annotations)
    before_record_annotations = copy.deepcopy(rec.annotations)
    before_desc = K.describe(rec)
    before_locs = [str(f.location) for f in bio.features]
    before_quals = [repr(sorted(f.qualifiers.items())) for f in bio.features]
    full_seq = bio.seq
    fails = []
    tmp = tempfile.mkdtemp(prefix="c12_")
    try:
        for index, region in enumerate(regions):
            tag = f"region{index + 1}"
            path = os.path.join(tmp, f"{tag}.gbk")
            try:
                region.write_to_genbank(filename=path, record=bio)
            except Exception as err:  # pylint: disable=broad-except
                fails.append((f"write-raised", f"{tag} {region.location}: {type(err).__name__}: {str(err)[:150]}"))
                continue
            try:
                parsed = SeqIO.read(path, "genbank")
            except Exception as err:  # pylint: disable=broad-except
                fails.append(("region-file-unparsable", f"{tag}: {type(err).__name__}: {str(err)[:150]}"))
                continue
            expected_seq = str(region.location.extract(full_seq))
            if str(parsed.seq) != expected_seq:
                fails.append(("region-sequence", f"{tag} {region.location}: length {len(parsed.seq)} vs {len(expected_seq)}"))
                continue
            # every feature inside the region is present and still covers the same bases
            inside = [f for f in bio.features if R.contains(region.location, f.location)]
            want = collections.Counter(feature_key(f, full_seq) for f in inside)
            got = collections.Counter(feature_key(f, parsed.seq) for f in parsed.features)
            # numbering qualifiers legitimately change; they are not part of the key
            missing = want - got
            extra = got - want
            if missing:
                fails.append(("feature-missing-or-shifted", f"{tag} {region.location}: {list(missing)[:2]}"))
            if extra:
                fails.append(("feature-unexpected", f"{tag} {region.location}: {list(extra)[:2]}"))
            # antiSMASH can load the file again and finds one region with the same content
            try:
                loaded = Record.from_biopython(parsed, taxon="bacteria")
            except Exception as err:  # pylint: disable=broad-except
                fails.append(("region-file-not-loadable", f"{tag} {region.location}: {type(err).__name__}: {str(err)[:200]}"))
                continue
            if len(loaded.get_regions()) != 1:
                fails.append(("region-count", f"{tag}: {len(loaded.get_regions())} regions after loading"))
                continue
            fails.extend((c, f"{tag} {region.location}: {d}") for c, d in compare_structure(region, rec, loaded, full_seq, parsed.seq))
            if stats is not None:
                stats["region:later-in-record"] += index > 0
                stats["region:origin-spanning"] += region.crosses_origin()
                stats["region:with-origin-spanning-gene"] += any(c.crosses_origin() for c in region.cds_children)
                stats["region:several-areas"] += len(region.candidate_clusters) + len(region.subregions) > 1
                stats["region:prepeptide"] += any(isinstance(m, Prepeptide) and R.contains(region.location, m.location) for m in rec.get_cds_motifs())
                stats["region:modules"] += any(R.contains(region.location, m.location) for m in rec.get_modules())
    finally:
        shutil.rmtree(tmp, ignore_errors=True)
    # writing region files leaves the full record unchanged
    if K.describe(rec) != before_desc:
        fails.append(("full-record-changed", "secmet record description differs after writing region files"))
    if [str(f.location) for f in bio.features] != before_locs:
        fails.append(("biopython-record-locations-changed", ""))
    if [repr(sorted(f.qualifiers.items())) for f in bio.features] != before_quals:
        fails.append(("biopython-record-qualifiers-changed", ""))
    if bio.annotations != before_annotations:
        fails.append(("biopython-record-annotations-changed", f"{before_annotations.get('structured_comment')} -> "
                                                              f"{bio.annotations.get('structured_comment')}"[:400]))
    if rec.annotations != before_record_annotations:
        fails.append(("full-record-annotations-changed", f"{rec.annotations.get('structured_comment')}"[:300]))
    return fails, len(regions)


def compare_structure(region, rec, loaded, full_seq, region_seq):
    fails = []
    new_region = loaded.get_regions()[0]
    if len(new_region.location) != len(region_seq):
        fails.append(("loaded-region-not-whole-file", f"{new_region.location}"))

    def proto_desc(p, seq):
        return (p.product, str(p.location.extract(seq)), str(p.core_location.extract(seq)), p.tool)
    old_protos = sorted({id(p): p for c in region.candidate_clusters for p in c.protoclusters}.values())
    new_protos = list(loaded.get_protoclusters())
    if sorted(proto_desc(p, full_seq) for p in old_protos) != sorted(proto_desc(p, region_seq) for p in new_protos):
        fails.append(("protoclusters-differ", f"{[p.product for p in old_protos]} vs {[p.product for p in new_protos]}"))
        return fails
    if [p.get_protocluster_number() for p in new_protos] != list(range(1, len(new_protos) + 1)):
        fails.append(("protocluster-numbers", ""))

    def cand_desc(c, seq):
        return (str(c.kind), str(c.location.extract(seq)), tuple(sorted(proto_desc(p, seq) for p in c.protoclusters)),
                c.smiles_structure, c.polymer)
    old_cands = sorted(cand_desc(c, full_seq) for c in region.candidate_clusters)
    new_cands = sorted(cand_desc(c, region_seq) for c in loaded.get_candidate_clusters())
    if old_cands != new_cands:
        fails.append(("candidates-differ", f"{[c[0] for c in old_cands]} vs {[c[0] for c in new_cands]}"))
    if [c.get_candidate_cluster_number() for c in loaded.get_candidate_clusters()] != list(range(1, len(new_cands) + 1)):
        fails.append(("candidate-numbers", ""))
    old_subs = sorted((s.tool, s.label, str(s.location.extract(full_seq))) for s in region.subregions)
    new_subs = sorted((s.tool, s.label, str(s.location.extract(region_seq))) for s in loaded.get_subregions())
    if old_subs != new_subs:
        fails.append(("subregions-differ", f"{old_subs} vs {new_subs}"))
    if sorted(c.get_name() for c in region.cds_children) != sorted(c.get_name() for c in new_region.cds_children):
        fails.append(("region-genes-differ", ""))
    # product order follows genome order, which legitimately changes when an origin-spanning region is linearised
    if sorted(new_region.products) != sorted(region.products):
        fails.append(("region-products-differ", f"{region.products} vs {new_region.products}"))
    # precursor peptides: leader/core/tail still encode the same stretches
    old_pre = {m.get_name(): m for m in rec.get_cds_motifs() if isinstance(m, Prepeptide) and R.contains(region.location, m.location)}
    new_pre = {m.get_name(): m for m in loaded.get_cds_motifs() if isinstance(m, Prepeptide)}
    if set(old_pre) != set(new_pre):
        fails.append(("prepeptides-differ", f"{sorted(old_pre)} vs {sorted(new_pre)}"))
    else:
        for name, old in old_pre.items():
            new = new_pre[name]
            if (old.leader, old.core, old.tail) != (new.leader, new.core, new.tail):
                fails.append(("prepeptide-sequences", name))
            old_bits = [str(f.location.extract(full_seq)) for f in old.to_biopython()]
            new_bits = [str(f.location.extract(region_seq)) for f in new.to_biopython()]
            if old_bits != new_bits:
                fails.append(("prepeptide-locations", f"{name}: {old_bits} vs {new_bits}"))
    old_mods = sorted(str(m.location.extract(full_seq)) for m in rec.get_modules() if R.contains(region.location, m.location))
    new_mods = sorted(str(m.location.extract(region_seq)) for m in loaded.get_modules())
    if old_mods != new_mods:
        fails.append(("modules-differ", f"{len(old_mods)} vs {len(new_mods)}"))
    return fails


def shards(tier):
    return [[tier, chunk] for chunk in range(N_CHUNKS)]


def run_shard(shard):
    tier, chunk = shard
    res = Result()
    for index, spec in enumerate(K.specs(tier)):
        if index % N_CHUNKS != chunk:
            continue
        fails, n_regions = check_record(spec, res.buckets)
        res.evals += max(1, n_regions)
        res.nontrivial += n_regions
        res.outcomes[(n_regions, tuple(sorted({c for c, _ in fails})))] += 1
        if fails or index % 97 == 0:
            for clause, detail in fails:
                res.fail(spec, clause, detail)
            res.sample(spec)
    return res


def replay(case):
    return check_record(case)[0]
