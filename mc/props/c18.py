"""C18 Parallel execution gives the sequential result, in order.

Model: Pool(k).starmap_async over n tasks = chunks of ceil(n / 4k) tasks dispatched FIFO to whichever worker is free,
a worker runs its chunk in order; the only nondeterminism is WHICH RUNNING TASK FINISHES NEXT. Every model trace within
the deviation bound is replayed on the real parallel_function: each task blocks on its own fork-inherited Event, a
controller waits until the real set of started tasks equals the model's, releases the chosen task, waits for its
completion marker, and so on (no sleeps decide anything; a watchdog turns a divergence into a harness error).
Faults: a task raising at each position; a task that never finishes with timeout=1. Content: records across pickle and a
real pool round trip.
"""
import io
import itertools
import multiprocessing
import os
import pickle
import signal
import subprocess
import sys
import threading
import time

from Bio import SeqIO

from antismash.common import record_processing
from antismash.common.subprocessing import parallel_function

from mc.engine.choice import explore
from mc.engine.core import Result
from mc.universe import config as Cfg

ID = "C18"
LEVEL = "model_checking"
SERIAL = True
KEEP_SHARD_ORDER = True     # the shard that holds hundreds of records in memory runs last: every pool start forks the process     # pools cannot be created inside the engine's (daemonic) worker processes
RULE = ("schedules = completion orders of running pool tasks for (n tasks, k workers): the default (lowest running task finishes first) and "
        "every schedule within the deviation bound; each replayed on the real pool; fault cases = (n, k, failing position) and one hanging "
        "task with timeout; content cases = annotated records across the process boundary; non-trivial = a schedule with at least two "
        "tasks running concurrently; distinct by construction")
ASSUMPTIONS = [
    "the pool model (FIFO chunk dispatch, chunk size ceil(n/4k), in-order execution inside a chunk) is bound to the implementation: the "
    "controller only proceeds when the real started-set equals the model's, and a mismatch within the watchdog time is a harness error",
    "cpus == 1 runs in-process (no pool), so only the result is compared there",
    "worker counts 1-4 (and 16 for the over-subscribed cases) stand for 1..16; completion orders bounded by the deviation bound",
]
BOUNDS = {"quick": "n in 1..5 x k in 1..4, deviations <= 2; (17,16) and (33,16) deviations <= 1; faults at every position for n<=4,k in {2,3}",
          "thorough": "n in 1..7 x k in 1..4 and (9,2), deviations <= 3; (9,3), (8,4) deviations <= 2; (12,8), (17,16), (33,16) one deviation"}
REQUIRED_BUCKETS = {t: ["schedules:replayed", "schedules:reordered-completion", "faults:raised-in-worker", "faults:timeout", "faults:worker-lost", "faults:lost-worker-control", "content:records", "content:catalogue-records", "content:origin-spanning-gene-records", "histories:checked", "preprocess:compared"]
                    for t in ("quick", "thorough")}
N_MAX = 40
WATCHDOG = 60.0

_CTX = multiprocessing.get_context("fork")
RELEASE = [_CTX.Event() for _ in range(N_MAX)]
STARTED = [_CTX.Event() for _ in range(N_MAX)]
DONE = [_CTX.Event() for _ in range(N_MAX)]
FAIL_AT = _CTX.Value("i", -1)
HANG_AT = _CTX.Value("i", -1)


HANG_SECONDS = 20


def gated_task(index, payload):
    """the worker body: announces itself, waits for its release, returns a value depending on its arguments"""
    STARTED[index].set()
    if HANG_AT.value == index:
        # far longer than the 1 s timeout it is run under, but finite: an implementation that ignores the timeout (e.g. by
        # running the call in-process) must come back and be reported, not hang the harness
        time.sleep(HANG_SECONDS)
    RELEASE[index].wait(WATCHDOG * 2)
    if FAIL_AT.value == index:
        DONE[index].set()
        raise ValueError(f"injected failure in task {index}")
    DONE[index].set()
    return (index, payload * 2)


def dying_task(index, fail_at, kind):
    """a worker body that loses its process while holding a task: killed from outside (as the kernel does under memory pressure)
    or leaving through SystemExit"""
    if index == fail_at:
        if kind == "killed":
            os.kill(os.getpid(), signal.SIGKILL)
        elif kind == "exit":
            sys.exit(3)
    return index * index


LOST_WORKER_CHILD = r"""
import sys, logging
logging.disable(logging.CRITICAL)
from mc.props import c18
from antismash.common.subprocessing import parallel_function
n, k, fail_at, kind = int(sys.argv[1]), int(sys.argv[2]), int(sys.argv[3]), sys.argv[4]
print("READY", flush=True)      # everything is imported: from here on only the call itself is timed
try:
    print("RESULT", parallel_function(c18.dying_task, [[i, fail_at, kind] for i in range(n)], cpus=k), flush=True)
except BaseException as err:
    print("ERROR", type(err).__name__, flush=True)
"""
LOST_WORKER_START = 300  # seconds allowed for the child to start up and import everything (never part of a verdict)
LOST_WORKER_WAIT = 30    # seconds allowed for the call itself; a healthy batch of these tasks takes about a tenth of a second


def check_lost_worker(n, k, fail_at, kind):
    """the real helper in a process of its own (a call that never returns cannot be abandoned inside this one): either the list a
    sequential run gives or an error is acceptable, a call that is still blocked LOST_WORKER_WAIT seconds after it was made is
    neither. Start-up time of the child is not counted, and the healthy control is given ten times as long, so that a loaded
    machine cannot turn into a verdict."""
    env = dict(os.environ)
    proc = subprocess.Popen([sys.executable, "-c", LOST_WORKER_CHILD, str(n), str(k), str(fail_at), kind], env=env,
                            stdout=subprocess.PIPE, stderr=subprocess.DEVNULL, text=True, start_new_session=True)

    def kill():
        try:
            os.killpg(proc.pid, signal.SIGKILL)
        except ProcessLookupError:
            pass
        proc.wait()

    ready = {}

    def wait_ready():
        ready["line"] = proc.stdout.readline()
    starter = threading.Thread(target=wait_ready, daemon=True)
    starter.start()
    starter.join(LOST_WORKER_START)
    if not ready.get("line", "").startswith("READY"):
        kill()
        return [("lost-worker-harness-output", f"child did not get ready: {ready.get('line')!r} (exit {proc.returncode})")]
    reader = {}

    def read_rest():
        reader["out"] = proc.stdout.read()
    rest = threading.Thread(target=read_rest, daemon=True)
    rest.start()
    rest.join(LOST_WORKER_WAIT * (10 if fail_at < 0 else 1))
    if rest.is_alive():
        kill()
        rest.join(5)
        if fail_at < 0:
            return [("lost-worker-harness-output", f"the healthy control n={n} k={k} did not return within {LOST_WORKER_WAIT * 10}s")]
        return [("worker-lost-call-never-returns", f"n={n} k={k}: worker of task {fail_at} {kind}; neither a list nor an error {LOST_WORKER_WAIT}s after the call")]
    proc.wait()
    out = reader.get("out", "")
    line = (out.strip().splitlines() or [""])[-1]
    if line.startswith("ERROR"):
        return []
    if line.startswith("RESULT"):
        if fail_at < 0 and line == f"RESULT {[i * i for i in range(n)]}":
            return []
        return [("worker-lost-but-a-list-returned", f"n={n} k={k} task {fail_at} {kind}: {line}")]
    return [("lost-worker-harness-output", f"unexpected child output {out[-200:]!r} (exit {proc.returncode})")]


def plain_task(index, payload):
    return (index, payload * 2)


PARENT_STATE = {"value": 0}


def state_task(index):
    """a worker body whose result depends on module-level state of the calling process at the time of the call (as
    ensure_cds_info depends on the configuration): run one after another in-process it sees the current value"""
    from antismash.config import get_config  # pylint: disable=import-outside-toplevel
    return (index, PARENT_STATE["value"], get_config().get("verif_marker", None))


RAW_RECORDS = [
    # (id, sequence, has a gene of its own)
    ("plain", "ATGAAACCCGGGTTTTAAACGT", True),
    ("gappy", "ATG-AAA--CCCGGGTTTTAA-", False),
    ("dirty", "atgaaaRYKcccgggttttaaNN", False),
    ("empty-ish", "------", False),
    ("plain", "ATGCCCAAAGGGTTTTAGACGTAC", True),                 # a duplicate id
    ("a-very-long-record-name.1", "ATGAAACCCGGGTTTTAAACGTACGT", False),
]


def _raw_record(index):
    from antismash.common.secmet import Record  # pylint: disable=import-outside-toplevel
    from antismash.common.secmet.features import CDSFeature  # pylint: disable=import-outside-toplevel
    from antismash.common.secmet.locations import FeatureLocation  # pylint: disable=import-outside-toplevel
    from Bio.Seq import Seq  # pylint: disable=import-outside-toplevel
    rid, seq, gene = RAW_RECORDS[index]
    rec = Record(Seq(seq))
    rec.id = rec.name = rid
    rec.add_annotation("topology", "linear")
    rec.add_annotation("molecule_type", "DNA")
    if gene:
        rec.add_cds_feature(CDSFeature(FeatureLocation(0, 18, 1), locus_tag=f"own_{index}", translation="MKPGF"))
    return rec


def check_preprocess(indices, cpus):
    """pre_process_sequences (sanitising and gene finding run through the parallel helper) with `cpus` workers against the same
    list processed with one worker, i.e. in-process and in order"""
    from mc.ref.deepstate import deep_state  # pylint: disable=import-outside-toplevel
    outcomes = []
    for workers in (1, cpus):
        options = Cfg.make_config_with(Cfg.FindingGenefinding, ["--cpus", str(workers), "--genefinding-tool", "fake"])
        try:
            result = record_processing.pre_process_sequences([_raw_record(i) for i in indices], options, Cfg.FindingGenefinding)
            outcomes.append(("ok", [deep_state(rec) for rec in result]))
        except Exception as err:  # pylint: disable=broad-except
            outcomes.append(("raised", type(err).__name__, str(err)[:100]))
    if outcomes[0] != outcomes[1]:
        first = outcomes[0][0], outcomes[1][0]
        return [("preprocessing-differs-from-one-worker", f"records {indices} cpus={cpus}: {first}")]
    return []


HISTORY_OPS = ["set:1", "set:2", "run:2x3", "run:3x2", "run:2x1"]


def check_history(ops):
    """a sequence of batches with changes of the caller's state in between: every batch must equal the calls run one after
    another at that moment (a helper that keeps workers alive between batches would answer from a stale copy of the caller)"""
    from antismash.config import update_config  # pylint: disable=import-outside-toplevel
    PARENT_STATE["value"] = 0
    update_config({"verif_marker": 0})
    fails = []
    try:
        for position, op in enumerate(ops):
            if op.startswith("set:"):
                PARENT_STATE["value"] = int(op[4:])
                update_config({"verif_marker": int(op[4:]) * 10})
                continue
            cpus, count = (int(x) for x in op[4:].split("x"))
            expected = [state_task(i) for i in range(count)]
            try:
                got = parallel_function(state_task, [[i] for i in range(count)], cpus=cpus, timeout=30)
            except Exception as err:  # pylint: disable=broad-except
                fails.append(("history-batch-raised", f"{ops} step {position}: {type(err).__name__}: {str(err)[:100]}"))
                break
            if got != expected:
                fails.append(("batch-differs-from-sequential-after-state-change", f"{ops} step {position}: {got} vs {expected}"))
                break
    finally:
        PARENT_STATE["value"] = 0
    return fails


def _reset():
    for group in (RELEASE, STARTED, DONE):
        for event in group:
            event.clear()
    FAIL_AT.value = -1
    HANG_AT.value = -1


class PoolModel:
    """which tasks are running, given the completions so far"""
    def __init__(self, n, k):
        self.n = n
        self.k = k
        chunksize, extra = divmod(n, k * 4)
        if extra:
            chunksize += 1
        self.chunks = [list(range(i, min(n, i + chunksize))) for i in range(0, n, chunksize)]
        self.pending = list(range(len(self.chunks)))
        self.active = []          # [chunk index, position]
        self.finished = set()
        self._fill()

    def _fill(self):
        while len(self.active) < self.k and self.pending:
            self.active.append([self.pending.pop(0), 0])

    def running(self):
        return sorted(self.chunks[c][p] for c, p in self.active)

    def started(self):
        return self.finished | set(self.running())

    def complete(self, task):
        for entry in self.active:
            c, p = entry
            if self.chunks[c][p] == task:
                self.finished.add(task)
                if p + 1 < len(self.chunks[c]):
                    entry[1] += 1
                else:
                    self.active.remove(entry)
                    self._fill()
                return
        raise AssertionError(f"task {task} is not running")

    def done(self):
        return len(self.finished) == self.n


class Divergence(Exception):
    """the real pool did not behave like the model within the watchdog time: a harness error, never a verdict"""


def replay_schedule(n, k, chooser, fail_at=-1, use_config_default=False):
    """runs the real parallel_function with gated tasks; chooser(running) -> index into the sorted running list.
    -> (result or exception, completion order, max concurrency)"""
    _reset()
    FAIL_AT.value = fail_at
    box = {}
    args = [[i, i + 100] for i in range(n)]

    def call():
        try:
            if use_config_default:
                box["result"] = parallel_function(gated_task, args)
            else:
                box["result"] = parallel_function(gated_task, args, cpus=k)
        except BaseException as err:  # pylint: disable=broad-except
            box["error"] = err
    thread = threading.Thread(target=call, daemon=True)
    thread.start()
    model = PoolModel(n, k)
    order = []
    concurrency = 0
    visited = []
    while not model.done():
        expect = model.started()
        deadline = time.time() + WATCHDOG
        while True:
            real = {i for i in range(n) if STARTED[i].is_set()}
            if real == expect:
                break
            if "error" in box and fail_at >= 0:
                break
            if time.time() > deadline or not real <= expect | set(range(n)):
                for event in RELEASE:
                    event.set()
                raise Divergence(f"n={n} k={k}: model expects started={sorted(expect)} real={sorted(real)}")
            time.sleep(0.0005)
        if "error" in box:
            break
        running = model.running()
        concurrency = max(concurrency, len(running))
        task = running[chooser(len(running))]
        visited.append((tuple(sorted(model.finished)), tuple(running), task))
        RELEASE[task].set()
        if not DONE[task].wait(WATCHDOG):
            for event in RELEASE:
                event.set()
            raise Divergence(f"task {task} was released but did not finish")
        order.append(task)
        model.complete(task)
        if fail_at == task:
            break
    for event in RELEASE:       # let anything still waiting go, the pool is being torn down anyway
        event.set()
    thread.join(WATCHDOG)
    if thread.is_alive():
        raise Divergence("parallel_function did not return")
    box["visited"] = visited
    return box, order, concurrency


class _Chooser:
    """adapts the deviation-bounded explorer: choice 0 = lowest running task"""
    def __init__(self):
        self.prefix = []
        self.points = []

    def reset(self, prefix=()):
        self.prefix = list(prefix)
        self.points = []

    def choose(self, n):
        if n <= 1:
            return 0
        i = len(self.points)
        choice = self.prefix[i] if i < len(self.prefix) else 0
        if choice >= n:
            raise Divergence(f"schedule replay diverged at point {i}")
        self.points.append(n)
        return choice


def check_schedules(n, k, bound, stats=None):
    expected = [plain_task(i, i + 100) for i in range(n)]
    fails = []
    count = 0
    if k == 1:
        result = parallel_function(plain_task, [[i, i + 100] for i in range(n)], cpus=1)
        if result != expected:
            fails.append(("result-differs-from-sequential", f"n={n} cpus=1: {result}"))
        return fails, 1
    chooser = _Chooser()
    states, transitions = set(), set()

    def run():
        box, order, conc = replay_schedule(n, k, chooser.choose)
        for finished, running, task in box.get("visited", []):
            states.add((finished, running))
            transitions.add((finished, running, task))
        return (repr(box.get("result")), repr(box.get("error")), tuple(order), conc)
    for schedule, points, outcome in explore(run, chooser, bound):
        count += 1
        result_text, error_text, order, conc = outcome
        if stats is not None:
            stats["schedules:replayed"] += 1
            if list(order) != sorted(order):
                stats["schedules:reordered-completion"] += 1
        if error_text != "None":
            fails.append(("schedule-raised", f"n={n} k={k} schedule={schedule}: {error_text[:120]}"))
        elif result_text != repr(expected):
            fails.append(("result-differs-from-sequential", f"n={n} k={k} completion order {list(order)}: {result_text[:200]}"))
    if stats is not None:
        stats["model:states"] += len(states) + 1      # + the final all-finished state
        stats["model:transitions"] += len(transitions)
    return fails, count


def check_faults(n, k, stats=None):
    fails = []
    for position in range(n):
        box, order, _ = replay_schedule(n, k, lambda _n: 0, fail_at=position)
        if stats is not None:
            stats["faults:raised-in-worker"] += 1
        if "error" not in box:
            fails.append(("worker-failure-not-raised", f"n={n} k={k} failing task {position}: returned {box.get('result')!r}"))
    return fails


def check_timeout(n, k, stats=None):
    _reset()
    HANG_AT.value = n - 1
    for event in RELEASE:
        event.set()
    box = {}
    began = time.time()
    try:
        box["result"] = parallel_function(gated_task, [[i, i] for i in range(n)], cpus=k, timeout=1)
    except Exception as err:  # pylint: disable=broad-except
        box["error"] = err
    elapsed = time.time() - began
    if stats is not None:
        stats["faults:timeout"] += 1
    if "error" not in box:
        return [("timeout-not-raised", f"n={n} k={k}: returned {box['result']!r} after {elapsed:.1f}s")]
    if elapsed >= HANG_SECONDS - 1:
        return [("timeout-raised-only-after-the-task-ended", f"n={n} k={k}: {elapsed:.1f}s")]
    return []


def describe(record):
    bio = record.to_biopython()
    handle = io.StringIO()
    SeqIO.write([bio], handle, "genbank")
    text = "\n".join(line for line in handle.getvalue().splitlines() if not line.startswith("LOCUS"))
    links = [(cds.get_name(), str(cds.region.location) if cds.region else None) for cds in record.get_cds_features()]
    areas = [(str(r.location), [str(c.location) for c in r.candidate_clusters], sorted(c.get_name() for c in r.cds_children))
             for r in record.get_regions()]
    protos = [(str(p.location), p.product, sorted(c.get_name() for c in p.definition_cdses), p.get_protocluster_number())
              for p in record.get_protoclusters()]
    return (text, links, areas, protos, str(record.seq), record.id, record.original_id, record.skip)


def identity(record):
    return record


def sample_records():
    from mc.props import c03, c07  # pylint: disable=import-outside-toplevel
    from mc.universe import worlds as W  # pylint: disable=import-outside-toplevel
    from antismash.common.hmm_rule_parser import cluster_prediction  # pylint: disable=import-outside-toplevel
    out = []
    for fam_name, starts, circ in (("mixed", [5, 8, 14], True), ("superiors", [22, 2], True), ("extenders", [5, 9], False),
                                   ("mixed", [5], False), ("chain-2-1", [21, 0, 5], True)):
        fam = [f for f in c03.families("thorough") if f[0] == fam_name][0]
        world = c07.world_for(starts, 24, circ) if circ else {"L": 24, "circ": False, "genes": [
            [f"g{i}", f"+{s}:{s + 3}"] for i, s in enumerate(starts)]}
        rec, _ = W.build_world(world)
        rec.add_annotation("molecule_type", "DNA")
        names = [g for g, _ in world["genes"]]
        hits = {g: {"a": 7, "b": 7} for g in names} if fam[2] != "all-a" else {g: {"a": 7} for g in names}
        results = cluster_prediction.detect_protoclusters_and_signatures(rec, c03.make_ruleset(fam[1], hits))
        results.annotate_cds_features()
        for proto in results.protoclusters:
            rec.add_protocluster(proto)
        rec.create_candidate_clusters()
        rec.create_regions()
        out.append(rec)
    return out


def catalogue_records(tier):
    """annotated records of the shared catalogue (C10-C12), every layout with an origin-spanning gene included, with the caches
    that the pipeline fills (gene lists of areas, defining genes) filled before they cross the process boundary"""
    from mc.universe import catalogue as K  # pylint: disable=import-outside-toplevel
    specs = K.specs("quick")
    if tier == "quick":
        specs = [s for i, s in enumerate(specs) if (s["layout"] in K.CIRCULAR_ONLY and len(s["extras"]) != 1) or i % 7 == 0]
    out = []
    for spec in specs:
        rec = K.build_record(spec)
        K.describe(rec)
        for area in list(rec.get_protoclusters()) + list(rec.get_candidate_clusters()) + list(rec.get_subregions()) + list(rec.get_regions()):
            _ = area.cds_children
        for proto in rec.get_protoclusters():
            _ = proto.definition_cdses
        out.append((spec, rec))
    return out


def check_content(stats=None, tier="quick"):
    from mc.ref.deepstate import deep_state  # pylint: disable=import-outside-toplevel
    sys.setrecursionlimit(max(sys.getrecursionlimit(), 100000))
    fails = []
    # every attribute of every object of the record graph, before and after the process boundary
    labelled = catalogue_records(tier)
    deep_before = [deep_state(rec) for _, rec in labelled]
    for (spec, rec), state in zip(labelled, deep_before):
        if deep_state(pickle.loads(pickle.dumps(rec))) != state:
            fails.append(("record-state-changed-by-pickle", f"catalogue record {spec}"))
    for cpus in (2, 3):
        returned = parallel_function(identity, [[rec] for _, rec in labelled], cpus=cpus)
        if len(returned) != len(labelled):
            fails.append(("pool-result-count", f"{len(returned)} vs {len(labelled)}"))
            continue
        for (spec, _), state, rec in zip(labelled, deep_before, returned):
            if deep_state(rec) != state:
                fails.append(("record-state-changed-by-pool-round-trip", f"cpus={cpus} catalogue record {spec}"))
    if stats is not None:
        stats["content:catalogue-records"] += len(labelled)
        stats["content:origin-spanning-gene-records"] += sum(1 for spec, _ in labelled if spec["layout"].startswith("origin"))
    fails = fails[:20]
    records = sample_records()
    before = [describe(r) for r in records]
    for i, rec in enumerate(records):
        clone = pickle.loads(pickle.dumps(rec))
        if describe(clone) != before[i]:
            fails.append(("record-changed-by-pickle", f"record {i}"))
    returned = parallel_function(identity, [[r] for r in records], cpus=2)
    for i, rec in enumerate(returned):
        if describe(rec) != before[i]:
            fails.append(("record-changed-by-pool-round-trip", f"record {i}"))
    in_process = [describe(record_processing.sanitise_sequence(pickle.loads(pickle.dumps(r)))) for r in records]
    pooled = parallel_function(record_processing.sanitise_sequence, [[r] for r in records], cpus=3)
    for i, rec in enumerate(pooled):
        if describe(rec) != in_process[i]:
            fails.append(("sanitise-differs-between-pool-and-in-process", f"record {i}"))
    if stats is not None:
        stats["content:records"] += len(records) * 3
    return fails


def shards(tier):
    out = []
    if tier == "quick":
        grid = [(n, k, 2) for n in range(1, 6) for k in range(1, 5)] + [(17, 16, 1), (33, 16, 1)]
        fault_grid = [(n, k) for n in (1, 2, 3, 4) for k in (2, 3)]
    else:
        # (17,16) and (33,16) with two deviations would be 8516 and 68156 schedules of a 16-worker pool: out of reach, so the
        # second deviation is explored on pools of up to 8 workers
        grid = [(n, k, 3) for n in range(1, 8) for k in range(1, 5)] + [(17, 16, 1), (33, 16, 1), (9, 2, 3), (9, 3, 2), (8, 4, 2), (12, 8, 1)]
        fault_grid = [(n, k) for n in (1, 2, 3, 4, 5, 6) for k in (2, 3, 4)]
    for n, k, bound in grid:
        out.append(["schedules", n, k, bound])
    out.append(["faults", fault_grid])
    out.append(["lost-worker", [(n, k) for n in (2, 3) for k in (2, 3)]])
    out.append(["histories", 3 if tier == "quick" else 4])
    out.append(["preprocess", 2 if tier == "quick" else 3])
    out.append(["content", tier])
    return out


def run_shard(shard):
    res = Result()
    if shard[0] == "schedules":
        _, n, k, bound = shard
        fails, count = check_schedules(n, k, bound, res.buckets)
        res.evals += count
        res.nontrivial += count if (n > 1 and k > 1) else 0
        res.extra["traces_validated_against_impl"] = count
        res.extra["states"] = res.buckets.get("model:states", 1)
        res.extra["transitions"] = res.buckets.get("model:transitions", 1)
        res.outcomes[("schedules", n, k, len(fails))] += 1
        case = {"kind": "schedules", "n": n, "k": k, "bound": bound}
        for clause, detail in fails:
            res.fail(case, clause, detail)
        res.sample(case, 1)
    elif shard[0] == "faults":
        Cfg.make_config(["--cpus", "2"])
        for n, k in shard[1]:
            res.evals += n + 1
            res.nontrivial += n + 1
            fails = check_faults(n, k, res.buckets) + check_timeout(n, k, res.buckets)
            for clause, detail in fails:
                res.fail({"kind": "faults", "n": n, "k": k}, clause, detail)
        # the worker count can also come from the configuration
        box, order, _ = replay_schedule(3, 2, lambda _n: 0, use_config_default=True)
        if box.get("result") != [plain_task(i, i + 100) for i in range(3)]:
            res.fail({"kind": "config-default", "n": 3, "k": 2}, "result-differs-from-sequential", repr(box)[:200])
        res.evals += 1
        res.outcomes[("faults", len(shard[1]))] += 1
        res.sample({"kind": "faults", "n": 2, "k": 2}, 1)
    elif shard[0] == "lost-worker":
        import concurrent.futures  # pylint: disable=import-outside-toplevel
        cases = [(n, k, -1, "none") for n, k in shard[1]]       # the healthy control: must return the list, and quickly
        cases += [(n, k, position, kind) for n, k in shard[1] for position in range(n) for kind in ("killed", "exit")]
        with concurrent.futures.ThreadPoolExecutor(max_workers=len(cases)) as executor:
            verdicts = list(executor.map(lambda c: check_lost_worker(*c), cases))
        for (n, k, position, kind), fails in zip(cases, verdicts):
            res.evals += 1
            res.nontrivial += position >= 0
            res.buckets["faults:worker-lost" if position >= 0 else "faults:lost-worker-control"] += 1
            res.outcomes[("lost-worker", kind, tuple(c for c, _ in fails))] += 1
            case = {"kind": "lost-worker", "n": n, "k": k, "position": position, "how": kind}
            for clause, detail in fails:
                res.fail(case, clause, detail)
        res.sample({"kind": "lost-worker", "n": 2, "k": 2, "position": 0, "how": "killed"}, 1)
    elif shard[0] == "preprocess":
        size = shard[1]
        lists = [list(combo) for k in range(1, size + 1) for combo in itertools.product(range(len(RAW_RECORDS)), repeat=k)
                 if len(set(combo)) == len(combo)]
        lists.append(list(range(len(RAW_RECORDS))))
        lists.append(list(range(len(RAW_RECORDS)))[::-1])
        for indices in lists:
            for cpus in ((2, 3) if len(indices) > 1 else (2,)):
                res.evals += 1
                res.nontrivial += len(indices) > 1
                fails = check_preprocess(indices, cpus)
                res.buckets["preprocess:compared"] += 1
                res.outcomes[("preprocess", len(indices), cpus, len(fails))] += 1
                for clause, detail in fails:
                    res.fail({"kind": "preprocess", "records": indices, "cpus": cpus}, clause, detail)
        res.sample({"kind": "preprocess", "records": [0, 1, 2], "cpus": 2}, 1)
    elif shard[0] == "histories":
        Cfg.make_config(["--cpus", "2"])
        depth = shard[1]
        for length in range(1, depth + 1):
            for ops in itertools.product(HISTORY_OPS, repeat=length):
                runs = [o for o in ops if o.startswith("run")]
                if not ops[-1].startswith("run") or len(runs) < 2 or not any(o.startswith("set") for o in ops):
                    continue    # only histories with a state change between two batches say anything new
                res.evals += 1
                res.nontrivial += 1
                fails = check_history(list(ops))
                res.buckets["histories:checked"] += 1
                res.outcomes[("history", len(ops), len(fails))] += 1
                for clause, detail in fails:
                    res.fail({"kind": "history", "ops": list(ops)}, clause, detail)
                if res.evals % 17 == 1:
                    res.sample({"kind": "history", "ops": list(ops)})
    else:
        Cfg.make_config(["--cpus", "2"])
        fails = check_content(res.buckets, shard[1] if len(shard) > 1 else "quick")
        res.evals += 15 + 3 * res.buckets.get("content:catalogue-records", 0)
        res.nontrivial += 15 + 3 * res.buckets.get("content:origin-spanning-gene-records", 0)
        for clause, detail in fails:
            res.fail({"kind": "content"}, clause, detail)
        res.outcomes[("content", len(fails))] += 1
        res.sample({"kind": "content"}, 1)
    return res


def finalize(cov, tier):
    cov["schedules"] = cov["buckets"].get("schedules:replayed", 0)
    cov["explanation"] = ("every model trace (completion order) within the deviation bound was replayed on the real multiprocessing pool through "
                          "parallel_function; the controller only advances when the real started-set equals the model's")


def replay(case):
    if case["kind"] == "schedules":
        return check_schedules(case["n"], case["k"], case["bound"])[0]
    if case["kind"] == "lost-worker":
        return check_lost_worker(case["n"], case["k"], case["position"], case["how"])
    if case["kind"] == "faults":
        return check_faults(case["n"], case["k"]) + check_timeout(case["n"], case["k"])
    if case["kind"] == "preprocess":
        return check_preprocess(case["records"], case["cpus"])
    if case["kind"] == "history":
        Cfg.make_config(["--cpus", "2"])
        return check_history(case["ops"])
    if case["kind"] == "content":
        Cfg.make_config(["--cpus", "2"])
        return check_content()
    return []
