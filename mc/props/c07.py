"""C07 Detection is invariant under origin rotation and rule order (metamorphic, no expected values).

Rotation: every gap-word layout on a ring x every hit table x ruleset family, detected at EVERY rotation of the origin
(records rebuilt from scratch; genes cut by the new origin become two-part), then annotate -> add_protocluster ->
create_candidate_clusters -> create_regions; the coordinate-free description must equal the base run's whenever every
base region spans < L/2.
Rule order: every permutation and every sub-selection of the ruleset, on lines and rings.
"""
import itertools

from antismash.common.hmm_rule_parser import cluster_prediction

from mc.engine.core import Result
from mc.props import c03
from mc.ref import bases as R
from mc.universe import worlds as W
from mc.universe.loc import enc, ring_loc

ID = "C07"
LEVEL = "exploration"
RULE = ("cases = (gap-word layout of <=3 length-3 genes with gaps from {0,1,2,3,4,6}, hit table, ruleset family, rotation k in 0..L-1) "
        "and (layout, hit table, family, permutation/sub-selection of the rules); non-trivial = base run has >= 1 protocluster; "
        "distinct by construction")
ASSUMPTIONS = [
    "rotation invariance is demanded only when every region of the base run spans less than half the record (as the property states)",
    "descriptions are computed from set-of-bases containment, not from the record's own gene lookup",
    "per-rule comparison across sub-selections only between rulesets that contain the same superiors of that rule",
]
BOUNDS = {
    "quick": "L=24 ring, <=3 genes, all 24 rotations, families mixed/superiors/extenders/cds/chain-2-1/chain-3-4, reduced hit menu; rule order on L=24 line+ring",
    "thorough": "L=24 and L=25, full hit menu, additional chain families",
}
REQUIRED_BUCKETS = {t: ["rotation:compared", "rotation:origin-cuts-gene", "rotation:origin-cuts-core", "rotation:origin-in-neighbourhood",
                        "rotation:skipped-large-region", "order:permutations", "order:subselections", "rotation:candidates>1", "rotation:gene-with-long-intron"]
                    for t in ("quick", "thorough")}
GAPS = (0, 1, 2, 3, 4, 6)
N_CHUNKS = 32


def gap_layouts(L, k, first=5):
    """gene starts for every gap word"""
    for size in range(1, k + 1):
        for word in itertools.product(GAPS, repeat=size - 1):
            starts = [first]
            for gap in word:
                starts.append(starts[-1] + W.GENE_LEN + gap)
            if starts[-1] + W.GENE_LEN - first > L - 2:
                continue
            yield starts


def _two_exon_gene(start, intron, L, rotation, strand):
    """exons [start, start+2) and [start+2+intron, start+3+intron) (three coding bases in all), rebuilt for the given origin: an
    exon cut by the origin becomes two parts; reverse-strand parts are stored last exon first"""
    from antismash.common.secmet.locations import CompoundLocation, FeatureLocation  # pylint: disable=import-outside-toplevel
    parts = []
    for first, length in ((start, 2), (start + 2 + intron, 1)):
        begin = (first - rotation) % L
        if begin + length <= L:
            parts.append(FeatureLocation(begin, begin + length, strand))
        else:
            parts += [FeatureLocation(begin, L, strand), FeatureLocation(0, begin + length - L, strand)]
    if strand == -1:
        parts.reverse()
    return CompoundLocation(parts)


def world_for(starts, L, circ, rotation=0):
    """starts: gene start positions; an entry [start, intron] stands for a two-exon gene with an intron of that length"""
    genes = []
    for i, s in enumerate(starts):
        strand = 1 if i % 2 == 0 else -1
        if isinstance(s, (list, tuple)) and s[0] == "len":
            # ["len", start, length]: a gene of another length (nested in / containing other genes)
            genes.append([f"g{i}", enc(ring_loc((s[1] - rotation) % L, s[2], L, strand))])
        elif isinstance(s, (list, tuple)):
            genes.append([f"g{i}", enc(_two_exon_gene(s[0], s[1], L, rotation, strand))])
        else:
            genes.append([f"g{i}", enc(ring_loc((s - rotation) % L, W.GENE_LEN, L, strand))])
    return {"L": L, "circ": circ, "genes": genes}


def intron_layouts(L):
    """one gene with a long intron (longer than any other gene of the record) and two ordinary genes placed inside the intron,
    next to either exon or away from the gene"""
    for intron in (5, 9):
        long_gene = [2, intron]
        second_exon = 2 + 2 + intron
        inside = [4 + k for k in range(0, intron - W.GENE_LEN + 1, 2)]
        after = [second_exon + 1 + gap for gap in (0, 2, 4)]
        spots = inside + [s for s in after if s + W.GENE_LEN <= L - 1]
        for a, b in itertools.combinations(spots, 2):
            if b - a >= W.GENE_LEN or (a in inside) != (b in inside):
                yield [long_gene, a, b]
        for a in spots:
            yield [long_gene, a]


def nested_layouts(L):
    """a long gene with a short gene nested in it (every offset) and a short gene on either side at gaps inside, at and beyond the
    cutoff of the extenders family: the gene nearest in list order is not the gene nearest in bases"""
    long_len = 9
    for long_start in (8,):
        for offset in range(0, long_len - W.GENE_LEN + 1, 2):
            nested = long_start + offset
            for gap in (1, 2, 3, 4):
                after = long_start + long_len + gap
                before = long_start - gap - W.GENE_LEN
                yield [["len", long_start, long_len], nested, after]
                yield [["len", long_start, long_len], nested, before]
                yield [["len", long_start, long_len], nested, before, after]
                # and an unrelated gene far from all of them (what an ordered scan meets first on its way round)
                yield [["len", long_start, long_len], nested, after, long_start + long_len + 14]
                yield [["len", long_start, long_len], nested, before, long_start + long_len + 14]


def run_pipeline(world, hits, rules_spec):
    """detect -> annotate -> add protoclusters -> candidates -> regions; returns (description, info)"""
    L = world["L"]
    rec, feats = W.build_world(world)
    sets = {name: R.bases(f.location) for name, f in feats.items()}
    ruleset = c03.make_ruleset(rules_spec, hits)
    results = cluster_prediction.detect_protoclusters_and_signatures(rec, ruleset)
    results.annotate_cds_features()
    for proto in results.protoclusters:
        rec.add_protocluster(proto)
    rec.create_candidate_clusters()
    rec.create_regions()

    def inside(location):
        return frozenset(g for g in feats if R.contains(location, feats[g].location))

    def proto_desc(proto):
        return (proto.product, tuple(sorted(inside(proto.core_location))), tuple(sorted(inside(proto.location))),
                tuple(sorted(c.get_name() for c in proto.definition_cdses)))
    protos = sorted(proto_desc(p) for p in rec.get_protoclusters())
    cands = sorted((str(c.kind), tuple(sorted(proto_desc(p) for p in c.protoclusters)), tuple(sorted(inside(c.location))))
                   for c in rec.get_candidate_clusters())
    regions = sorted((tuple(sorted((str(c.kind), tuple(sorted(proto_desc(p) for p in c.protoclusters))) for c in r.candidate_clusters)),
                      tuple(sorted(inside(r.location)))) for r in rec.get_regions())
    info = {
        "max_region": max([len(r.location) for r in rec.get_regions()], default=0),
        "cores": [R.bases(p.core_location) for p in rec.get_protoclusters()],
        "extents": [R.bases(p.location) for p in rec.get_protoclusters()],
        "genes": sets,
        "n_cands": len(cands),
    }
    return {"protoclusters": protos, "candidates": cands, "regions": regions}, info


def per_rule(world, hits, rules_spec):
    rec, feats = W.build_world(world)
    ruleset = c03.make_ruleset(rules_spec, hits)
    results = cluster_prediction.detect_protoclusters_and_signatures(rec, ruleset)
    out = {}
    for proto in results.protoclusters:
        out.setdefault(proto.product, []).append((str(proto.core_location), str(proto.location)))
    return {k: sorted(v) for k, v in out.items()}


def families(tier):
    wanted = ["mixed", "superiors", "extenders", "cond-cds-a-and-b", "chain-2-1", "chain-3-4"]
    if tier == "thorough":
        wanted += ["cond-a-and-b", "cond-min2", "chain-2-0", "chain-5-1", "cond-a-not-b"]
    fams = {f[0]: f for f in c03.families("thorough")}
    # c03's distances are tuned for L=13; same values work on L=24 with regions < L/2
    return [fams[w] for w in wanted]


def hit_tables(names, mode, tier):
    if mode == "all-a":
        return [{g: {"a": 7} for g in names}]
    menu = c03.HITS_AB_FULL if (tier == "thorough" or len(names) < 3) else c03.HITS_AB_SMALL
    return [dict(zip(names, combo)) for combo in itertools.product(menu, repeat=len(names)) if any(combo)]


def shards(tier):
    out = []
    lengths = (24,) if tier == "quick" else (24, 25)
    for L in lengths:
        for fam in families(tier):
            nchunks = 4 if fam[0].startswith("chain") else N_CHUNKS
            for chunk in range(nchunks):
                out.append(["rotation", L, fam[0], chunk, nchunks, tier])
    for fam in ("mixed", "cond-a-not-b", "cond-cds-a-and-b", "extenders", "superiors"):
        for chunk in range(8):
            out.append(["rotation-intron", 24, fam, chunk, 8, tier])
    for fam in ("extenders", "mixed", "cutoff0"):
        for chunk in range(8):
            out.append(["rotation-nested", 36, fam, chunk, 8, tier])
    for L in lengths[:1]:
        for circ in (False, True):
            for fam in ("mixed", "superiors", "mixed4"):
                for chunk in range(16):
                    out.append(["order", L, circ, fam, chunk, 16, tier])
    return out


# a rule with CUTOFF 0 (the shipped NRPS-like rule has one): only genes that overlap each other form one core
CUTOFF0 = ("cutoff0", [("r1", 0, 1, c03.ID_A, [], None)], "all-a")
MIXED4 = ("mixed4", [("r1", 5, 1, c03.ID_A, [], None), ("r2", 2, 0, c03.ID_B, [], None),
                     ("r3", 5, 0, ["and", [c03.ID_A, c03.ID_B]], ["r1"], None), ("r4", 3, 2, ["or", False, [c03.ID_A, c03.ID_B]], [], None)], "ab")


def check_rotation(starts, L, hits, rules_spec, rotation, base=None, stats=None):
    if base is None:
        try:
            base = run_pipeline(world_for(starts, L, True), hits, rules_spec)
        except Exception as err:  # pylint: disable=broad-except
            return [("base-raised", f"{type(err).__name__}: {str(err)[:150]}")]
    desc0, info0 = base
    if 2 * info0["max_region"] >= L:
        if stats is not None:
            stats["rotation:skipped-large-region"] += 1
        return []
    try:
        desc, _ = run_pipeline(world_for(starts, L, True, rotation), hits, rules_spec)
    except Exception as err:  # pylint: disable=broad-except
        return [("rotated-raised", f"{type(err).__name__}: {str(err)[:150]}")]
    if stats is not None:
        stats["rotation:compared"] += 1
        if any(rotation in b and (rotation - 1) % L in b for b in info0["genes"].values()):
            stats["rotation:origin-cuts-gene"] += 1
        if any(rotation in b and (rotation - 1) % L in b for b in info0["cores"]):
            stats["rotation:origin-cuts-core"] += 1
        if any(rotation in e and (rotation - 1) % L in e and not (rotation in c and (rotation - 1) % L in c)
               for e, c in zip(info0["extents"], info0["cores"])):
            stats["rotation:origin-in-neighbourhood"] += 1
        if info0["n_cands"] > 1:
            stats["rotation:candidates>1"] += 1
    fails = []
    for level in ("protoclusters", "candidates", "regions"):
        if desc[level] != desc0[level]:
            fails.append((f"rotation-{level}", f"base={desc0[level]} rotated={desc[level]}"[:600]))
            break
    return fails


def check_order(world, hits, rules_spec, order):
    """order: tuple of rule indices (a permutation of a subset)"""
    full = per_rule(world, hits, rules_spec)
    sub = [rules_spec[i] for i in order]
    names = {r[0] for r in sub}
    # drop references to absent superiors so the sub-ruleset is valid
    sub = [(n, c, nb, t, [s for s in sups if s in names], e) for n, c, nb, t, sups, e in sub]
    try:
        got = per_rule(world, hits, sub)
    except Exception as err:  # pylint: disable=broad-except
        return [("order-raised", f"{type(err).__name__}: {str(err)[:150]}")]
    fails = []
    for name, _, _, _, sups, _ in rules_spec:
        if name not in names:
            continue
        if any(s not in names for s in sups):
            continue   # a superior of this rule was removed: the documented exception
        if got.get(name, []) != full.get(name, []):
            fails.append((f"order-{name}", f"full={full.get(name)} order={list(order)} -> {got.get(name)}"))
    return fails


def run_shard(shard):
    res = Result()
    if shard[0] in ("rotation", "rotation-intron", "rotation-nested"):
        _, L, famname, chunk, nchunks, tier = shard
        fam = CUTOFF0 if famname == "cutoff0" else [f for f in c03.families("thorough") if f[0] == famname][0] if shard[0] != "rotation" else \
            [f for f in families(tier) if f[0] == famname][0]
        index = 0
        for starts in (gap_layouts(L, 3) if shard[0] == "rotation" else intron_layouts(L) if shard[0] == "rotation-intron" else nested_layouts(L)):
            if shard[0] == "rotation-nested":
                res.buckets["rotation:nested-genes"] += 1
            if shard[0] == "rotation-intron":
                res.buckets["rotation:gene-with-long-intron"] += 1
            names = [f"g{i}" for i in range(len(starts))]
            for hits in hit_tables(names, fam[2], tier):
                index += 1
                if index % nchunks != chunk:
                    continue
                try:
                    base = run_pipeline(world_for(starts, L, True), hits, fam[1])
                except Exception as err:  # pylint: disable=broad-except
                    res.evals += 1
                    res.fail({"kind": "rotation", "L": L, "starts": starts, "hits": hits, "family": famname, "k": 0},
                             "base-raised", f"{type(err).__name__}: {str(err)[:150]}")
                    continue
                for k in range(1, L):
                    res.evals += 1
                    res.nontrivial += bool(base[0]["protoclusters"])
                    fails = check_rotation(starts, L, hits, fam[1], k, base, res.buckets)
                    res.outcomes[(famname.split("-")[0], tuple(c for c, _ in fails))] += 1
                    if fails or res.evals % 5003 == 1:
                        case = {"kind": "rotation", "L": L, "starts": starts, "hits": hits, "family": famname, "k": k}
                        for clause, detail in fails:
                            res.fail(case, clause, detail)
                        res.sample(case)
    else:
        _, L, circ, famname, chunk, nchunks, tier = shard
        fam = MIXED4 if famname == "mixed4" else [f for f in c03.families("thorough") if f[0] == famname][0]
        n = len(fam[1])
        orders = [perm for size in range(1, n + 1) for subset in itertools.combinations(range(n), size)
                  for perm in itertools.permutations(subset)]
        index = 0
        for starts in gap_layouts(L, 3, first=L - 4 if circ else 2):
            names = [f"g{i}" for i in range(len(starts))]
            world = world_for(starts, L, circ) if circ else {"L": L, "circ": False, "genes": [
                [f"g{i}", enc(ring_loc(s, W.GENE_LEN, L, 1 if i % 2 == 0 else -1))] for i, s in enumerate(starts)]}
            if not circ and starts[-1] + W.GENE_LEN > L:
                continue
            for hits in hit_tables(names, "ab", tier):
                index += 1
                if index % nchunks != chunk:
                    continue
                for order in orders:
                    if list(order) == list(range(n)):
                        continue
                    res.evals += 1
                    res.nontrivial += 1
                    res.buckets["order:permutations" if len(order) == n else "order:subselections"] += 1
                    fails = check_order(world, hits, fam[1], order)
                    res.outcomes[("order", famname, tuple(c for c, _ in fails))] += 1
                    if fails or res.evals % 5003 == 1:
                        case = {"kind": "order", "world": world, "hits": hits, "family": famname, "order": list(order)}
                        for clause, detail in fails:
                            res.fail(case, clause, detail)
                        res.sample(case)
    return res


def replay(case):
    if case["kind"] == "rotation":
        fam = ([CUTOFF0] if case["family"] == "cutoff0" else [])
        fam = (fam or [f for f in families("thorough") if f[0] == case["family"]] or [f for f in c03.families("thorough") if f[0] == case["family"]])[0]
        return check_rotation(case["starts"], case["L"], case["hits"], fam[1], case["k"])
    fam = MIXED4 if case["family"] == "mixed4" else [f for f in c03.families("thorough") if f[0] == case["family"]][0]
    return check_order(case["world"], case["hits"], fam[1], tuple(case["order"]))
