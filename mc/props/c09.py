"""C09 Annotations placed inside a gene cover the nucleotides that encode them.

Gene structures (strand, 1-3 exons at every cut position incl. mid-codon, intron lengths, every rotation class of the
origin on a ring) x every protein range [s,e), through get_sub_location_from_protein_coordinates, Prepeptide.to_biopython,
TTAResults.new_feature_from_other, generate_domain_features and generate_motif_features, against the transcript-order
list of the gene (what Bio's extract() concatenates).
"""
import itertools

from Bio.Seq import Seq
from Bio.SeqFeature import SeqFeature

from antismash.common.hmmscan_refinement import HMMResult
from antismash.common.secmet.features import CDSFeature, Feature, Prepeptide
from antismash.common.secmet.locations import CompoundLocation as C, FeatureLocation as F
from antismash.detection.nrps_pks_domains.domain_identification import generate_domain_features, generate_motif_features
from antismash.modules.tta.tta import TTAResults

from mc.engine.core import Result
from mc.ref import bases as R
from mc.universe import worlds as W
from mc.universe.loc import dec, enc

ID = "C09"
LEVEL = "exploration"
RULE = ("cases = (gene location, protein range [s,e), entry point); gene locations: strand +/-, coding length in the stated set split into "
        "1-3 exons at every cut position, intron lengths from the stated set, on a line and on a ring of 60 with the origin before the gene, "
        "on every exon border, inside every exon and inside every intron; every 0 <= s < e <= len//3; non-trivial = multi-exon or "
        "origin-spanning gene; distinct by construction")
ASSUMPTIONS = [
    "transcript order = parts in stored order, each reversed on the reverse strand (Biopython extract semantics); reverse-strand parts are stored in biological order",
    "index-list equality is checked (stronger than equality of extracted sequence); one real extraction+translation per gene binds it to the record",
]
BOUNDS = {
    "quick": "coding lengths {12,15}, introns {1,3}, <=3 exons, all origin placements, all ranges; entry points: feature, prepeptide, tta, domain, motif",
    "thorough": "coding lengths {12,15,18,21}, introns {1,2,3}, <=3 exons (length 21: <=2 exons)",
}
REQUIRED_BUCKETS = {t: ["gene:codon-start", "gene:multi-exon", "gene:origin-in-exon", "gene:origin-on-border", "gene:origin-in-intron", "gene:reverse",
                        "range:spans-exon-border", "via:prepeptide", "via:tta", "via:domain", "via:motif"] for t in ("quick", "thorough")}
L = 60
SEQ = None


def _sequence():
    """a fixed sequence without stop codons problems: varied bases"""
    global SEQ
    if SEQ is None:
        import random
        rng = random.Random(12345)
        SEQ = "".join(rng.choice("ACGT") for _ in range(L))
    return SEQ


def gene_locations(total, max_exons, introns):
    """yields (location, circular, tag)"""
    for strand in (1, -1):
        for nex in range(1, max_exons + 1):
            for cuts in itertools.combinations(range(1, total), nex - 1):
                lens = [b - a for a, b in zip((0,) + cuts, cuts + (total,))]
                for intron in (introns if nex > 1 else introns[:1]):
                    # exons ascending from position 20
                    pos = 20
                    exons = []
                    if intron < 0 and min(lens) <= -intron:
                        continue        # an exon must be longer than the overlap with its neighbour
                    for ln in lens:
                        exons.append((pos, pos + ln))
                        pos += ln + intron
                    placements = [(None, "line"), (0, "ring-away")]
                    # origin on each exon border / inside each exon / inside each intron
                    for idx, (s, e) in enumerate(exons):
                        placements.append((-s, f"border-start-{idx}"))
                        placements.append((-e, f"border-end-{idx}"))
                        if e - s > 1:
                            placements.append((-(s + (e - s) // 2), f"in-exon-{idx}"))
                            placements.append((-(s + 1), f"in-exon-first-base-{idx}"))
                        if idx + 1 < len(exons) and intron > 1:
                            placements.append((-(e + 1), f"in-intron-{idx}"))
                    if intron < 0:
                        placements = placements[:2]     # overlapping exons are not rotated onto the origin
                    seen = set()
                    for shift, tag in placements:
                        circ = shift is not None
                        shift = shift or 0
                        parts = []
                        for s, e in exons:
                            s2 = (s + shift) % L
                            e2 = s2 + (e - s)
                            if e2 <= L:
                                parts.append(F(s2, e2, strand))
                            else:
                                parts += [F(s2, L, strand), F(0, e2 - L, strand)]
                        if strand == -1:
                            parts = parts[::-1]
                        loc = parts[0] if len(parts) == 1 else C(parts)
                        key = (enc(loc), circ)
                        if key in seen:
                            continue
                        seen.add(key)
                        yield loc, circ, tag


N_SPLIT = 4


def shards(tier):
    if tier == "quick":
        # (a negative intron is an overlap: exons of a programmed frameshift read the bases at their junction twice)
        plans = [(12, 3, (1, 3, -1)), (15, 3, (1, 3))]
    else:
        plans = [(12, 4, (1, 2, 3, 4, -1, -2)), (15, 4, (1, 2, 3)), (18, 3, (1, 2, 3)), (21, 3, (1, 3)), (24, 2, (1, 3))]
    out = []
    for total, max_exons, introns in plans:
        for strand in (1, -1):
            for part in range(N_SPLIT):
                out.append([total, max_exons, list(introns), strand, part])
    return out


def load_with_codon_start(loc, circ, codon_start, seq):
    """the gene as the pipeline receives it: a GenBank CDS with a codon_start qualifier, through the real loader"""
    from Bio.SeqFeature import SeqFeature  # pylint: disable=import-outside-toplevel
    rec = W.make_record(L, circ, seq)
    bio = SeqFeature(loc, type="CDS", qualifiers={"locus_tag": ["gene"], "codon_start": [str(codon_start)],
                                                  "translation": ["M" * ((len(loc) - codon_start + 1) // 3)]})
    return CDSFeature.from_biopython(bio, record=rec)


def check_codon_start(loc, circ, codon_start, seq, res):
    """a gene with a frame offset: the loader moves the 5' end by codon_start - 1 bases (also when the 5' exon is the one before
    the origin), writes the original location back out, and annotations are placed relative to the moved location"""
    T = R.transcript(loc)
    case = {"loc": enc(loc), "circ": circ, "via": "codon_start", "s": codon_start, "e": 0}
    first_exon = loc.parts[0]
    if len(first_exon) < codon_start:
        return      # a 5' exon that the frame offset would empty: degenerate input, its rejection is not judged
    res.evals += 1
    res.buckets["gene:codon-start"] += 1
    try:
        gene = load_with_codon_start(loc, circ, codon_start, seq)
        out = gene.to_biopython()[0]
    except Exception as err:  # pylint: disable=broad-except
        res.fail(case, "codon-start-load-raised", f"{type(err).__name__}: {str(err)[:120]}")
        return
    if R.transcript(gene.location) != T[codon_start - 1:]:
        res.fail(case, "codon-start-adjusted-location", f"{gene.location} from {loc}")
        return
    if enc(out.location) != enc(loc) or out.qualifiers.get("codon_start") != [str(codon_start)]:
        res.fail(case, "codon-start-not-restored-on-output", f"{out.location} codon_start={out.qualifiers.get('codon_start')} from {loc}")
    residues = len(gene.location) // 3
    for s in range(residues):
        for e in range(s + 1, residues + 1):
            for via in ("feature", "domain" if (s + e) % 2 == 0 else "motif"):
                res.evals += 1
                res.nontrivial += 1
                fails = check_range(gene.location, circ, s, e, via, gene)
                res.outcomes[("codon_start", via, tuple(sorted(c for c, _ in fails)))] += 1
                for clause, detail in fails:
                    res.fail({"loc": enc(loc), "circ": circ, "via": via, "s": s, "e": e, "codon_start": codon_start}, clause, detail)


def expected(loc, s, e):
    return R.transcript(loc)[3 * s:3 * e]


def check_range(loc, circ, s, e, via, gene=None, rec=None):
    """-> fails"""
    T = R.transcript(loc)
    want = T[3 * s:3 * e]
    try:
        if via == "feature":
            feat = Feature(loc, feature_type="misc")
            subs = [("sub", feat.get_sub_location_from_protein_coordinates(s, e), want)]
        elif via in ("domain", "motif"):
            gene = gene or W.make_cds(loc, "gene")
            hit = HMMResult("PKS_KS", s, e, 1e-10, 50.0)
            if via == "domain":
                made = list(generate_domain_features(gene, [hit]).values())
            else:
                made = generate_motif_features(gene, [hit])
            subs = [(via, made[0].location, want)]
            if int(made[0].protein_location.start) != s or int(made[0].protein_location.end) != e:
                return [(f"{via}-protein-location", f"{made[0].protein_location}")]
        elif via == "prepeptide":
            # s = leader length, e = end of core; tail = rest
            total = len(T) // 3
            pre = Prepeptide(loc, "lanthipeptide", "X" * (e - s), "gene", "tool", leader="L" * s, tail="T" * (total - e))
            bio = pre.to_biopython()
            subs = []
            idx = 0
            if s:
                subs.append(("leader", bio[idx].location, T[:3 * s]))
                idx += 1
            subs.append(("core", bio[idx].location, T[3 * s:3 * e]))
            idx += 1
            if total - e:
                subs.append(("tail", bio[idx].location, T[3 * e:3 * total]))
        elif via == "prepeptide-stop":
            # as the RiPP modules build it: the location of the whole gene, stop codon included, with leader + core + tail
            # making up the translation (which has no stop): here the last codon of the location plays the stop
            total = len(T) // 3 - 1
            if e > total:
                return []
            pre = Prepeptide(loc, "lanthipeptide", "X" * (e - s), "gene", "tool", leader="L" * s, tail="T" * (total - e))
            bio = pre.to_biopython()
            subs = []
            idx = 0
            if s:
                subs.append(("leader", bio[idx].location, T[:3 * s]))
                idx += 1
            subs.append(("core", bio[idx].location, T[3 * s:3 * e]))
            idx += 1
            if total - e:
                subs.append(("tail", bio[idx].location, T[3 * e:3 * total]))
        elif via == "tta":
            results = TTAResults("rec", 0.7, 0.65)
            feat = Feature(loc, feature_type="CDS")
            made = results.new_feature_from_other(feat, 3 * s)
            codon = T[3 * s:3 * s + 3]
            contiguous = codon in ([codon[0], codon[0] + 1, codon[0] + 2], [codon[0], codon[0] - 1, codon[0] - 2])
            if made is None and not contiguous:
                # a codon split over exons (or the origin) cannot be marked by a single three-base location; not placing
                # a marker is consistent with the statement, which speaks about annotations that are positioned
                subs = []
            elif made is None:
                return [("tta-not-marked", f"codon {codon}")]
            else:
                subs = [("tta", made.location, codon)]
        else:
            raise ValueError(via)
    except Exception as err:  # pylint: disable=broad-except
        return [(f"{via}-raised", f"{type(err).__name__}: {str(err)[:120]}")]
    fails = []
    gene_bases = R.bases(loc)
    for label, sub, exp in subs:
        got = R.transcript(sub)
        if not set(got) <= gene_bases:
            fails.append((f"{via}-outside-gene", f"{label}: {sub}"))
        elif len(got) != len(exp):
            fails.append((f"{via}-not-three-per-residue", f"{label}: {sub} has {len(got)} bases, expected {len(exp)}"))
        elif got != exp:
            fails.append((f"{via}-wrong-bases", f"{label}: {sub} expected transcript positions {exp}"))
        elif any(p.strand != loc.strand for p in sub.parts):
            fails.append((f"{via}-strand", f"{label}: {sub}"))
    return fails


def run_shard(shard):
    total, max_exons, introns, strand_only, split = shard
    res = Result()
    seq = _sequence()
    for number, (loc, circ, tag) in enumerate(gene_locations(total, max_exons, tuple(introns))):
        if loc.strand != strand_only or number % N_SPLIT != split:
            continue
        multi = len(loc.parts) > 1
        bridging = circ and (0 in R.bases(loc) and L - 1 in R.bases(loc))
        T = R.transcript(loc)
        borders = set()
        acc = 0
        for part in loc.parts[:-1]:
            acc += len(part)
            borders.add(acc)
        # one real extraction / translation to bind index lists to the record
        rec = W.make_record(L, circ, seq)
        extracted = str(loc.extract(rec.seq))
        by_index = "".join(_comp(seq[i]) if loc.strand == -1 else seq[i] for i in T)
        res.evals += 1
        if extracted != by_index:
            res.fail({"loc": enc(loc), "circ": circ, "via": "extract"}, "transcript-model-differs-from-extract", f"{extracted} vs {by_index}")
            continue
        gene = W.make_cds(loc, "gene")
        for s in range(total // 3):
            for e in range(s + 1, total // 3 + 1):
                vias = ["feature", "prepeptide"]
                # (fails for every range - finding C09-F1 - so only the shortest and longest cores with no / one leader residue, on every 16th gene structure)
                if e < total // 3 and s <= 1 and e in (s + 1, total // 3 - 1) and number % 16 == 0:
                    vias.append("prepeptide-stop")
                if (s + e) % 2 == 0:
                    vias.append("domain")
                else:
                    vias.append("motif")
                if e == s + 1:
                    vias.append("tta")
                for via in vias:
                    res.evals += 1
                    res.nontrivial += multi
                    fails = check_range(loc, circ, s, e, via, gene)
                    res.buckets[f"via:{via}"] += 1
                    if any(3 * s < b < 3 * e for b in borders):
                        res.buckets["range:spans-exon-border"] += 1
                    res.outcomes[(via, multi, bool(bridging), tuple(sorted(c for c, _ in fails)))] += 1
                    if fails or res.evals % 10007 == 1:
                        case = {"loc": enc(loc), "circ": circ, "s": s, "e": e, "via": via}
                        for clause, detail in fails:
                            res.fail(case, clause, detail)
                        res.sample(case)
        # frame offsets: every structure with codon_start 2 and 3 (genes too short to lose two bases are skipped)
        if total >= 9 and (total <= 15 or number % 3 == 0):
            for codon_start in (2, 3):
                check_codon_start(loc, circ, codon_start, seq, res)
        if multi:
            res.buckets["gene:multi-exon"] += 1
        if tag.startswith("in-exon"):
            res.buckets["gene:origin-in-exon"] += 1
        if tag.startswith("border"):
            res.buckets["gene:origin-on-border"] += 1
        if tag.startswith("in-intron"):
            res.buckets["gene:origin-in-intron"] += 1
        if loc.strand == -1:
            res.buckets["gene:reverse"] += 1
    return res


def _comp(base):
    return {"A": "T", "C": "G", "G": "C", "T": "A"}[base]


def replay(case):
    if case["via"] == "extract":
        return []
    if case["via"] == "codon_start" or case.get("codon_start"):
        res = Result()
        check_codon_start(dec(case["loc"]), case["circ"], case.get("codon_start") or case["s"], _sequence(), res)
        return [(clause, detail) for _, clause, detail in res.failures]
    return check_range(dec(case["loc"]), case["circ"], case["s"], case["e"], case["via"])
