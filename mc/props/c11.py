"""C11 Reusing saved module results reproduces the original results.

Result objects of five module families (rule detection, sideloading, NRPS/PKS domains+modules, HMMer-based domains,
TTA) are produced by the real producers over catalogue records. For each object a breadth-first search explores
histories over {regenerate+save, change one option, bump / drop the schema field, change the record id} (state = saved
JSON text + option vector + tamper flag, deduplicated by hash); every regeneration is executed on the real module-level
regenerate functions against a fresh record.
"""
import collections
import copy
import hashlib

from antismash.common import hmmer
from antismash.common import json as as_json
from antismash.config import build_config, destroy_config, update_config
from antismash.detection import full_hmmer, hmm_detection, nrps_pks_domains, sideloader
from antismash.detection.sideloader.data_structures import ProtoclusterAnnotation, SideloadedResults, SubRegionAnnotation
from antismash.common.hmm_rule_parser import cluster_prediction
from antismash.common.secmet import Record
from antismash.modules import pfam2go as pfam2go_module
from antismash.modules import tta

from mc.engine.core import Result
from antismash.common.hmm_rule_parser.structures import Multipliers

from mc.props import c03
from mc.universe import catalogue as K
from mc.universe.config import DummyGenefinding

ID = "C11"
LEVEL = "model_checking"
RULE = ("objects = results of each family over catalogue records (topology x gene layout x ruleset / sideload variant); states = (saved JSON "
        "text, option vector, tamper flag) reached by histories over the operation alphabet up to the depth bound; every 'regenerate' transition "
        "runs the real regeneration against a fresh record; non-trivial = state reached through at least one regeneration; states deduplicated by hash")
ASSUMPTIONS = [
    "a 'fresh record' is the normalised input record without antiSMASH annotations (reuse strips them before regenerating)",
    "the three HMMER look-ups of the NRPS/PKS module are replaced by fixed hit tables; modules needing external tools to produce results are out of scope",
    "refusal = regeneration returns None, raises, or the regenerated object refuses to be applied to the record",
    "under changed settings a regenerated object is accepted iff its saved form equals that of a fresh run under the new settings, or equals the "
    "original where the module documents the setting as ignorable (hmm detection strictness, with a warning)",
]
BOUNDS = {"quick": "depth 4 (state space closes earlier for most objects); rule detection incl. records with a pre-existing subregion, sideloading, NRPS/PKS, HMMer, TTA on the quick layouts", "thorough": "depth 6; all layouts x rulesets x topologies"}
REQUIRED_BUCKETS = {t: ["regen:identical", "regen:refused-tampered", "regen:option-changed-accepted", "regen:option-changed-refused", "rules:hits-outside-protoclusters",
                        "effect:compared"] for t in ("quick", "thorough")}
_REAL_RULE_NAMES = None


def make_options(overrides=None):
    destroy_config()
    options = build_config(["--cpus", "1", "--minlength", "1"], isolated=True,
                           modules=[DummyGenefinding, hmm_detection, tta, full_hmmer, sideloader, nrps_pks_domains, pfam2go_module])
    update_config({"triggered_limit": False})
    if overrides:
        options = update_config(dict(overrides))
    return options


def real_rule_names(options):
    """the rule names the real hmm_detection ruleset has under these options (strictness, rule subset)"""
    global _REAL_RULE_NAMES
    if _REAL_RULE_NAMES is None:
        _REAL_RULE_NAMES = {}
    key = (options.hmmdetection_strictness, tuple(sorted(options.hmmdetection_limit_to_rules)))
    if key not in _REAL_RULE_NAMES:
        _REAL_RULE_NAMES[key] = sorted(hmm_detection.get_ruleset(options).get_rule_names())
    return _REAL_RULE_NAMES[key]


def fresh_record(spec):
    bio = K.normalise(K.make_biopython(spec["circ"], spec["layout"], ()))
    rec = Record.from_biopython(bio, taxon="bacteria")
    rec.record_index = 1
    return rec


def add_areas(rec, results):
    for proto in results.get_predicted_protoclusters():
        rec.add_protocluster(proto)
    for sub in results.get_predicted_subregions():
        rec.add_subregion(sub)


def finish(rec):
    rec.create_candidate_clusters()
    rec.create_regions()
    return rec


class Family:
    """ name, option menu {option: [default, alternatives...]}, schema key, record id key """
    name = ""
    options_menu = {}
    schema_key = "schema_version"
    record_key = "record_id"

    def __init__(self, spec):
        self.spec = spec

    def prepare(self, options):
        """ a fresh record with the prerequisites of the family applied -> record """
        return fresh_record(self.spec)

    def produce(self, options):
        """ -> (results object, record with the results applied) ; None results if nothing is produced """
        raise NotImplementedError

    def regenerate(self, data, rec, options):
        raise NotImplementedError

    def apply(self, results, rec):
        raise NotImplementedError

    def ignorable(self, option):
        return False


def _detect(rec, rules, multipliers=None):
    spec = K.RULESETS[rules]
    # the rule set applies the multipliers of the taxon itself (once), as the copy made by hmm_detection.get_ruleset does
    ruleset = c03.make_ruleset(spec, K.HITS[rules], multipliers)
    results = cluster_prediction.detect_protoclusters_and_signatures(rec, ruleset)
    results.annotate_cds_features()
    return results


class RulesFamily(Family):
    name = "rules"
    # every setting hmm_detection documents as deciding whether saved results may be reused
    options_menu = {"hmmdetection_strictness": ["relaxed", "strict", "loose"], "taxon": ["bacteria", "fungi"],
                    "hmmdetection_fungal_neighbourhood_multiplier": [1.5, 1.0], "hmmdetection_limit_to_rules": [(), ("T1PKS",)]}

    def prepare(self, options):
        rec = fresh_record(self.spec)
        if self.spec.get("presub"):
            # a subregion that exists before detection runs (sideloaded): its genes' hits are kept even outside protoclusters
            wrap = K.L if self.spec["circ"] else None
            for sub in SideloadedResults(rec.id, [SubRegionAnnotation(6, 141, "anchor", K.TOOL, {}, circular_origin=wrap)],
                                         []).get_predicted_subregions():
                rec.add_subregion(sub)
        return rec

    def produce(self, options):
        rec = self.prepare(options)
        multipliers = Multipliers()
        if options.taxon == "fungi":
            multipliers = Multipliers(options.hmmdetection_fungal_cutoff_multiplier, options.hmmdetection_fungal_neighbourhood_multiplier)
        rule_results = _detect(rec, self.spec["rules"], multipliers)
        self.outside_hits = len(rule_results.cdses_outside_clusters)
        results = hmm_detection.HMMDetectionResults(rec.id, rule_results, list(real_rule_names(options)), options.hmmdetection_strictness)
        add_areas(rec, results)
        return results, finish(rec)

    def regenerate(self, data, rec, options):
        return hmm_detection.regenerate_previous_results(data, rec, options)

    def apply(self, results, rec):
        add_areas(rec, results)
        return finish(rec)

    def ignorable(self, option):
        return False


class SideloadFamily(Family):
    name = "sideload"

    def produce(self, options):
        rec = self.prepare(options)
        wrap = K.L if self.spec["circ"] else None
        variant = self.spec["sideload"]
        subs, protos = [], []
        if variant in ("sub", "both"):
            subs.append(SubRegionAnnotation(6, 141, "anchor", K.TOOL, {"extra": ["one", "two"]}, circular_origin=wrap))
        if variant in ("proto", "both"):
            protos.append(ProtoclusterAnnotation(150, 210, "sideprod", K.TOOL, {"key": ["value"]}, 9, 12, circular_origin=wrap))
        if variant == "twin-sub":
            subs += [SubRegionAnnotation(6, 141, "first", K.TOOL, {}, circular_origin=wrap),
                     SubRegionAnnotation(6, 141, "second", K.TOOL, {"k": ["v"]}, circular_origin=wrap)]
        if variant == "origin-sub":
            subs.append(SubRegionAnnotation(204, 36, "over origin", K.TOOL, {}, circular_origin=wrap))
            protos.append(ProtoclusterAnnotation(222, 30, "overprod", K.TOOL, {}, 6, 6, circular_origin=wrap))
        results = SideloadedResults(rec.id, subs, protos)
        add_areas(rec, results)
        return results, finish(rec)

    def regenerate(self, data, rec, options):
        return sideloader.regenerate_previous_results(data, rec, options)

    def apply(self, results, rec):
        add_areas(rec, results)
        return finish(rec)


class NRPSFamily(Family):
    name = "nrps"

    def prepare(self, options):
        rec = fresh_record(self.spec)
        results = _detect(rec, "mixed")
        for proto in results.protoclusters:
            rec.add_protocluster(proto)
        return finish(rec)

    def produce(self, options):
        rec = self.prepare(options)
        results = K.nrps_results(rec, self.spec.get("variant"))
        results.add_to_record(rec)
        return results, rec

    def regenerate(self, data, rec, options):
        return nrps_pks_domains.regenerate_previous_results(data, rec, options)

    def apply(self, results, rec):
        results.add_to_record(rec)
        return rec


class HmmerFamily(Family):
    name = "hmmer"
    schema_key = "schema"
    record_key = "record id"

    def produce(self, options):
        rec = self.prepare(options)
        hits = []
        for index, gene in enumerate(rec.get_cds_features()):
            if len(gene.translation) < 15 or self.spec.get("variant") == "no-hits":
                continue    # too short for the fixed hit coordinates / a record on which the search found nothing
            for start, end, score, evalue in ((1, 8, 30.0 + index, 1e-5), (9, 15, 5.0, 1e-3), (3, 12, 0.5, 5e-3)):
                loc = gene.get_sub_location_from_protein_coordinates(start, end)
                hits.append(hmmer.HmmerHit(location=str(loc), label="PFtest", locus_tag=gene.get_name(), domain="p450", evalue=evalue,
                                           score=score, identifier="PF00067.1", description="a domain", protein_start=start,
                                           protein_end=end, translation=gene.translation[start:end]))
        results = hmmer.HmmerResults(rec.id, full_hmmer.MAX_EVALUE, full_hmmer.MIN_SCORE, "/nonexistent/pfam/31.0/Pfam-A.hmm", "fullhmmer", hits)
        results.add_to_record(rec)
        return results, rec

    def regenerate(self, data, rec, options):
        return full_hmmer.regenerate_previous_results(data, rec, options)

    def apply(self, results, rec):
        results.add_to_record(rec)
        return rec


class TTAFamily(Family):
    name = "tta"
    options_menu = {"tta_threshold": [0.3, 0.4, 0.9]}

    def __init__(self, spec):
        super().__init__(spec)
        # the boundary of the documented comparison: a threshold exactly equal to the record's own GC content
        # (detection runs when gc >= threshold, so reuse at that threshold must keep the saved codons)
        own_gc = fresh_record(spec).get_gc_content()
        self.options_menu = {"tta_threshold": [0.3, 0.4, 0.9] + ([own_gc] if own_gc not in (0.3, 0.4, 0.9) else [])}

    def prepare(self, options):
        rec = fresh_record(self.spec)
        results = _detect(rec, "mixed")
        for proto in results.protoclusters:
            rec.add_protocluster(proto)
        return finish(rec)

    def produce(self, options):
        rec = self.prepare(options)
        results = tta.tta.detect(rec, options)
        results.add_to_record(rec)
        return results, rec

    def regenerate(self, data, rec, options):
        return tta.regenerate_previous_results(data, rec, options)

    def apply(self, results, rec):
        results.add_to_record(rec)
        return rec


class Pfam2GoFamily(Family):
    """the real pfam2go module (pure Python) on records that carry PFAM domains from the HMMer family's hits"""
    name = "pfam2go"

    def prepare(self, options):
        rec = fresh_record(self.spec)
        hits = []
        for gene, ident in zip([g for g in rec.get_cds_features() if len(g.translation) >= 15], ("PF00067.1", "PF00048.2", "PF99999.1")):
            loc = gene.get_sub_location_from_protein_coordinates(1, 8)
            hits.append(hmmer.HmmerHit(location=str(loc), label="PFtest", locus_tag=gene.get_name(), domain="dom", evalue=1e-5, score=30.0,
                                       identifier=ident, description="a domain", protein_start=1, protein_end=8,
                                       translation=gene.translation[1:8]))
        hmmer.HmmerResults(rec.id, full_hmmer.MAX_EVALUE, full_hmmer.MIN_SCORE, "/nonexistent/pfam/31.0/Pfam-A.hmm", "fullhmmer",
                           hits).add_to_record(rec)
        return rec

    def produce(self, options):
        rec = self.prepare(options)
        results = pfam2go_module.pfam2go.Pfam2GoResults(rec.id, pfam2go_module.pfam2go.get_gos_for_pfams(rec))
        results.add_to_record(rec)
        return results, rec

    def regenerate(self, data, rec, options):
        return pfam2go_module.regenerate_previous_results(data, rec, options)

    def apply(self, results, rec):
        results.add_to_record(rec)
        return rec


FAMILIES = {"pfam2go": Pfam2GoFamily, "rules": RulesFamily, "sideload": SideloadFamily, "nrps": NRPSFamily, "hmmer": HmmerFamily, "tta": TTAFamily}


def objects(tier):
    out = []
    # (the layouts made for text that does not fit on a GenBank line have other gene names / fewer genes than the hit tables here use)
    layouts = [layout for layout in K.LAYOUTS if layout not in ("long", "longnames")]
    for circ in (False, True):
        for layout in layouts:
            if layout in K.CIRCULAR_ONLY and not circ:
                continue
            quick_layout = layout in ("plain", "multiexon", "origin", "codonstart")
            for rules in ("single", "twins", "mixed", "separate"):
                if tier == "thorough" or (quick_layout and (rules in ("twins", "mixed") or layout == "plain")):
                    out.append(["rules", {"circ": circ, "layout": layout, "rules": rules}])
            for rules in ("unmet", "separate", "mixed"):
                if tier == "thorough" or layout in ("plain", "origin"):
                    out.append(["rules", {"circ": circ, "layout": layout, "rules": rules, "presub": True}])
            for variant in ("sub", "proto", "both", "twin-sub", "origin-sub"):
                if variant == "origin-sub" and not circ:
                    continue
                if tier == "thorough" or layout == "plain":
                    out.append(["sideload", {"circ": circ, "layout": layout, "sideload": variant}])
            if tier == "thorough" or quick_layout:
                for fam in ("nrps", "hmmer", "tta", "pfam2go"):
                    out.append([fam, {"circ": circ, "layout": layout}])
                out.append(["nrps", {"circ": circ, "layout": layout, "variant": "double"}])
                if layout == "plain":
                    # results without a single hit are results too
                    out.append(["hmmer", {"circ": circ, "layout": layout, "variant": "no-hits"}])
    return out


def save(results):
    return as_json.dumps(results.to_json())


def _digest(text):
    return hashlib.sha256(text.encode()).hexdigest()[:16]


def explore_object(fam_name, spec, depth, res):
    """BFS over histories for one results object; failures reported through res.fail"""
    fam = FAMILIES[fam_name](spec)
    defaults = tuple(values[0] for values in fam.options_menu.values())
    option_names = list(fam.options_menu)

    def options_for(vector):
        return make_options(dict(zip(option_names, vector)))
    case_base = {"family": fam_name, "spec": spec}
    try:
        original, rec_original = fam.produce(options_for(defaults))
        if getattr(fam, "outside_hits", 0):
            res.buckets["rules:hits-outside-protoclusters"] += 1
        text0 = save(original)
        effect0 = K.describe(rec_original)
    except Exception as err:  # pylint: disable=broad-except
        res.fail(dict(case_base, hist=[]), "production-raised", f"{type(err).__name__}: {str(err)[:150]}")
        return 0, 0
    fresh_cache = {defaults: (text0, effect0)}

    def fresh_under(vector):
        if vector not in fresh_cache:
            try:
                obj, rec = fam.produce(options_for(vector))
                fresh_cache[vector] = (save(obj), K.describe(rec))
            except Exception as err:  # pylint: disable=broad-except
                fresh_cache[vector] = (f"<production raised {type(err).__name__}>", None)
        return fresh_cache[vector]
    ops = ["regen", "tamper:schema+1", "tamper:noschema", "tamper:record"]
    for name, values in fam.options_menu.items():
        ops += [f"opt:{name}={i}" for i in range(len(values))]
    # state = (saved text, current option vector, tamper flag, option vector the text was saved under)
    start = (text0, defaults, None, defaults)
    seen = {(_digest(text0), defaults, None, defaults)}
    frontier = collections.deque([((), start)])
    transitions = 0
    while frontier:
        hist, (text, vector, tamper, saved_under) = frontier.popleft()
        if len(hist) >= depth:
            continue
        for op in ops:
            if tamper and op != "regen":
                continue
            new_hist = hist + (op,)
            case = dict(case_base, hist=list(new_hist))
            transitions += 1
            if op.startswith("opt:"):
                name, index = op[4:].split("=")
                position = option_names.index(name)
                new_vector = vector[:position] + (fam.options_menu[name][int(index)],) + vector[position + 1:]
                if new_vector == vector:
                    continue
                state = (text, new_vector, tamper, saved_under)
            elif op.startswith("tamper:"):
                data = as_json.loads(text)
                if op == "tamper:schema+1":
                    data[fam.schema_key] = data[fam.schema_key] + 1
                elif op == "tamper:noschema":
                    data.pop(fam.schema_key)
                else:
                    data[fam.record_key] = "some_other_record"
                state = (as_json.dumps(data), vector, op, saved_under)
            else:
                res.evals += 1
                res.nontrivial += 1
                options = options_for(vector)
                rec = None
                regenerated = None
                refused = None
                try:
                    rec = fam.prepare(options)
                    options_for(vector)
                    regenerated = fam.regenerate(as_json.loads(text), rec, options)
                    if regenerated is None:
                        refused = "returned None"
                except Exception as err:  # pylint: disable=broad-except
                    refused = f"raised {type(err).__name__}: {str(err)[:80]}"
                applied_effect = None
                if regenerated is not None:
                    try:
                        applied_effect = K.describe(fam.apply(regenerated, rec))
                    except Exception as err:  # pylint: disable=broad-except
                        refused = f"apply raised {type(err).__name__}: {str(err)[:80]}"
                if tamper:
                    if refused is None:
                        res.fail(case, f"tampered-results-accepted:{tamper}", f"regeneration returned {type(regenerated).__name__}")
                    else:
                        res.buckets["regen:refused-tampered"] += 1
                    continue
                if refused is not None:
                    if vector == saved_under:
                        res.fail(case, "regeneration-refused-under-same-settings", refused)
                    else:
                        res.buckets["regen:option-changed-refused"] += 1
                    continue
                new_text = save(regenerated)
                if vector == saved_under:
                    if new_text != text:
                        res.fail(case, "resaved-json-differs", _first_diff(text, new_text))
                    else:
                        res.buckets["regen:identical"] += 1
                    reference_effect = fresh_under(vector)[1]
                    if applied_effect != reference_effect:
                        res.fail(case, "record-effect-differs", K_diff(reference_effect, applied_effect))
                    else:
                        res.buckets["effect:compared"] += 1
                else:
                    fresh_text, fresh_effect = fresh_under(vector)
                    acceptable = {fresh_text}
                    # (hmm detection announces that a different strictness is "ignored" when reusing results, but the rule names
                    # of the shipped strictness levels differ, so such results are in fact refused; an accepted reuse is therefore
                    # judged like any other: it has to equal a fresh run under the new settings)
                    if new_text not in acceptable:
                        res.fail(case, "reinterpreted-under-changed-settings", _first_diff(fresh_text, new_text))
                    else:
                        res.buckets["regen:option-changed-accepted"] += 1
                        if fresh_effect is not None and applied_effect != fresh_effect:
                            res.fail(case, "record-effect-differs-from-fresh-run", K_diff(fresh_effect, applied_effect))
                state = (new_text, vector, None, vector)
            key = (_digest(state[0]), state[1], state[2], state[3])
            if key not in seen:
                seen.add(key)
                frontier.append((new_hist, state))
    return len(seen), transitions


def _first_diff(a, b):
    for i, (x, y) in enumerate(zip(a, b)):
        if x != y:
            return f"at char {i}: ...{a[max(0, i - 70):i + 70]} | vs | ...{b[max(0, i - 70):i + 70]}"
    return f"length {len(a)} vs {len(b)}"


def K_diff(a, b):
    if a is None or b is None:
        return "one side missing"
    for key in a:
        if a[key] != b[key]:
            if key == "structure":
                for sub in a[key]:
                    if a[key][sub] != b[key][sub]:
                        return f"structure.{sub}: {a[key][sub]} vs {b[key][sub]}"[:400]
            if key == "features":
                only_a = [f for f in a[key] if f not in b[key]]
                only_b = [f for f in b[key] if f not in a[key]]
                return f"features only with original {only_a[:1]} only with regenerated {only_b[:1]}"[:600]
            return key
    return "?"


def nrpys_predictions():
    """A domain substrate predictions of the NRPS/PKS analysis, as NRPS_PKS_Results stores them per domain: every combination of a
    binding pocket signature (certain / with ten gaps = uncertain), none / one / two Stachelhaus matches and an SVM answer"""
    from antismash.modules.nrps_pks.name_mappings import get_substrate_by_name  # pylint: disable=import-outside-toplevel
    from antismash.modules.nrps_pks.nrpys import PredictorSVMResult, StachelhausMatch, SvmPrediction  # pylint: disable=import-outside-toplevel
    ala, gly = get_substrate_by_name("Ala"), get_substrate_by_name("Gly")
    aa10 = "DALFLGMTFK"
    for aa34 in ("LDAFDASVWEMFGTLLNGGSVYGPTEATMCATWK", "L--FD-----------GDRNMYGPTEATMCATW-"):
        for matches in ([], [([ala], 0.7, 0.5)], [([ala], 1.0, 0.9), ([gly], 1.0, 0.4)]):
            for single in (("N/A", 0.0, []), ("ala", 1.0, [ala])):
                stach = [StachelhausMatch(list(subs), aa10, a10, a34) for subs, a10, a34 in matches]
                none = lambda: SvmPrediction("N/A", 0.0, [])  # noqa: E731
                yield ({"aa34": aa34, "matches": len(matches), "svm": single[0]},
                       PredictorSVMResult(aa34, aa10, stach, none(), none(), none(), SvmPrediction(*single)))


def check_nrpys(label, prediction):
    from antismash.modules.nrps_pks.results import NRPS_PKS_Results, generate_nrps_consensus  # pylint: disable=import-outside-toplevel
    results = NRPS_PKS_Results("rec")
    results.add_method_results("nrpys", {"nrpspksdomains_cds1_AMP-binding.1": prediction})
    fails = []
    texts = [as_json.dumps(results.to_json())]
    current = results
    for _cycle in range(3):
        current = NRPS_PKS_Results.from_json(as_json.loads(texts[-1]), None)
        if current is None:
            return [("nrpys-results-not-regenerated", str(label))]
        texts.append(as_json.dumps(current.to_json()))
    if len(set(texts)) > 1:
        fails.append(("nrpys-json-not-stable", f"{label}: cycle {[t == texts[0] for t in texts]}"))
    again = current.domain_predictions["nrpspksdomains_cds1_AMP-binding.1"]["nrpys"]
    if generate_nrps_consensus({"nrpys": prediction}) != generate_nrps_consensus({"nrpys": again}):
        fails.append(("nrpys-consensus-changes", f"{label}: {generate_nrps_consensus({'nrpys': prediction})} -> "
                                                  f"{generate_nrps_consensus({'nrpys': again})}"))
    return fails


def module_results_menu():
    """(name, results saved for record 'recA' in their JSON form, the class's own from_json) for the analysis modules whose results
    can be built without their external tools"""
    from antismash.modules.lanthipeptides.specific_analysis import LanthiResults  # pylint: disable=import-outside-toplevel
    from antismash.modules.lassopeptides.specific_analysis import LassoResults  # pylint: disable=import-outside-toplevel
    from antismash.modules.sactipeptides.specific_analysis import SactiResults  # pylint: disable=import-outside-toplevel
    from antismash.modules.thiopeptides.specific_analysis import ThioResults  # pylint: disable=import-outside-toplevel
    from antismash.modules.t2pks.results import T2PKSResults  # pylint: disable=import-outside-toplevel
    from antismash.modules.nrps_pks.results import NRPS_PKS_Results  # pylint: disable=import-outside-toplevel
    from antismash.modules import nrps_pks, t2pks  # pylint: disable=import-outside-toplevel
    for cls in (LanthiResults, LassoResults, SactiResults, ThioResults):
        yield cls.__name__, cls, cls.from_json
    # (their from_json ignores the record, so the module's own regeneration function is where a foreign record can be noticed)
    yield "T2PKSResults", T2PKSResults, lambda data, rec: t2pks.regenerate_previous_results(data, rec, None)
    yield "NRPS_PKS_Results", NRPS_PKS_Results, lambda data, rec: nrps_pks.regenerate_previous_results(data, rec, None)


def check_foreign_record(name, cls, regenerate):
    """results saved for one record must not be taken for another ('discarded or refused rather than silently reinterpreted')"""
    from mc.universe import worlds as W  # pylint: disable=import-outside-toplevel
    fails = []
    saved = as_json.loads(as_json.dumps(cls("recA").to_json()))
    for rid, own in (("recA", True), ("recB", False)):
        rec = W.make_record(60, False)
        rec.id = rid
        try:
            got = regenerate(as_json.loads(as_json.dumps(saved)), rec)
        except Exception as err:  # pylint: disable=broad-except
            if own:
                fails.append(("own-results-refused", f"{name}: {type(err).__name__}: {str(err)[:100]}"))
            continue
        if own and got is None:
            fails.append(("own-results-refused", f"{name}: discarded"))
        if not own and got is not None:
            fails.append(("foreign-record-results-accepted", f"{name}: results saved for recA regenerated against {rid} (now labelled {got.record_id})"))
    return fails


def shards(tier):
    depth = 4 if tier == "quick" else 6
    return [[fam, spec, depth] for fam, spec in objects(tier)] + [["values:nrpys", None, 3], ["values:foreign-record", None, 1]]


def run_shard(shard):
    fam, spec, depth = shard
    res = Result()
    if fam == "values:foreign-record":
        for name, cls, regenerate in module_results_menu():
            res.evals += 2
            res.nontrivial += 2
            res.buckets["values:foreign-record"] += 1
            fails = check_foreign_record(name, cls, regenerate)
            res.outcomes[("foreign-record", name, tuple(c for c, _ in fails))] += 1
            for clause, detail in fails:
                res.fail({"family": fam, "label": name}, clause, detail)
        res.extra["traces_validated_against_impl"] = res.evals
        return res
    if fam == "values:nrpys":
        for label, prediction in nrpys_predictions():
            res.evals += 3
            res.nontrivial += 3
            res.buckets["values:nrpys"] += 1
            fails = check_nrpys(label, prediction)
            res.outcomes[("nrpys", tuple(c for c, _ in fails))] += 1
            for clause, detail in fails:
                res.fail({"family": fam, "label": label}, clause, detail)
        res.extra["traces_validated_against_impl"] = res.evals
        return res
    states, transitions = explore_object(fam, spec, depth, res)
    res.extra["states"] = states
    res.extra["transitions"] = transitions
    res.extra["traces_validated_against_impl"] = res.evals
    res.outcomes[(fam, states)] += 1
    res.sample({"family": fam, "spec": spec, "hist": ["regen", "tamper:record", "regen"]}, 1)
    return res


def finalize(cov, tier):
    cov["explanation"] = ("states = (saved JSON, option vector, tamper flag) over all result objects; every regenerate transition was executed on the "
                          "real module-level regeneration function against a fresh record (traces_validated_against_impl)")


def replay(case):
    if case["family"] == "values:foreign-record":
        return [f for name, cls, regen in module_results_menu() if name == case["label"] for f in check_foreign_record(name, cls, regen)]
    if case["family"] == "values:nrpys":
        return [f for label, prediction in nrpys_predictions() if label == case["label"] for f in check_nrpys(label, prediction)]
    res = Result()
    explore_object(case["family"], case["spec"], len(case["hist"]), res)
    wanted = [(clause, detail) for c, clause, detail in res.failures if c["hist"] == case["hist"]]
    return wanted
