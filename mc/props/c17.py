"""C17 Same input, same output: results do not depend on the process or hash seed.

The harness process imports antiSMASH through the set-order hook, so every iteration over (or pop from) a set created
in antiSMASH code is a choice point. Tie-laden scenarios are pushed through the chain detection -> annotation ->
protoclusters -> candidates -> regions -> to_biopython -> GenBank text / JSON text (and hit refinement / detection
filters); E3 explores every single deviation from the default order (pairs / triples on the smaller scenarios) and the
output bytes of every explored order must equal the default order's. The same scenarios are then run uninstrumented in
child processes under different PYTHONHASHSEED values and allocation patterns; all must agree with each other and with
the explored outcome.
"""
from mc.instr import setorder
setorder.install()   # noqa: E402

import hashlib  # noqa: E402
import io  # noqa: E402
import json  # noqa: E402
import os  # noqa: E402
import subprocess  # noqa: E402
import sys  # noqa: E402

from Bio import SeqIO  # noqa: E402

from antismash.common import serialiser  # noqa: E402
from antismash.common import json as as_json  # noqa: E402
from antismash.common import hmmscan_refinement as hr  # noqa: E402
from antismash.common.hmm_rule_parser import cluster_prediction  # noqa: E402

from mc.engine.choice import explore  # noqa: E402
from mc.engine.core import Result  # noqa: E402
from mc.props import c03, c07  # noqa: E402
from mc.universe import modcases  # noqa: E402
from mc.universe import worlds as W  # noqa: E402

ID = "C17"
LEVEL = "model_checking"
RULE = ("scenarios = (gap-word gene layout on a ring of 24, hit table with ties, ruleset family incl. identical-coordinate protoclusters of "
        "different products) + refinement/filter inputs with equal starts and scores; schedules = iteration orders of every set created in "
        "antiSMASH code: the default, every single deviation at every choice point, and all pairs (triples in thorough) on the small scenarios; "
        "non-trivial = a schedule that deviates from the default; distinct by construction")
ASSUMPTIONS = [
    "dict order is insertion order and therefore deterministic given deterministic set handling; sets created inside Biopython / the standard "
    "library are not instrumented",
    "PYTHONHASHSEED conformance runs are a finite sample of the 2^32 seeds; the deciding step is the exhaustive ownership of set iteration order",
    "the GenBank date line is normalised before comparison",
]
BOUNDS = {"quick": "all scenarios: every single deviation; 4 small scenarios: all pairs; child processes with seeds 0-7",
          "thorough": "all scenarios: every single deviation and all pairs capped at 4000 runs per scenario (cap reported); small scenarios: all triples; seeds 0-31"}
REQUIRED_BUCKETS = {t: ["schedules:default", "schedules:single-deviation", "schedules:pair-deviation", "children:compared"]
                    for t in ("quick", "thorough")}
SERIAL = False

TWINS = ("twins", [("r1", 3, 1, c03.ID_A, [], None), ("r2", 3, 1, c03.ID_B, [], None),
                   ("r3", 3, 1, ["or", False, [c03.ID_A, c03.ID_B]], [], None)], "ab")


def family(name):
    if name == "twins":
        return TWINS
    if name == "mixed4":
        return c07.MIXED4
    return [f for f in c03.families("thorough") if f[0] == name][0]


def scenarios():
    """list of JSON-able scenario descriptions"""
    out = []
    layouts = [[5], [5, 8], [5, 8, 11], [5, 9, 17], [22, 2], [21, 0, 5]]
    for fam in ("twins", "mixed", "superiors", "extenders", "mixed4"):
        for starts in layouts:
            names = [f"g{i}" for i in range(len(starts))]
            out.append({"kind": "pipeline", "family": fam, "starts": starts, "hits": {g: {"a": 7, "b": 7} for g in names}})
    # protoclusters given directly (8 slots): identical extents with different cores, identical cores and extents with different
    # products, an extra protocluster that makes a neighbouring candidate so that the twins both get singles, hybrids
    for circ, specs in PROTO_SCENARIOS:
        out.append({"kind": "protos", "circ": circ, "specs": specs})
    # rule detection on a record that already has (overlapping) subregions: hits outside protoclusters are reported per gene
    out.append({"kind": "presub", "subs": [[0, 2], [1, 3]], "hits": {"g0": {"a": 7}, "g1": {"a": 7}, "g2": {"a": 7}, "g3": {"a": 7}}})
    # the real hmm_detection.run_on_record (rule names of the shipped rule files) with the HMMer search replaced
    out.append({"kind": "hmm-run", "strictness": "relaxed"})
    # saved results of analysis modules, filled from hand-made hit tables (their external tools are not available here)
    for name in sorted(modcases.CASES):
        out.append({"kind": "module", "name": name})
    out.append({"kind": "filter-groups", "groups": [["A", "B"], ["B", "C"]], "hits": [["A", 0, 50, 50], ["B", 10, 60, 40], ["C", 20, 70, 30]]})
    out.append({"kind": "filter-groups", "groups": [["B", "C"], ["A", "B"], ["A", "C"]], "hits": [["A", 0, 50, 30], ["B", 10, 60, 40], ["C", 20, 70, 50]]})
    out.append({"kind": "refine", "hits": [["A", 0, 30, 1], ["B", 0, 60, 1], ["A", 0, 60, 1], ["B", 0, 30, 1]]})
    out.append({"kind": "refine", "hits": [["A", 0, 30, 2], ["A", 25, 60, 2], ["B", 10, 50, 2], ["regulatorR", 0, 10, 2]]})
    return out


PROTO_SCENARIOS = [
    (False, [[1, 1, 1, 4, "p"], [4, 4, 4, 1, "p"], [7, 7, 2, 0, "p"]]),
    (False, [[1, 1, 1, 4, "p"], [4, 4, 4, 1, "q"], [7, 7, 2, 0, "p"]]),
    (False, [[2, 2, 1, 1, "p"], [2, 2, 1, 1, "q"], [2, 2, 1, 1, "r"]]),
    (False, [[2, 3, 1, 1, "p"], [3, 4, 2, 0, "q"], [1, 4, 0, 0, "p"], [1, 4, 0, 0, "q"]]),
    (True, [[7, 0, 1, 1, "p"], [7, 0, 1, 1, "q"], [1, 1, 1, 2, "p"], [3, 3, 3, 0, "p"]]),
    (True, [[6, 6, 1, 3, "p"], [1, 1, 4, 0, "p"], [3, 3, 2, 0, "q"]]),
    # an origin-crossing area, two areas just before the origin that overlap it and an unrelated area elsewhere: the region sweep
    # closes the first section early and folds the last section (two areas) into it across the origin
    (True, [[7, 0, 1, 1, "p"], [4, 4, 1, 2, "p"], [5, 5, 0, 1, "q"], [2, 2, 0, 0, "p"]]),
    (True, [[7, 0, 0, 1, "p"], [5, 5, 0, 1, "p"], [6, 6, 0, 0, "q"], [5, 6, 0, 0, "r"], [2, 3, 0, 0, "p"]]),
    # protoclusters equal in every respect (the same area sideloaded twice, or two cores of a CUTOFF 0 rule extended to the same
    # place): nothing in their content can order them, so only the order they were added in may decide
    (False, [[2, 2, 1, 1, "p"], [2, 2, 1, 1, "p"]]),
    (False, [[2, 2, 1, 1, "p"], [2, 2, 1, 1, "p"], [5, 5, 1, 1, "q"]]),
    (False, [[2, 3, 1, 1, "p"], [2, 3, 1, 1, "p"], [3, 4, 1, 1, "q"], [3, 4, 1, 1, "q"]]),
    (True, [[7, 0, 1, 1, "p"], [7, 0, 1, 1, "p"], [1, 1, 1, 2, "q"]]),
]


def _outputs(rec, extra=""):
    bio = rec.to_biopython()
    handle = io.StringIO()
    SeqIO.write([bio], handle, "genbank")
    genbank = "\n".join(line for line in handle.getvalue().splitlines() if not line.startswith("LOCUS"))
    record_json = as_json.dumps(serialiser.record_to_json(bio))
    areas = as_json.dumps(serialiser.gather_record_areas(rec))
    summary = [[r.get_region_number(), str(r.location), r.products, [c.get_candidate_cluster_number() for c in r.candidate_clusters]]
               for r in rec.get_regions()]
    summary.append([[c.get_candidate_cluster_number(), str(c.kind), [p.get_protocluster_number() for p in c.protoclusters],
                     [str(p.core_location) for p in c.protoclusters]] for c in rec.get_candidate_clusters()])
    return "\n=====\n".join([genbank, record_json, areas, extra, json.dumps(summary)])


def run_scenario(sc):
    """-> bytes-like canonical output of the whole chain"""
    if sc["kind"] == "module":
        return modcases.CASES[sc["name"]]()
    if sc["kind"] == "filter-groups":
        # the detection filters applied with the equivalence groups as the rule set hands them out: groups sharing a profile do
        # not commute, so the order the rule set keeps them in is part of the result
        from mc.props import c13  # pylint: disable=import-outside-toplevel
        ruleset = c03.make_ruleset([("r1", 3, 1, c03.ID_A, [], None)], {"g": {"A": 7, "B": 7, "C": 7}}, equivalence_groups=sc["groups"])
        hits = [c13._HSP(*h) for h in sc["hits"]]  # pylint: disable=protected-access
        for hsp, original in zip(hits, sc["hits"]):
            hsp.hit_id, hsp.query_id = "gene", original[0]     # as the filters expect: query_id = profile, hit_id = gene
        results, by_id = cluster_prediction.filter_results(list(hits), {"gene": list(hits)}, ruleset.get_equivalence_groups())
        results, by_id = cluster_prediction.filter_result_multiple(results, by_id)
        return json.dumps([[(h.query_id, h.hit_start, h.hit_end) for h in results],
                           {k: [(h.query_id, h.hit_start, h.hit_end) for h in v] for k, v in by_id.items()}])
    if sc["kind"] == "protos":
        from mc.universe import protos as P  # pylint: disable=import-outside-toplevel
        rec, _ = P.make_slotted_record(8, sc["circ"], P.default_core_functions(8))
        rec.add_annotation("molecule_type", "DNA")
        for spec in sc["specs"]:
            rec.add_protocluster(P.make_protocluster(8 * P.SLOT, sc["circ"], spec))
        rec.create_candidate_clusters()
        rec.create_regions()
        return _outputs(rec)
    if sc["kind"] == "presub":
        from mc.universe import protos as P  # pylint: disable=import-outside-toplevel
        rec, _ = P.make_slotted_record(8, False, {})
        rec.add_annotation("molecule_type", "DNA")
        for first, last in sc["subs"]:
            rec.add_subregion(P.make_subregion(8 * P.SLOT, False, [first, last, f"s{first}"]))
        never = [("r1", 3, 1, ["and", [c03.ID_A, c03.ID_B]], [], None)]
        results = cluster_prediction.detect_protoclusters_and_signatures(rec, c03.make_ruleset(never, sc["hits"]))
        results.annotate_cds_features()
        rec.create_regions()
        return _outputs(rec, as_json.dumps(results.to_json()))
    if sc["kind"] == "hmm-run":
        return _hmm_run(sc)
    if sc["kind"] == "refine":
        from mc.props import c13  # pylint: disable=import-outside-toplevel
        hits = [tuple(h) for h in sc["hits"]]
        out = []
        for mode in (False, True):
            res = hr.refine_hmmscan_results([c13._Query([c13._HSP(*h) for h in hits])], c13.LENS, neighbour_mode=mode)
            out.append([str(r) for r in res.get("gene", [])])
        hsps = [c13._HSP(*h) for h in hits]
        for hsp, original in zip(hsps, hits):
            hsp.query_id = original[0]
            hsp.hit_id = "gene"
        results, by_id = cluster_prediction.filter_results(list(hsps), {"gene": list(hsps)}, [{"A", "B"}])
        results, by_id = cluster_prediction.filter_result_multiple(results, by_id)
        out.append([(h.query_id, h.hit_start, h.hit_end, h.bitscore) for h in by_id["gene"]])
        return json.dumps(out)
    fam = family(sc["family"])
    world = c07.world_for(sc["starts"], 24, True)
    rec, _ = W.build_world(world)
    rec.add_annotation("molecule_type", "DNA")
    ruleset = c03.make_ruleset(fam[1], sc["hits"])
    results = cluster_prediction.detect_protoclusters_and_signatures(rec, ruleset)
    results.annotate_cds_features()
    for proto in results.protoclusters:
        rec.add_protocluster(proto)
    rec.create_candidate_clusters()
    rec.create_regions()
    bio = rec.to_biopython()
    handle = io.StringIO()
    SeqIO.write([bio], handle, "genbank")
    genbank = "\n".join(line for line in handle.getvalue().splitlines() if not line.startswith("LOCUS"))
    record_json = as_json.dumps(serialiser.record_to_json(bio))
    areas = as_json.dumps(serialiser.gather_record_areas(rec))
    results_json = as_json.dumps(results.to_json())
    summary = [[r.get_region_number(), str(r.location), r.products, [c.get_candidate_cluster_number() for c in r.candidate_clusters]]
               for r in rec.get_regions()]
    return "\n=====\n".join([genbank, record_json, areas, results_json, json.dumps(summary)])


def _hmm_run(sc):
    """hmm_detection.run_on_record with the search itself replaced by a stub that finds nothing: what is left is the module's own
    bookkeeping (which rule names were enabled, strictness) as it is written to the results JSON"""
    from antismash.detection import hmm_detection  # pylint: disable=import-outside-toplevel
    from mc.props import c11  # pylint: disable=import-outside-toplevel
    options = c11.make_options({"hmmdetection_strictness": sc["strictness"]})
    rec, _ = W.build_world(c07.world_for([5, 8], 24, True))
    rec.add_annotation("molecule_type", "DNA")
    saved = hmm_detection.detect_protoclusters_and_signatures
    empty = cluster_prediction.RuleDetectionResults({}, "rule-based-clusters", [], hmm_detection.get_ruleset(options).multipliers)
    hmm_detection.detect_protoclusters_and_signatures = lambda record, ruleset: empty
    try:
        results = hmm_detection.run_on_record(rec, None, options)
    finally:
        hmm_detection.detect_protoclusters_and_signatures = saved
    return "\n=====\n".join(["", "", "", as_json.dumps(results.to_json()), ""])


def digest(text):
    return hashlib.sha256(text.encode()).hexdigest()[:16]


def explore_scenario(sc, bound, max_runs, stats=None):
    """-> (fails, n_schedules, n_points, capped)"""
    fails = []
    default = None
    count = 0
    points_default = 0
    seen_outcomes = {}
    try:
        for schedule, points, outcome in explore(lambda: run_scenario(sc), setorder.SCHED, bound, max_runs=max_runs):
            count += 1
            devs = sum(1 for c in schedule if c)
            if stats is not None:
                stats[{0: "schedules:default", 1: "schedules:single-deviation", 2: "schedules:pair-deviation"}.get(devs, "schedules:triple-deviation")] += 1
            if default is None:
                default = outcome
                points_default = len(points)
                continue
            if outcome != default:
                key = digest(outcome)
                if key not in seen_outcomes:
                    seen_outcomes[key] = schedule
                    fails.append((f"output-depends-on-set-order:{_locus(default, outcome, sc)}",
                                  f"schedule {[(i, c) for i, c in enumerate(schedule) if c]}"))
    except Exception as err:  # pylint: disable=broad-except
        fails.append(("scenario-raised", f"{type(err).__name__}: {str(err)[:150]}"))
    finally:
        setorder.SCHED.reset()
    capped = max_runs is not None and count >= max_runs
    return fails, count, points_default, capped, default


def _first_difference(a, b):
    """which artefact differs first: genbank / record-json / areas / results-json / summary"""
    names = ["genbank", "record-json", "areas-json", "results-json", "summary"]
    for name, x, y in zip(names, a.split("\n=====\n"), b.split("\n=====\n")):
        if x != y:
            # a coarse locus of the difference so that different causes get different clauses
            xl, yl = x.splitlines() or [x], y.splitlines() or [y]
            for lx, ly in zip(xl, yl):
                if lx != ly:
                    token = lx.strip().split("=")[0].strip("/ ")[:24] if name == "genbank" else ""
                    return f"{name}:{token}" if token else name
            return name
    return "refine" if "=====" not in a else "length"


def _locus(default, outcome, sc):
    return {"module": "saved-results", "filter-groups": "filtered-hits"}.get(sc["kind"]) or _first_difference(default, outcome)


CHILD = r'''
import sys, json, logging
logging.disable(logging.CRITICAL)
sys.path.insert(0, "/verif")
junk = [object() for _ in range(int(sys.argv[1]))]     # move id()-based hashes
import mc.instr.setorder as so
so.install = lambda: None          # child processes run the code uninstrumented
from mc.props import c17
out = {}
for i, sc in enumerate(c17.scenarios()):
    out[i] = c17.digest(c17.run_scenario(sc))
print(json.dumps(out))
'''


def run_children(seeds):
    results = {}
    procs = []
    for seed in seeds:
        env = dict(os.environ)
        env["PYTHONHASHSEED"] = str(seed)
        env["PYTHONPATH"] = os.environ.get("PYTHONPATH", "/verif")
        procs.append((seed, subprocess.Popen([sys.executable, "-c", CHILD, str(seed * 1013 % 5000)], env=env,
                                             stdout=subprocess.PIPE, stderr=subprocess.PIPE, text=True)))
    for seed, proc in procs:
        out, err = proc.communicate(timeout=600)
        if proc.returncode != 0:
            raise RuntimeError(f"child with seed {seed} failed: {err[-500:]}")
        results[seed] = json.loads(out.strip().splitlines()[-1])
    return results


def shards(tier):
    out = [["scenario", i, tier] for i in range(len(scenarios()))]
    out.append(["children", tier])
    return out


def run_shard(shard):
    res = Result()
    if shard[0] == "scenario":
        _, index, tier = shard
        sc = scenarios()[index]
        small = sc["kind"] in ("refine", "module", "filter-groups") or len(sc.get("starts", [])) == 1
        if tier == "quick":
            bound, cap = (2, None) if (small and sc.get("family") in (None, "twins", "superiors")) else (1, None)
        else:
            bound, cap = (3, 20000) if small else (2, 4000)
        fails, count, points, capped, _ = explore_scenario(sc, bound, cap, res.buckets)
        res.evals += count
        res.nontrivial += max(0, count - 1)
        res.extra["choice_points_on_default_runs"] = points
        res.extra["scenarios_capped"] = int(capped)
        res.outcomes[("scenario", index, len(fails))] += 1
        case = {"kind": "scenario", "index": index, "scenario": sc, "bound": bound}
        for clause, detail in fails:
            res.fail(case, clause, detail)
        res.sample(case, 1)
    else:
        _, tier = shard
        seeds = list(range(8)) if tier == "quick" else list(range(32))
        results = run_children(seeds)
        # what the explorer's default order produces, for every scenario
        expected = {}
        for i, sc in enumerate(scenarios()):
            setorder.SCHED.reset()
            expected[str(i)] = digest(run_scenario(sc))
        res.evals += len(seeds) * len(expected)
        res.nontrivial += len(seeds) * len(expected)
        for i in expected:
            got = {seed: results[seed][i] for seed in seeds}
            res.buckets["children:compared"] += len(seeds)
            if len(set(got.values())) > 1:
                groups = {}
                for seed, value in got.items():
                    groups.setdefault(value, []).append(seed)
                res.fail({"kind": "children", "index": int(i), "scenario": scenarios()[int(i)]}, "processes-disagree",
                         f"PYTHONHASHSEED groups: {sorted(groups.values())}")
            elif set(got.values()) != {expected[i]}:
                res.fail({"kind": "children", "index": int(i), "scenario": scenarios()[int(i)]}, "process-differs-from-explored-default",
                         "all plain processes agree with each other but not with the instrumented default order")
        res.extra["traces_validated_against_impl"] = len(seeds) * len(expected)
        res.outcomes[("children", len(seeds))] += 1
        res.sample({"kind": "children", "seeds": seeds}, 1)
    return res


def finalize(cov, tier):
    cov["schedules"] = cov["evaluations"]
    cov["explanation"] = ("schedules = set-iteration orders executed on the real code; traces_validated_against_impl = plain-interpreter runs "
                          "(PYTHONHASHSEED varied) compared with the explored outcome")


def replay(case):
    if case["kind"] == "scenario":
        small_bound = case.get("bound", 1)
        return explore_scenario(case["scenario"], small_bound, 4000)[0]
    results = run_children(list(range(8)))
    idx = str(case["index"])
    values = {results[s][idx] for s in results}
    return [("processes-disagree", str(values))] if len(values) > 1 else []
