"""C04 Location algebra agrees with the set-of-bases model on line and ring.

Brute force over tiny rings/lines: every location of U_loc(L), every pair, every
ordered list of <= 3, every offset, every extension distance, against the
set-of-bases reference in mc.ref.bases.
"""
import itertools

from Bio.Seq import Seq

from antismash.common.secmet import Record
from antismash.common.secmet.features import Feature
from antismash.common.secmet.locations import (
    FeatureLocation as F, CompoundLocation as C,
    connect_locations, get_distance_between_locations, location_bridges_origin,
    location_contains_other, location_from_string, locations_overlap, make_forwards,
    offset_location, remove_redundant_exons, split_origin_bridging_location,
)

from mc.engine.core import Result
from mc.ref import bases as R
from mc.universe.loc import dec, enc, u_loc, simple, bridging

ID = "C04"
LEVEL = "exploration"
RULE = ("every case of a finite universe is enumerated once: U_loc(L) = all simple [s,e) and all origin-spanning "
        "[s,L)+[0,e) locations (both strands) of a record of length L; cases are (operation, L, operands); "
        "a case is non-trivial when the operands are not all identical locations; every case is distinct by construction")
ASSUMPTIONS = [
    "small-scope hypothesis: the algebra is integer comparison arithmetic, so every coincidence class "
    "(touching, nested, equal ends, end == L, gap == L/2, part at origin) already occurs on rings of <= 9-14 bases",
    "intron-containing multi-exon locations are only used for string round trip, make_forwards, bridging detection and exon pruning",
]
BOUNDS = {
    "quick": "pairs/offset/extend/string L=3..9 (pairs incl. two-exon locations for L<=8); connect lists of <=2 L<=9, of 3 L<=6; __lt__ triples L<=5",
    "thorough": "pairs/offset/extend/string L=3..16; connect lists of <=2 L<=16, of 3 L<=9; __lt__ triples L<=7",
}
REQUIRED_BUCKETS = {t: ["pair:overlapping", "pair:disjoint", "pair:bridging-operand", "connect:result-bridges",
                        "connect:shortest-arc-demanded", "connect:multi-exon-operand-over-origin", "extend:wrapped", "extend:whole-ring", "offset:became-bridging",
                        "offset:became-simple"] for t in ("quick", "thorough")}


def _record(L, circular):
    rec = Record(Seq("A" * L))
    rec.id = rec.name = "rec"
    rec.add_annotation("topology", "circular" if circular else "linear")
    return rec


def shards(tier):
    top = 9 if tier == "quick" else 16
    top3 = 6 if tier == "quick" else 9
    toplt = 5 if tier == "quick" else 7
    out = []
    for L in range(3, top + 1):
        out.append(["pair", L, 8 if tier == "quick" else 11])
        out.append(["offset", L])
        out.append(["extend", L])
        out.append(["string", L])
        out.append(["connect2", L])
    for L in range(3, top3 + 1):
        n = len(u_loc(L, (1, -1)))
        step = max(1, n // 8)
        for lo in range(0, n, step):
            out.append(["connect3", L, lo, min(n, lo + step)])
    for L in range(3, toplt + 1):
        out.append(["lt", L])
    # gene-like operands (several exons, introns, either strand, exons on both sides of the origin) for connect_locations
    for L in range(4, (7 if tier == "quick" else 9) + 1):
        out.append(["connectmulti", L])
    return out


# ---------------------------------------------------------------- single-case checkers (also used by replay)

def check_pair(L, a, b):
    fails = []
    A, B = R.bases(a), R.bases(b)
    try:
        if locations_overlap(a, b) != bool(A & B):
            fails.append(("overlap", f"code={locations_overlap(a, b)} ref={bool(A & B)}"))
    except Exception as err:  # pylint: disable=broad-except
        fails.append(("overlap-raised", repr(err)))
    try:
        exp = R.contains(a, b)
        if location_contains_other(a, b) != exp:
            fails.append(("contains", f"code={not exp} ref={exp}"))
    except Exception as err:  # pylint: disable=broad-except
        fails.append(("contains-raised", repr(err)))
    both_simple = len(a.parts) == 1 and len(b.parts) == 1
    bridging = any(len(x.parts) > 1 and location_bridges_origin(x) for x in (a, b))
    for circular in (True, False):
        if not circular and bridging:
            continue
        exp = R.distance(A, B, L, circular)
        try:
            got = get_distance_between_locations(a, b, wrap_point=L if circular else None)
            rec = _REC[(L, circular)]
            got2 = rec.get_distance_between_locations(a, b)
        except Exception as err:  # pylint: disable=broad-except
            fails.append(("distance-raised", repr(err)))
            continue
        tag = "ring" if circular else "line"
        if got != exp:
            fails.append((f"distance-{tag}", f"code={got} ref={exp}"))
        if got2 != exp:
            fails.append((f"record-distance-{tag}", f"code={got2} ref={exp}"))
    return fails


def check_connect(L, locs, circular):
    """ locs: ordered list; checks the result for this order, against the result for the
        canonical (sorted) order and idempotence """
    fails = []
    # a gene-like operand (several exons) is covered as a whole, introns included: connecting never cuts a gene apart
    union = frozenset().union(*[R.span_bases(l, L) for l in locs])
    wrap = L if circular else None
    try:
        res = connect_locations([l for l in locs], wrap_point=wrap)
    except Exception as err:  # pylint: disable=broad-except
        return [("connect-raised", repr(err)[:200])], None
    why = R.well_formed_span(res, L)
    if why:
        fails.append(("connect-wellformed", f"{why}: {res}"))
        return fails, res
    got = R.bases(res)
    if not union <= got:
        fails.append(("connect-covers", f"result {res} misses {sorted(union - got)}"))
    any_bridge = any(len(l.parts) > 1 for l in locs)
    if not circular:
        if got != frozenset(range(min(union), max(union) + 1)):
            fails.append(("connect-line-hull", f"{res}"))
    else:
        hull = L if any_bridge else max(union) - min(union) + 1
        if len(got) > hull:
            fails.append(("connect-longer-than-hull", f"{res} hull={hull}"))
        arc = R.shortest_arc(union, L)
        if 2 * len(arc) < L and got != arc:
            fails.append(("connect-shortest-arc", f"{res} shortest={sorted(arc)}"))
    return fails, res


def check_offset(L, a, k):
    fails = []
    try:
        res = offset_location(a, k, wrap_point=L)
    except AssertionError as err:
        return [("offset-assert", repr(err)[:100])]
    except Exception as err:  # pylint: disable=broad-except
        return [("offset-raised", repr(err)[:100])]
    exp = frozenset((x + k) % L for x in R.bases(a))
    why = R.well_formed_parts(res, L)
    if why:
        return [("offset-wellformed", f"{why}: {res}")]
    if R.bases(res) != exp:
        fails.append(("offset-bases", f"{res}"))
    elif len(a) != L and R.transcript(res) != [(x + k) % L for x in R.transcript(a)]:
        # (a whole-ring location is documented to be returned unchanged: same bases)
        fails.append(("offset-order", f"{res}"))
    if len(res) != len(a):
        fails.append(("offset-length", f"{res}"))
    if res.strand != a.strand:
        fails.append(("offset-strand", f"{res}"))
    ordered = list(a.parts) if a.strand != -1 else list(reversed(a.parts))
    contiguous = len(a.parts) == 1 or (len(a.parts) == 2 and int(ordered[0].end) == L and int(ordered[1].start) == 0)
    if len(res.parts) > (2 if contiguous else len(a.parts) + 1):
        fails.append(("offset-parts", f"{res}"))
    return fails


def check_offset_site(L, position, strand, k):
    site = F(position, position, strand)
    fails = []
    for wrap in (L, None):
        if wrap is None and position + k < 0:
            continue
        try:
            res = offset_location(site, k, wrap_point=wrap)
        except AssertionError as err:
            fails.append(("offset-site-assert", f"wrap={wrap}: {repr(err)[:80]}"))
            continue
        except Exception as err:  # pylint: disable=broad-except
            fails.append(("offset-site-raised", f"wrap={wrap}: {repr(err)[:80]}"))
            continue
        want = {(position + k) % L, (position + k) % L or L} if wrap else {position + k}      # (on a ring L and 0 are the same site)
        if len(res.parts) != 1 or int(res.start) != int(res.end) or int(res.start) not in want or res.strand != strand:
            fails.append(("offset-site", f"wrap={wrap}: {res}"))
    return fails


def check_offset_line(L, a, k):
    try:
        res = offset_location(a, k)
    except Exception as err:  # pylint: disable=broad-except
        return [("offset-line-raised", repr(err)[:100])]
    if R.bases(res) != frozenset(x + k for x in R.bases(a)) or res.strand != a.strand:
        return [("offset-line", f"{res}")]
    return []


def check_extend_multi(L, a, dist, circular):
    """extension of a multi-exon location that does not cross the origin: the statement fixes what happens outside the location
    (everything within the distance of its two outer ends, wrapped on a ring) and inside its exons; whether an extension that
    runs all the way round into an intron fills it is left open, so introns may or may not be covered"""
    rec = _REC[(L, circular)]
    before = enc(a)
    try:
        res = rec.extend_location(a, dist)
    except Exception as err:  # pylint: disable=broad-except
        return [("extend-raised", repr(err)[:100])]
    fails = []
    if enc(a) != before:
        fails.append(("extend-mutated-input", enc(a)))
    why = R.well_formed_parts(res, L)
    if why:
        return fails + [("extend-wellformed", f"{why}: {res}")]
    start, end = int(a.start), int(a.end)
    outward = set(range(start - dist, start)) | set(range(end, end + dist))
    outward = {x % L for x in outward} if circular else {x for x in outward if 0 <= x < L}
    lower = R.bases(a) | outward
    upper = lower | set(range(start, end))
    got = R.bases(res)
    if not lower <= got:
        fails.append(("extend-multi-exon-misses-bases", f"{res} lacks {sorted(lower - got)}"))
    if not got <= upper:
        fails.append(("extend-multi-exon-extra-bases", f"{res} adds {sorted(got - upper)}"))
    return fails


def check_extend(L, a, dist, circular):
    rec = _REC[(L, circular)]
    before = enc(a)
    try:
        res = rec.extend_location(a, dist)
    except Exception as err:  # pylint: disable=broad-except
        return [("extend-raised", repr(err)[:100])]
    fails = []
    if enc(a) != before:
        fails.append(("extend-mutated-input", enc(a)))
    why = R.well_formed_parts(res, L)
    if why:
        return fails + [("extend-wellformed", f"{why}: {res}")]
    if R.bases(res) != R.within(R.bases(a), dist, L, circular):
        fails.append(("extend-bases", f"{res}"))
    if len(res.parts) > 2:
        fails.append(("extend-parts", f"{res}"))
    return fails


def check_text_form(a):
    """the textual form reads back to the same location: parts, strands, the operator joining the parts and uncertain
    ('<', '>') boundaries"""
    try:
        back = location_from_string(str(a))
    except Exception as err:  # pylint: disable=broad-except
        return [("string-raised", f"{a}: {repr(err)[:100]}")]
    same = (str(back) == str(a) and len(back.parts) == len(a.parts) and getattr(back, "operator", None) == getattr(a, "operator", None)
            and [(repr(p.start), repr(p.end), p.strand) for p in back.parts] == [(repr(p.start), repr(p.end), p.strand) for p in a.parts])
    return [] if same else [("string-roundtrip-form", f"{a!r} -> {back!r}")]


def text_form_universe(L):
    """multi-part locations with either operator, every strand incl. none, and uncertain outer boundaries"""
    from Bio.SeqFeature import AfterPosition, BeforePosition, ExactPosition, OneOfPosition, WithinPosition  # pylint: disable=import-outside-toplevel
    out = []
    for strand in (1, -1, None):
        for s1, e1, s2, e2 in itertools.combinations(range(L + 1), 4):
            for operator in ("join", "order"):
                out.append(C([F(s1, e1, strand), F(s2, e2, strand)], operator=operator))
                out.append(C([F(BeforePosition(s1), e1, strand), F(s2, AfterPosition(e2), strand)], operator=operator))
        for s, e in itertools.combinations(range(L + 1), 2):
            out.append(F(BeforePosition(s), e, strand))
            out.append(F(s, AfterPosition(e), strand))
        # the other two kinds of uncertain position a GenBank file can hold: "(8.10)..40" (somewhere within) and
        # "one-of(8,11)..40", as Biopython's parser builds them (a start takes the lowest, an end the highest value)
        for s, mid, e in itertools.combinations(range(L + 1), 3):
            out.append(F(WithinPosition(s, left=s, right=mid), e, strand))
            out.append(F(s, WithinPosition(e, left=mid, right=e), strand))
            out.append(F(OneOfPosition(s, [ExactPosition(s), ExactPosition(mid)]), e, strand))
            out.append(F(s, OneOfPosition(e, [ExactPosition(mid), ExactPosition(e)]), strand))
        for s1, e1, s2, e2 in itertools.combinations(range(L + 1), 4):
            out.append(C([F(s1, WithinPosition(e1, left=s1 + 1, right=e1), strand), F(OneOfPosition(s2, [ExactPosition(s2), ExactPosition(e2 - 1)]), e2, strand)]))
    return out


def _loc_equal(a, b):
    return (type(a).__name__ == type(b).__name__ and a.strand == b.strand
            and [(int(p.start), int(p.end), p.strand) for p in a.parts] == [(int(p.start), int(p.end), p.strand) for p in b.parts]
            and getattr(a, "operator", None) == getattr(b, "operator", None))


def check_string(L, a, is_bridging):
    fails = []
    try:
        back = location_from_string(str(a))
        if not _loc_equal(a, back):
            fails.append(("string-roundtrip", f"{a} -> {back}"))
    except Exception as err:  # pylint: disable=broad-except
        fails.append(("string-raised", repr(err)[:100]))
    try:
        fwd = make_forwards(a)
        if R.bases(fwd) != R.bases(a) or any(p.strand != 1 for p in fwd.parts):
            fails.append(("forwards", f"{fwd}"))
        if is_bridging is not None and a.strand in (1, -1) and location_bridges_origin(fwd) != is_bridging:
            fails.append(("forwards-bridging", f"{fwd}"))
        if enc(make_forwards(fwd)) != enc(fwd):
            fails.append(("forwards-idempotent", f"{fwd}"))
    except Exception as err:  # pylint: disable=broad-except
        fails.append(("forwards-raised", repr(err)[:100]))
    if a.strand in (1, -1) and is_bridging is not None:
        try:
            if location_bridges_origin(a) != is_bridging:
                fails.append(("bridges-origin", f"{a}"))
            if is_bridging:
                lower, upper = split_origin_bridging_location(a)
                low = frozenset().union(*[R.bases(p) for p in lower])
                upp = frozenset().union(*[R.bases(p) for p in upper])
                if low | upp != R.bases(a) or low & upp or not low or not upp or max(low) >= min(upp) or 0 not in low or L - 1 not in upp:
                    fails.append(("split", f"{lower} {upper}"))
        except Exception as err:  # pylint: disable=broad-except
            fails.append(("bridges-raised", repr(err)[:100]))
    if a.strand == -1 and len(a.parts) > 1:
        # the question may be asked with allow_reversing (as input validation does): when the answer is still "bridges", the
        # location has to be left as it was given, whatever was tried on the way (asked on a copy: a "no" may reorder the parts)
        try:
            copy = dec(enc(a))
            before = str(copy)
            for _ in range(2):
                if location_bridges_origin(copy, allow_reversing=True) and str(copy) != before:
                    fails.append(("bridges-query-changed-location", f"{before} -> {copy}"))
                    break
        except Exception as err:  # pylint: disable=broad-except
            fails.append(("bridges-raised", repr(err)[:100]))
    try:
        pruned = remove_redundant_exons(a)
        sets = R.part_sets(pruned)
        if R.bases(pruned) != R.bases(a):
            fails.append(("prune-bases", f"{pruned}"))
        if any(i != j and sets[i] <= sets[j] and (sets[i] != sets[j] or i > j) for i in range(len(sets)) for j in range(len(sets))):
            fails.append(("prune-still-redundant", f"{pruned}"))
    except Exception as err:  # pylint: disable=broad-except
        fails.append(("prune-raised", repr(err)[:100]))
    return fails


_REC = {}


def _recs(L):
    for circ in (True, False):
        if (L, circ) not in _REC:
            _REC[(L, circ)] = _record(L, circ)


# ---------------------------------------------------------------- shard drivers

def run_shard(shard):
    res = Result()
    kind, L = shard[0], shard[1]
    _recs(L)
    if kind == "pair":
        universe = u_loc(L, (1, -1))
        if L <= shard[2]:
            # intron-containing two-exon locations: distances are between the closest bases of any parts
            universe = universe + [m for m in _multi_exon(L) if len(m.parts) == 2 and m.strand == 1]
        for a in universe:
            for b in universe:
                res.evals += 1
                if a is not b:
                    res.nontrivial += 1
                fails = check_pair(L, a, b)
                ov = bool(R.bases(a) & R.bases(b))
                res.buckets["pair:overlapping" if ov else "pair:disjoint"] += 1
                if len(a.parts) > 1 or len(b.parts) > 1:
                    res.buckets["pair:bridging-operand"] += 1
                res.outcomes[("pair", ov, R.contains(a, b), min(R.distance(R.bases(a), R.bases(b), L, True), 3))] += 1
                case = {"op": "pair", "L": L, "a": enc(a), "b": enc(b)}
                for clause, detail in fails:
                    res.fail(case, clause, detail)
                if res.evals % 997 == 1:
                    res.sample(case)
    elif kind == "connectmulti":
        plain = u_loc(L, (1, -1))
        for circular in (True, False):
            multis = _multi_exon(L) if L <= 8 else []
            if circular:
                multis = multis + ring_multi_exon(L, 1) + ring_multi_exon(L, -1)
            others = plain if circular else simple(L, 1) + simple(L, -1)
            lists = itertools.chain(((m,) for m in multis), ((m, o) for m in multis for o in others), ((o, m) for m in multis for o in others))
            for locs in lists:
                res.evals += 1
                res.nontrivial += 1
                case = {"op": "connect", "L": L, "circular": circular, "locs": [enc(l) for l in locs]}
                fails, out = check_connect(L, locs, circular)
                if out is not None and not fails:
                    if circular and any(R.wraps(l) and len(l.parts) > 2 for l in locs):
                        res.buckets["connect:multi-exon-operand-over-origin"] += 1
                    if len(locs) == 2:
                        _, other = check_connect(L, locs[::-1], circular)
                        if other is None or enc(other) != enc(out):
                            fails.append(("connect-order", f"{out} vs {other} for the reversed list"))
                for clause, detail in fails:
                    res.fail(case, clause, detail)
                res.outcomes[("connectmulti", circular, tuple(sorted({c for c, _ in fails})))] += 1
                if res.evals % 4001 == 1:
                    res.sample(case)
    elif kind in ("connect2", "connect3"):
        universe = u_loc(L, (1, -1))
        line_universe = simple(L, 1) + simple(L, -1)
        if kind == "connect2":
            lists = itertools.chain(((a,) for a in universe), itertools.product(universe, repeat=2))
            line_lists = itertools.chain(((a,) for a in line_universe), itertools.product(line_universe, repeat=2))
        else:
            lo, hi = shard[2], shard[3]
            lists = ((a, b, c) for a in universe[lo:hi] for b in universe for c in universe)
            nl = len(line_universe)
            llo, lhi = lo * nl // len(universe), hi * nl // len(universe)
            line_lists = ((a, b, c) for a in line_universe[llo:lhi] for b in line_universe for c in line_universe)
        for circular, source in ((True, lists), (False, line_lists)):
            for locs in source:
                res.evals += 1
                if len({enc(l) for l in locs}) > 1:
                    res.nontrivial += 1
                case = {"op": "connect", "L": L, "circular": circular, "locs": [enc(l) for l in locs]}
                fails, out = check_connect(L, locs, circular)
                if out is not None and not fails:
                    if len(out.parts) == 2:
                        res.buckets["connect:result-bridges"] += 1
                    union = frozenset().union(*[R.bases(l) for l in locs])
                    if circular and 2 * len(R.shortest_arc(union, L)) < L:
                        res.buckets["connect:shortest-arc-demanded"] += 1
                    # order independence: compare with the canonical order's result
                    canon = sorted(locs, key=enc)
                    if [enc(l) for l in canon] != [enc(l) for l in locs]:
                        _, other = check_connect(L, canon, circular)
                        if other is None or enc(other) != enc(out):
                            fails.append(("connect-order", f"{out} vs {other} for sorted order"))
                    # idempotence
                    try:
                        again = connect_locations([out], wrap_point=L if circular else None)
                        if enc(again) != enc(out):
                            fails.append(("connect-idempotent", f"{out} -> {again}"))
                    except Exception as err:  # pylint: disable=broad-except
                        fails.append(("connect-idempotent-raised", repr(err)[:100]))
                    res.outcomes[("connect", circular, len(out.parts), len(out) == L)] += 1
                for clause, detail in fails:
                    res.fail(case, clause, detail)
                if res.evals % 4999 == 1:
                    res.sample(case)
    elif kind == "offset":
        universe = u_loc(L, (1, -1)) + _multi_exon(L)
        if L <= 8:
            universe = universe + _abutting_exons(L) + ring_multi_exon(L, 1) + ring_multi_exon(L, -1)
        for a in universe:
            was_bridging = len(a.parts) > 1 and location_bridges_origin(a)
            for k in range(-2 * L, 2 * L + 1):
                res.evals += 1
                if k % L:
                    res.nontrivial += 1
                case = {"op": "offset", "L": L, "a": enc(a), "k": k}
                fails = check_offset(L, a, k)
                if not fails and len(a.parts) <= 2:
                    now = frozenset((x + k) % L for x in R.bases(a))
                    bridges_now = 0 in now and L - 1 in now and len(now) < L
                    if bridges_now and not was_bridging:
                        res.buckets["offset:became-bridging"] += 1
                    if was_bridging and not bridges_now:
                        res.buckets["offset:became-simple"] += 1
                    res.outcomes[("offset", was_bridging, bridges_now)] += 1
                for clause, detail in fails:
                    res.fail(case, clause, detail)
                if res.evals % 1999 == 1:
                    res.sample(case)
        # a site between two bases ("40^41" in a GenBank file) covers no base: shifting it moves the site, nothing else
        for position in range(L + 1):
            for strand in (1, -1, None):
                for k in range(-L, L + 1):
                    res.evals += 1
                    res.nontrivial += 1 if k % L else 0
                    case = {"op": "offset-site", "L": L, "a": position, "strand": strand, "k": k}
                    for clause, detail in check_offset_site(L, position, strand, k):
                        res.fail(case, clause, detail)
                    res.buckets["offset:between-bases-site"] += 1
        for a in simple(L, 1) + simple(L, -1):
            for k in range(-int(a.start), L - int(a.end) + 1):
                res.evals += 1
                res.nontrivial += 1 if k else 0
                for clause, detail in check_offset_line(L, a, k):
                    res.fail({"op": "offset-line", "L": L, "a": enc(a), "k": k}, clause, detail)
    elif kind == "extend":
        for circular in (True, False):
            universe = u_loc(L, (1, -1), with_bridging=circular)
            for a in universe:
                for dist in range(0, L + 2):
                    res.evals += 1
                    res.nontrivial += 1 if dist else 0
                    case = {"op": "extend", "L": L, "circular": circular, "a": enc(a), "d": dist}
                    fails = check_extend(L, a, dist, circular)
                    if not fails and circular:
                        n = len(R.within(R.bases(a), dist, L, True))
                        if n == L:
                            res.buckets["extend:whole-ring"] += 1
                        elif int(a.start) - dist < 0 or int(a.end) + dist > L:
                            res.buckets["extend:wrapped"] += 1
                    res.outcomes[("extend", circular, not fails)] += 1
                    for clause, detail in fails:
                        res.fail(case, clause, detail)
                    if res.evals % 1999 == 1:
                        res.sample(case)
            if L <= 9:
                for a in _multi_exon(L):
                    for dist in range(0, L + 2):
                        res.evals += 1
                        res.nontrivial += 1 if dist else 0
                        case = {"op": "extend-multi", "L": L, "circular": circular, "a": enc(a), "d": dist}
                        fails = check_extend_multi(L, a, dist, circular)
                        res.buckets["extend:multi-exon"] += 1
                        res.outcomes[("extend-multi", circular, not fails)] += 1
                        for clause, detail in fails:
                            res.fail(case, clause, detail)
                        if res.evals % 1999 == 1:
                            res.sample(case)
    elif kind == "string":
        for strand in (1, -1, None, 0):
            for a in simple(L, strand):
                res.evals += 1
                res.nontrivial += 1
                for clause, detail in check_string(L, a, False):
                    res.fail({"op": "string", "L": L, "a": enc(a), "bridging": False}, clause, detail)
        for strand in (1, -1):
            for a in bridging(L, strand):
                res.evals += 1
                res.nontrivial += 1
                for clause, detail in check_string(L, a, True):
                    res.fail({"op": "string", "L": L, "a": enc(a), "bridging": True}, clause, detail)
        ring_exons = [(x, None) for x in ring_multi_exon(L, -1)] if L <= 8 else []
        for a, flag in [(x, False) for x in _multi_exon(L)] + [(x, None) for x in _redundant_exons(L)] + ring_exons:
            res.evals += 1
            res.nontrivial += 1
            case = {"op": "string", "L": L, "a": enc(a), "bridging": flag}
            for clause, detail in check_string(L, a, flag):
                res.fail(case, clause, detail)
            res.sample(case, 1)
        if L <= 7:
            for a in text_form_universe(L):
                res.evals += 1
                res.nontrivial += 1
                for clause, detail in check_text_form(a):
                    res.fail({"op": "text-form", "L": L, "a": repr(a)}, clause, detail)
            res.buckets["string:operators-and-uncertain-ends"] += 1
        res.outcomes[("string", L)] += 1
    elif kind == "lt":
        _run_lt(L, res)
    else:
        raise ValueError(kind)
    return res


def _multi_exon(L):
    """non-bridging multi-exon locations with introns, 2-3 exons, both strands (stored in biological order)"""
    out = []
    cuts = range(L + 1)
    for strand in (1, -1):
        for s1, e1, s2, e2 in itertools.combinations(cuts, 4):
            parts = [F(s1, e1, strand), F(s2, e2, strand)]
            if strand == -1:
                parts.reverse()
            out.append(C(parts))
        if L <= 9:
            for s1, e1, s2, e2, s3, e3 in itertools.combinations(cuts, 6):
                parts = [F(s1, e1, strand), F(s2, e2, strand), F(s3, e3, strand)]
                if strand == -1:
                    parts.reverse()
                out.append(C(parts))
    return out


def ring_multi_exon(L, strand):
    """2- and 3-exon locations laid out from every start position round the ring (total span < L), kept when they reach over
    the origin; exons cut by the origin become two parts; reverse-strand parts are stored in transcript order"""
    out = {}
    for start in range(L):
        for n_exons in (2, 3):
            for cuts in itertools.combinations(range(1, L), 2 * n_exons - 1):
                bounds = (0,) + cuts
                if start + bounds[-1] <= L:
                    continue        # does not reach over the origin: covered by _multi_exon
                parts = []
                for i in range(0, len(bounds), 2):
                    lo, hi = start + bounds[i], start + bounds[i + 1]
                    if lo >= L:
                        parts.append(F(lo - L, hi - L, strand))
                    elif hi > L:
                        parts.extend([F(lo, L, strand), F(0, hi - L, strand)])
                    else:
                        parts.append(F(lo, hi, strand))
                if strand == -1:
                    parts.reverse()
                loc = C(parts)
                out[enc(loc)] = loc
    return list(out.values())


def _abutting_exons(L):
    """2-4 exons of which consecutive ones may touch (no intron between them, as in programmed frameshifts) - after a shift
    they can abut the halves of an exon cut by the origin, so that three or more consecutive parts touch"""
    out = []
    for strand in (1, -1):
        for n_exons in (2, 3, 4):
            for cuts in itertools.combinations(range(L + 1), n_exons + 1):
                # exons [c0,c1) [c1,c2) ... all touching; and variants with one intron of length 1 after the first exon
                touching = [F(a, b, strand) for a, b in zip(cuts, cuts[1:])]
                variants = [touching]
                if cuts[1] + 1 < cuts[2]:
                    variants.append([F(cuts[0], cuts[1], strand), F(cuts[1] + 1, cuts[2], strand)] + touching[2:])
                for parts in variants:
                    if strand == -1:
                        parts = parts[::-1]
                    out.append(C(parts))
    return out


def _redundant_exons(L):
    """two-exon locations where one exon is inside/equal to the other"""
    out = []
    if L > 8:
        return out
    for a in simple(L, 1):
        for b in simple(L, 1):
            if R.bases(b) <= R.bases(a) or R.bases(a) <= R.bases(b):
                out.append(C([a, b]))
                if L <= 6:
                    # and with a third exon anywhere (before, between or after in the stored order)
                    for c in simple(L, 1):
                        out.extend([C([a, b, c]), C([a, c, b]), C([c, a, b])])
    return out


def _run_lt(L, res):
    universe = u_loc(L, (1,))
    feats = [Feature(loc, feature_type="misc") for loc in universe]
    n = len(feats)
    lt = [[feats[i] < feats[j] for j in range(n)] for i in range(n)]
    for i in range(n):
        res.evals += 1
        if lt[i][i]:
            res.fail({"op": "lt", "L": L, "locs": [enc(universe[i])]}, "lt-irreflexive", "")
        for j in range(n):
            if i < j and lt[i][j] and lt[j][i]:
                res.fail({"op": "lt", "L": L, "locs": [enc(universe[i]), enc(universe[j])]}, "lt-asymmetric", "")
            if i < j and not lt[i][j] and not lt[j][i]:
                res.buckets["lt:ties"] += 1
    for i in range(n):
        for j in range(n):
            for k in range(n):
                res.evals += 1
                res.nontrivial += 1 if len({i, j, k}) == 3 else 0
                if lt[i][j] and lt[j][k] and not lt[i][k]:
                    res.fail({"op": "lt", "L": L, "locs": [enc(universe[x]) for x in (i, j, k)]}, "lt-transitive", "")
                inc_ij = not lt[i][j] and not lt[j][i]
                inc_jk = not lt[j][k] and not lt[k][j]
                if inc_ij and inc_jk and (lt[i][k] or lt[k][i]):
                    res.fail({"op": "lt", "L": L, "locs": [enc(universe[x]) for x in (i, j, k)]}, "lt-incomparability-transitive", "")
    res.outcomes[("lt", L)] += 1
    res.sample({"op": "lt", "L": L, "locs": [enc(universe[0]), enc(universe[-1])]}, 1)


def replay(case):
    op, L = case["op"], case["L"]
    _recs(L)
    if op == "pair":
        return check_pair(L, dec(case["a"]), dec(case["b"]))
    if op == "text-form":
        for cand in text_form_universe(L):
            if repr(cand) == case["a"]:
                return check_text_form(cand)
        return []
    if op == "connect":
        locs = [dec(x) for x in case["locs"]]
        fails, out = check_connect(L, locs, case["circular"])
        if out is not None and not fails:
            _, other = check_connect(L, sorted(locs, key=enc), case["circular"])
            if other is None or enc(other) != enc(out):
                fails.append(("connect-order", f"{out} vs {other}"))
            again = connect_locations([out], wrap_point=L if case["circular"] else None)
            if enc(again) != enc(out):
                fails.append(("connect-idempotent", f"{out} -> {again}"))
        return fails
    if op == "offset-site":
        return check_offset_site(L, case["a"], case["strand"], case["k"])
    if op == "offset":
        return check_offset(L, dec(case["a"]), case["k"])
    if op == "offset-line":
        return check_offset_line(L, dec(case["a"]), case["k"])
    if op == "extend":
        return check_extend(L, dec(case["a"]), case["d"], case["circular"])
    if op == "extend-multi":
        return check_extend_multi(L, dec(case["a"]), case["d"], case["circular"])
    if op == "string":
        return check_string(L, dec(case["a"]), case["bridging"])
    if op == "lt":
        feats = [Feature(dec(x), feature_type="misc") for x in case["locs"]]
        fails = []
        if len(feats) == 1 and feats[0] < feats[0]:
            fails.append(("lt-irreflexive", ""))
        if len(feats) == 2 and feats[0] < feats[1] and feats[1] < feats[0]:
            fails.append(("lt-asymmetric", ""))
        if len(feats) == 3:
            a, b, c = feats
            if a < b and b < c and not a < c:
                fails.append(("lt-transitive", ""))
            if not (a < b or b < a) and not (b < c or c < b) and (a < c or c < a):
                fails.append(("lt-incomparability-transitive", ""))
        return fails
    raise ValueError(op)
