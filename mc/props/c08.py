"""C08 Genes belong to exactly the areas that contain them, whatever the build order.

Part 1 (E1): every set of <= k genes from all CDS-able intervals of a tiny record x every query location x
with_overlapping, through Record.get_cds_features_within_location, against brute force over set-of-bases predicates.
Part 2 (E2, shared with C06): see mc.props.c06 histories - membership/links in every reachable state.
"""
import itertools

from mc.engine.core import Result
from mc.ref import bases as R
from mc.universe import worlds as W
from mc.universe.loc import bridging, dec, enc, simple, u_loc

ID = "C08"
LEVEL = "model_checking"
RULE = ("cases = (topology, L, set of gene locations, query location, with_overlapping); genes: every subset of size <= k of all "
        "intervals of length >= 3 (ring: plus all origin-spanning two-part genes, either strand); queries: all of U_loc(L); "
        "non-trivial = the expected answer is non-empty and not all genes; distinct by construction")
ASSUMPTIONS = [
    "small-scope: lookup logic depends only on the relative order of starts/ends; L <= 10-12 with <= 3-4 genes contains nested, identical-start, identical-end, touching and overlapping layouts",
    "for origin-spanning queries only set equality, no duplicates, and 'genes wholly before the origin precede genes wholly after it' are demanded",
]
BOUNDS = {
    "quick": "line L=9 <=3 genes; ring L=7 <=3 genes; ring L=10 <=2 genes; all queries, both flags; build-order BFS depth 6",
    "thorough": "line L=12 <=3 genes, L=10 <=4 genes; ring L=9 <=3 genes, L=7 <=4 genes, L=12 <=2 genes; build-order BFS depth 8",
}
REQUIRED_BUCKETS = {t: ["bfs:gene-added-after-regions", "lookup:nested-genes", "lookup:identical-start", "lookup:bridging-gene", "lookup:bridging-query",
                        "lookup:overlapping-differs-from-contained", "lookup:intron-genes"] for t in ("quick", "thorough")}
N_CHUNKS = 16


def gene_universe(L, circular, introns=False):
    out = [g for g in simple(L, 1) if len(g) >= 3]
    if introns:
        # two-exon genes with an intron (coding length >= 3): their start-to-end span exceeds their length
        from antismash.common.secmet.locations import CompoundLocation as C, FeatureLocation as F  # pylint: disable=import-outside-toplevel
        for s1, e1, s2, e2 in itertools.combinations(range(L + 1), 4):
            if (e1 - s1) + (e2 - s2) >= 3:
                out.append(C([F(s1, e1, 1), F(s2, e2, 1)]))
    if circular:
        for strand in (1, -1):
            out.extend(g for g in bridging(L, strand) if len(g) >= 3)
    return out


def shards(tier):
    if tier == "quick":
        plans = [(False, 9, 3), (True, 7, 3), (True, 10, 2), (False, -8, 2)]   # negative L: with intron-containing genes
    else:
        plans = [(False, 12, 3), (False, 10, 4), (True, 9, 3), (True, 7, 4), (True, 12, 2), (False, -10, 2), (True, -8, 2)]
    out = [["lookup", circ, L, k, chunk] for circ, L, k in plans for chunk in range(N_CHUNKS)]
    depth = 6 if tier == "quick" else 8
    out += [["bfs", False, depth], ["bfs", True, depth]]
    return out


def expected(rec_genes, query, overlapping):
    """rec_genes: CDS features in the record's own order"""
    if overlapping:
        return [g for g in rec_genes if R.overlap(query, g.location)]
    return [g for g in rec_genes if R.contains(query, g.location)]


def check_lookup(L, circular, genes, query, overlapping, built=None):
    if built is None:
        world = {"L": L, "circ": circular, "genes": [[f"g{i}", enc(g)] for i, g in enumerate(genes)]}
        built = W.build_world(world)
    rec, _ = built
    ordered = rec.get_cds_features()
    exp = expected(ordered, query, overlapping)
    try:
        got = rec.get_cds_features_within_location(query, with_overlapping=overlapping)
    except Exception as err:  # pylint: disable=broad-except
        return [("lookup-raised", repr(err)[:200])], exp
    fails = []
    tag = "overlapping" if overlapping else "contained"
    got_names = [g.get_name() for g in got]
    exp_names = [g.get_name() for g in exp]
    if len(set(got_names)) != len(got_names):
        fails.append((f"lookup-duplicates-{tag}", f"{got_names}"))
    if set(got_names) - set(exp_names):
        fails.append((f"lookup-extra-{tag}", f"code={got_names} ref={exp_names}"))
    if set(exp_names) - set(got_names):
        fails.append((f"lookup-missing-{tag}", f"code={got_names} ref={exp_names}"))
    if not fails:
        if len(query.parts) == 1:
            # genes not spanning the origin must come in the record's own order; an origin-spanning gene may come
            # first or last (it precedes position 0 and follows position L-1; the repo's tests pin "last" when only
            # its pre-origin part is reached)
            linear = {g.get_name() for g in exp if not g.location.crosses_origin()}
            if [n for n in got_names if n in linear] != [n for n in exp_names if n in linear]:
                fails.append((f"lookup-order-{tag}", f"code={got_names} ref={exp_names}"))
        else:
            parts = sorted(query.parts, key=lambda p: int(p.start))
            post, pre = R.bases(parts[0]), R.bases(parts[-1])
            seen_post = False
            for g in got:
                b = R.bases(g.location)
                if b <= post:
                    seen_post = True
                elif b <= pre and seen_post:
                    fails.append((f"lookup-order-{tag}", f"code={got_names}"))
                    break
    return fails, exp


def run_shard(shard):
    res = Result()
    if shard[0] == "bfs":
        from mc.props import c06  # pylint: disable=import-outside-toplevel
        states, transitions = c06.bfs(shard[1], shard[2], res, which="c08")
        res.extra["states"] = states
        res.extra["transitions"] = transitions
        res.extra["traces_validated_against_impl"] = transitions
        res.outcomes[("bfs", shard[1], states)] += 1
        return res
    _, circular, L, k, chunk = shard
    introns = L < 0
    L = abs(L)
    universe = gene_universe(L, circular, introns)
    queries = u_loc(L, (1,), with_bridging=circular)
    index = 0
    for size in range(1, k + 1):
        for genes in itertools.combinations(universe, size):
            index += 1
            if index % N_CHUNKS != chunk:
                continue
            world = {"L": L, "circ": circular, "genes": [[f"g{i}", enc(g)] for i, g in enumerate(genes)]}
            built = W.build_world(world)
            sets = [R.bases(g) for g in genes]
            nested = any(a < b for a in sets for b in sets)
            same_start = len({int(g.start) for g in genes if len(g.parts) == 1}) < sum(1 for g in genes if len(g.parts) == 1)
            has_bridge = any(len(g.parts) > 1 and int(g.parts[0].start) > int(g.parts[-1].start) for g in genes)
            for query in queries:
                exps = {}
                for overlapping in (False, True):
                    res.evals += 1
                    fails, exp = check_lookup(L, circular, genes, query, overlapping, built)
                    exps[overlapping] = len(exp)
                    if 0 < len(exp) < size or (len(exp) == size and size > 1 and len(query) < L):
                        res.nontrivial += 1
                    if fails or res.evals % 100003 == 1:
                        case = {"op": "lookup", "L": L, "circ": circular, "genes": [enc(g) for g in genes],
                                "q": enc(query), "ov": overlapping}
                        for clause, detail in fails:
                            res.fail(case, clause, detail)
                        res.sample(case)
                    res.outcomes[(overlapping, min(len(exp), 4), len(query.parts))] += 1
                if exps[True] != exps[False]:
                    res.buckets["lookup:overlapping-differs-from-contained"] += 1
                if len(query.parts) > 1:
                    res.buckets["lookup:bridging-query"] += 1
                if nested:
                    res.buckets["lookup:nested-genes"] += 1
                if same_start:
                    res.buckets["lookup:identical-start"] += 1
                if has_bridge:
                    res.buckets["lookup:bridging-gene"] += 1
                if introns:
                    res.buckets["lookup:intron-genes"] += 1
    return res


def replay(case):
    if case.get("kind") == "history":
        from mc.props import c06  # pylint: disable=import-outside-toplevel
        return c06.check_history(case["circ"], case["hist"], which="c08")
    genes = [dec(g) for g in case["genes"]]
    fails, _ = check_lookup(case["L"], case["circ"], genes, dec(case["q"]), case["ov"])
    return fails
