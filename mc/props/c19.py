"""C19 Region overview layout data is complete, non-overlapping and in range.

Every region of every record of the slotted protocluster/subregion universe (<= 3-4 areas; linear, circular,
origin-spanning and whole-record regions; genes incl. an origin-spanning one) through build_area_rows and, on the
same records, js.convert_regions (real config object, no modules enabled).
"""
import collections
import itertools

from antismash.outputs.html import js
from antismash.outputs.html.area_packing import build_area_rows

from mc.engine.core import Result
from mc.props import c06
from mc.ref import bases as R
from mc.universe import config as Cfg
from mc.universe import protos as P

ID = "C19"
LEVEL = "exploration"
RULE = ("cases = (topology, set of <= k areas from the slotted menu of subregions and protoclusters, region of the resulting record); "
        "non-trivial = region with at least two drawn areas; distinct by construction")
ASSUMPTIONS = [
    "areas in the layout data carry no identifier, so completeness is judged on multisets: per kind, the drawn extents (halves of one group "
    "joined, coordinates taken modulo the record length) must equal the extents of the region's features",
    "js.get_description (gene tooltip HTML, no coordinates) is stubbed out in the harness for speed",
    "the announced range of a region is [start, end] of the JSON region (origin-spanning: continuing past the record length); for "
    "build_area_rows alone it is derived from the region location in the same way",
]
BOUNDS = {"quick": "6 slots, <= 3 areas, line and ring (with an origin-spanning gene), + exactly 4 areas of the halved menu on the ring", "thorough": "6 slots <= 4 areas (full menu) line and ring, 7 slots ring <= 3 areas and exactly 4 of the halved menu"}
REQUIRED_BUCKETS = {t: ["region:origin-spanning", "region:whole-record", "area:split-in-two", "area:shifted-past-length", "orfs:checked",
                        "orf:split-in-two", "rows:several-heights"] for t in ("quick", "thorough")}
N_CHUNKS = 16
_OPTIONS = None


def options():
    global _OPTIONS
    if _OPTIONS is None:
        from antismash.config import update_config  # pylint: disable=import-outside-toplevel
        _OPTIONS = Cfg.make_config()
        _OPTIONS = update_config({"all_enabled_modules": [], "html_ncbi_context": False})
    return _OPTIONS


def _no_description(*_args, **_kwargs):
    return ""


def announced_range(region, L):
    if region.crosses_origin():
        return int(region.start), L + int(region.location.parts[-1].end)
    return int(region.location.start), int(region.location.end)


def check_rows(region, L, circular, stats=None):
    fails = []
    try:
        rows = build_area_rows(region, L, circular=circular)
    except Exception as err:  # pylint: disable=broad-except
        return [("rows-raised", f"{type(err).__name__}: {str(err)[:150]}")]
    lo, hi = announced_range(region, L)
    drawn = collections.defaultdict(list)      # kind -> list of (group, extent bases, core bases)
    by_height = collections.defaultdict(list)
    for area in rows:
        ns = area.get("neighbouring_start", area["start"])
        ne = area.get("neighbouring_end", area["end"])
        if not lo <= ns <= ne <= hi:
            fails.append(("area-outside-range", f"{area['kind']} [{ns},{ne}] outside [{lo},{hi}]"))
            continue
        if area["kind"] == "protocluster" and not ns <= area["start"] <= area["end"] <= ne:
            fails.append(("core-outside-extent", f"core [{area['start']},{area['end']}] extent [{ns},{ne}]"))
        # areas without a core are drawn as one box: it is the extent (or nothing, for the half that only carries the label's twin)
        if area["kind"] != "protocluster" and (area["start"], area["end"]) != (ns, ne) and not ns <= area["start"] <= area["end"] <= ne:
            fails.append(("box-outside-extent", f"{area['kind']} box [{area['start']},{area['end']}] extent [{ns},{ne}]"))
        by_height[area["height"]].append((ns, ne, area.get("group", 0)))
        drawn[area["kind"]].append((area.get("group", 0), frozenset(x % L for x in range(ns, ne)),
                                    frozenset(x % L for x in range(area["start"], area["end"]))))
        if stats is not None and ne > L:
            stats["area:shifted-past-length"] += 1
    if fails:
        return fails
    for height, items in by_height.items():
        for i in range(len(items)):
            for j in range(i + 1, len(items)):
                a, b = items[i], items[j]
                if a[2] and a[2] == b[2]:
                    continue
                if a[0] < b[1] and b[0] < a[1]:
                    fails.append(("row-overlap", f"height {height}: [{a[0]},{a[1]}] and [{b[0]},{b[1]}]"))
    # completeness per kind
    expected = {
        # (each protocluster object once, whatever number of candidates lists it - not taken from the region's own helper)
        "protocluster": [(R.bases(p.location), R.bases(p.core_location))
                         for p in {id(p): p for c in region.candidate_clusters for p in c.protoclusters}.values()],
        "candidatecluster": [(R.bases(c.location), None) for c in region.candidate_clusters
                             if region.subregions or c.kind != c.kinds.SINGLE],
        "subregion": [(R.bases(s.location), None) for s in region.subregions],
    }
    for kind, wanted in expected.items():
        items = drawn.get(kind, [])
        groups = collections.defaultdict(list)
        singles = []
        for group, extent, core in items:
            if group:
                groups[group].append((extent, core))
            else:
                singles.append((extent, core))
        for group, halves in groups.items():
            if len(halves) != 2:
                fails.append(("group-size", f"{kind}: group with {len(halves)} members"))
            singles.append((frozenset().union(*[h[0] for h in halves]), frozenset().union(*[h[1] for h in halves])))
            if stats is not None:
                stats["area:split-in-two"] += 1
        if len(singles) != len(wanted):
            fails.append(("area-count", f"{kind}: drawn {len(singles)} expected {len(wanted)}"))
            continue
        got_extents = sorted(sorted(e) for e, _ in singles)
        want_extents = sorted(sorted(e) for e, _ in wanted)
        if got_extents != want_extents:
            fails.append(("area-extent-coordinates", f"{kind}: drawn {got_extents} features {want_extents}"))
        elif kind == "protocluster":
            got_cores = sorted((sorted(e), sorted(c)) for e, c in singles)
            want_cores = sorted((sorted(e), sorted(c)) for e, c in wanted)
            if got_cores != want_cores:
                fails.append(("core-coordinates", f"drawn {got_cores} features {want_cores}"))
    if stats is not None and len(by_height) > 1:
        stats["rows:several-heights"] += 1
    return fails


def check_js(rec, L, stats=None):
    """convert_regions on the whole record: ranges and orfs"""
    fails = []
    rec.record_index = 1
    # the tooltip HTML of each gene costs ~50 ms per record and carries no coordinates
    js.get_description = _no_description
    try:
        regions = js.convert_regions(rec, options(), {})
    except Exception as err:  # pylint: disable=broad-except
        return [("convert-regions-raised", f"{type(err).__name__}: {str(err)[:150]}")]
    for region, data in zip(rec.get_regions(), regions):
        lo, hi = data["start"], data["end"]
        # starts are 1-based for ordinary regions
        lo0 = lo if region.crosses_origin() else lo - 1
        if (lo0, hi) != announced_range(region, L):
            fails.append(("region-range", f"{region.location}: announced [{lo},{hi}]"))
            continue
        orf_groups = collections.defaultdict(list)
        children = {cds.get_name(): cds for cds in region.cds_children}
        for orf in data["orfs"]:
            start0, end = orf["start"] - 1, orf["end"]
            if not lo0 <= start0 < end <= hi:
                gene = children.get(orf["locus_tag"].replace("_split", ""))
                # a gene whose exons lie in different parts of an origin-spanning region without itself crossing the origin
                apart = gene is not None and len(gene.location.parts) > 1 and not gene.crosses_origin()
                fails.append(("exons-apart-gene-outside-range" if apart else "orf-outside-range",
                              f"{orf['locus_tag']} [{orf['start']},{orf['end']}] range [{lo},{hi}] region {region.location}"))
            orf_groups[orf["locus_tag"].replace("_split", "")].append(frozenset(x % L for x in range(start0, end)))
            if stats is not None:
                stats["orfs:checked"] += 1
        if set(orf_groups) != set(children):
            fails.append(("orf-set", f"{sorted(orf_groups)} vs {sorted(children)}"))
            continue
        for name, parts in orf_groups.items():
            if len(parts) > 1 and stats is not None:
                stats["orf:split-in-two"] += 1
            drawn = frozenset().union(*parts)
            gene = children[name]
            hull = R.bases(gene.location)
            if len(gene.location.parts) > 1 and not gene.crosses_origin():
                # drawn from its first to its last base, introns included
                hull = frozenset(range(int(gene.location.start), int(gene.location.end)))
            if drawn != hull:
                fails.append(("orf-coordinates", f"{name}: drawn {sorted(drawn)} gene {gene.location}"))
        for area in data["clusters"]:
            ns = area.get("neighbouring_start", area["start"])
            ne = area.get("neighbouring_end", area["end"])
            if not lo0 <= ns <= ne <= hi:
                fails.append(("area-outside-announced-range", f"[{ns},{ne}] vs [{lo},{hi}]"))
    return fails


def check_config(nslots, circular, areas, stats=None, outcomes=None):
    L = nslots * P.SLOT
    rec, _ = build(nslots, circular, areas)
    if rec is None:
        return None
    try:
        rec.create_candidate_clusters()
        rec.create_regions()
    except Exception as err:  # pylint: disable=broad-except
        return [("region-creation-raised", repr(err)[:120])]
    fails = []
    for region in rec.get_regions():
        got = check_rows(region, L, circular, stats)
        fails.extend(got)
        if stats is not None:
            if region.crosses_origin():
                stats["region:origin-spanning"] += 1
            if len(region.location) == L:
                stats["region:whole-record"] += 1
    fails.extend(check_js(rec, L, stats))
    return fails


def build(nslots, circular, areas):
    L = nslots * P.SLOT
    rec, _ = P.make_slotted_record(nslots, circular, P.default_core_functions(nslots), bridging_gene=circular)
    from antismash.common.secmet.features import SubRegion  # pylint: disable=import-outside-toplevel
    if circular:
        # a gene with an intron as long as a slot: a region can hold both exons in different parts and leave the intron out
        from antismash.common.secmet.locations import CompoundLocation, FeatureLocation  # pylint: disable=import-outside-toplevel
        from mc.universe import worlds as W  # pylint: disable=import-outside-toplevel
        rec.add_cds_feature(W.make_cds(CompoundLocation([FeatureLocation(4, 6, 1), FeatureLocation(P.SLOT * 2, P.SLOT * 2 + 1, 1)]), "gx"))
    objs = []
    for area in areas:
        obj = P.make_subregion(L, circular, area[1:]) if area[0] == "S" else P.make_protocluster(L, circular, area[1:])
        if obj is None:
            return None, None
        objs.append(obj)
    for obj in objs:
        if isinstance(obj, SubRegion):
            rec.add_subregion(obj)
        else:
            rec.add_protocluster(obj)
    return rec, objs


def menu(nslots, circular, reduced):
    if reduced == "asym":
        # unequal neighbourhoods (sideloaded protoclusters have independent left and right ones): which side of the core the
        # origin lies on cannot be guessed from the core's distance to either end
        subs = [a for a in c06.area_menu(nslots, circular, True) if a[0] == "S"]
        return subs + [["P"] + spec for spec in P.protocluster_menu(nslots, circular, max_core=2, products=("p",),
                                                                    neighbourhoods=((0, 3), (3, 0), (1, 4), (4, 1), (0, 4)))]
    base = c06.area_menu(nslots, circular, reduced)
    if reduced == "tight":
        return base
    # a second product so that hybrids/interleaved candidates (drawn candidates) occur
    extra = [["P"] + spec for spec in P.protocluster_menu(nslots, circular, max_core=2, products=("q",), neighbourhoods=((1, 1),))]
    return base + (extra[::2] if reduced else extra)


def shards(tier):
    plans = [(6, False, 3, False), (6, True, 3, False), (6, True, 4, True), (6, True, 4, "tight"), (6, True, 2, "asym"),
             (6, True, 3, "twins"), (6, False, 3, "twins")]
    if tier == "thorough":
        plans = [(6, False, 4, False), (6, True, 4, False), (7, True, 3, False), (7, True, 4, True),
                 (6, True, 4, "tight"), (6, False, 4, "tight"), (7, True, 4, "tight"), (8, True, 4, "tight"),
                 (6, True, 3, "asym"), (7, True, 2, "asym"), (8, True, 2, "asym"), (6, True, 3, "twins"), (6, False, 3, "twins"),
                 (8, True, 3, "twins")]
    return [[nslots, circ, k, reduced, chunk] for nslots, circ, k, reduced in plans for chunk in range(_chunks(k, reduced))]


def _chunks(k, reduced):
    return N_CHUNKS * (8 if k == 4 and not reduced else 1)


def run_shard(shard):
    nslots, circ, k, reduced, chunk = shard
    res = Result()
    if reduced == "twins":
        # the same protocluster twice (e.g. sideloaded twice) next to a further area: the twins are equal in every respect and both
        # belong to the same candidates
        base = c06.area_menu(nslots, circ, "basic")
        protos = [a for a in base if a[0] == "P"]
        combos = [(p, p, q) for p in protos for q in base if q != p]
    else:
        items = menu(nslots, circ, reduced)
        combos = (combo for size in (range(1, k + 1) if reduced is not True else (k,)) for combo in itertools.combinations(items, size))
    index = 0
    for _once in (1,):
        for combo in combos:
            size = len(combo)
            index += 1
            if index % _chunks(k, reduced) != chunk:
                continue
            fails = check_config(nslots, circ, list(combo), res.buckets)
            if fails is None:
                continue
            res.evals += 1
            res.nontrivial += size > 1
            res.outcomes[(size, tuple(sorted({c for c, _ in fails})))] += 1
            if fails or res.evals % 1009 == 1:
                case = {"nslots": nslots, "circ": circ, "areas": list(combo)}
                for clause, detail in fails:
                    res.fail(case, clause, detail)
                res.sample(case)
    return res


def replay(case):
    return check_config(case["nslots"], case["circ"], case["areas"]) or []
