"""C13 HMM hit refinement keeps the best non-overlapping hits, order-independently.

(a) refine_hmmscan_results (both modes): every multiset of <= k hits from a boundary menu; the hits go into a set, so
    "every ordering of the input" = every iteration order of that set, explored through the set-order hook (E3);
    post-conditions of the statement + one result for all orders.
(b) hmmer.remove_overlapping and (c) the detection filters filter_results / filter_result_multiple take lists: every
    permutation of the input list and every iteration order of their internal sets.
"""
from mc.instr import setorder
setorder.install()   # must precede any antismash import  # noqa: E402

import itertools  # noqa: E402

from antismash.common import hmmscan_refinement as hr  # noqa: E402
from antismash.common import hmmer  # noqa: E402
from antismash.common.hmm_rule_parser import cluster_prediction  # noqa: E402

from mc.engine.choice import explore  # noqa: E402
from mc.engine.core import Result  # noqa: E402

ID = "C13"
LEVEL = "model_checking"
RULE = ("refinement cases = (multiset of <= k hits from the menu {profiles A(len 40), B(len 100), regulatorR(len 40)} x 7 spans x scores {1,2} "
        "(+ one tie-breaking score 3), mode); schedules = every iteration order of every set iterated by the code (all n! for n <= 4); "
        "filter cases = (multiset of <= 3 hits, every permutation of the input list); non-trivial = at least two hits that overlap or share a "
        "profile; distinct by construction")
ASSUMPTIONS = [
    "the set-order import hook owns every set created in antiSMASH code; sets inside Biopython/stdlib are not instrumented (none are iterated here)",
    "a merged hit is accepted when its span is < 1.5x the profile length or equals the span of one of its constituents",
    "when every hit is below the fallback threshold and nothing survives, dropped hits are excused (documented behaviour of remove_incomplete)",
    "ties in score between different spans: either may survive, but the same one for every order",
]
BOUNDS = {"quick": "refinement: <= 3 hits from a 30-hit menu, all iteration orders, both modes; filters: <= 3 hits, all permutations",
          "thorough": "refinement: <= 5 hits from the full 30-hit menu, 6 hits from a 15-hit sub-menu (5 and 6 hits: rotations + reversal of the set order)"}
REQUIRED_BUCKETS = {t: ["refine:schedules", "refine:merged-output", "refine:dropped-input", "refine:equal-start-tie",
                        "overlap:dropped", "filter:dropped", "filter:chains"] for t in ("quick", "thorough")}
LENS = {"A": 40, "B": 100, "regulatorR": 40, "Z": 400}
N_CHUNKS = 32


class _HSP:
    def __init__(self, hit, start, end, score):
        self.query_id = "gene"
        self.hit_id = hit
        self.query_start = start
        self.query_end = end
        self.evalue = 10.0 ** (-score)
        self.bitscore = float(score)
        self.hit_start = start
        self.hit_end = end
        self.hit_description = ""


class _Query:
    def __init__(self, hsps):
        self.hsps = hsps
        self.id = "gene"


def menu(tier, size):
    out = []
    spans = [(0, 30), (0, 60), (10, 50), (25, 60), (40, 100), (55, 95), (90, 130)]
    for profile in ("A", "B"):
        for start, end in spans:
            for score in (1, 2):
                out.append((profile, start, end, score))
    out.append(("regulatorR", 0, 10, 1))
    out.append(("A", 0, 30, 3))
    # a fragment of the short profile that is shorter in residues than the fragments of the long profile but more complete
    # (18 of 40 = 45% against 30 of 100 = 30%): "more complete" is a matter of proportion, not of length
    out.append(("A", 0, 18, 1))
    out.append(("A", 62, 80, 2))
    # a sliver of a very long profile: the margin towards it is a fifth of ITS length, so it can stand between two hits that
    # overlap each other far beyond their own margin
    out.append(("Z", 5, 9, 1))
    if size >= 6 or (size >= 5 and tier != "thorough"):
        out = [h for i, h in enumerate(out) if i % 2 == 0]
    return out


def margin(p, q):
    return 0.2 * max(LENS[p], LENS[q])


def overlap(a, b):
    return min(a[2], b[2]) - max(a[1], b[1])


def postconditions(inputs, out):
    """inputs / out: tuples (profile, start, end, score) -> list of clause names"""
    probs = []
    if [o[1] for o in out] != sorted(o[1] for o in out):
        probs.append("unsorted")
    for i in range(len(out)):
        for j in range(i + 1, len(out)):
            if overlap(out[i], out[j]) > margin(out[i][0], out[j][0]):
                probs.append("outputs-overlap-beyond-margin")
    represented = set()
    merged_any = False
    for o in out:
        if o in inputs:
            represented.add(o)
            continue
        same = [h for h in inputs if h[0] == o[0]]
        found = False
        for k in range(2, len(same) + 1):
            for subset in itertools.combinations(same, k):
                start = min(h[1] for h in subset)
                end = max(h[2] for h in subset)
                score = max(h[3] for h in subset)
                span_ok = end - start < 1.5 * LENS[o[0]] or any((h[1], h[2]) == (start, end) for h in subset)
                if (start, end, score) == (o[1], o[2], o[3]) and span_ok:
                    found = True
                    represented.update(subset)
        if found:
            merged_any = True
        else:
            probs.append("output-is-neither-input-nor-merge")
    for h in inputs:
        if h in represented:
            continue
        # (a hit lying wholly inside a kept hit overlaps it as much as it can, even when that is less than the margin)
        excused = any((overlap(h, o) > margin(h[0], o[0]) or overlap(h, o) >= min(h[2] - h[1], o[2] - o[1])) and o[3] >= h[3] for o in out)
        fraction = (h[2] - h[1]) / LENS[h[0]]
        if not excused and fraction <= 0.5:
            if not out or any((o[2] - o[1]) / LENS[o[0]] >= fraction for o in out):
                excused = True
        if not excused:
            probs.append("input-dropped-without-reason")
    return probs, merged_any, len(represented) < len(set(inputs))


def run_refine(hits, mode):
    res = hr.refine_hmmscan_results([_Query([_HSP(*h) for h in hits])], LENS, neighbour_mode=mode).get("gene", [])
    return tuple((r.hit_id, r.query_start, r.query_end, int(r.bitscore)) for r in res)


def check_refine(hits, mode, stats=None):
    """explores every set iteration order; -> fails"""
    fails = []
    outcomes = {}
    try:
        for schedule, points, outcome in explore(lambda: run_refine(hits, mode), setorder.SCHED, bound=2):
            outcomes.setdefault(outcome, schedule)
            if stats is not None:
                stats["refine:schedules"] += 1
    except Exception as err:  # pylint: disable=broad-except
        return [("refine-raised", f"{type(err).__name__}: {str(err)[:120]}")]
    finally:
        setorder.SCHED.reset()
    if len(outcomes) > 1:
        desc = "; ".join(f"schedule {s}: {o}" for o, s in list(outcomes.items())[:3])
        fails.append(("order-dependent", desc))
    for outcome in outcomes:
        probs, merged, dropped = postconditions(tuple(hits), outcome)
        for prob in sorted(set(probs)):
            fails.append((prob, f"in={hits} out={outcome}"))
        if stats is not None:
            stats["refine:merged-output"] += merged
            stats["refine:dropped-input"] += dropped
        break   # post-conditions are judged on the default order's result; the others must equal it anyway
    return fails


# ---------------------------------------------------------------- hmmer.remove_overlapping

def _hmmer_hit(h):
    profile, start, end, score = h
    return hmmer.HmmerHit(location=f"[{start * 3}:{end * 3}](+)", label=profile, locus_tag="gene", domain=profile, evalue=10.0 ** -score,
                          score=float(score), identifier=f"PF{profile}", description="d", protein_start=start, protein_end=end,
                          translation="M" * (end - start))


def check_remove_overlapping(hits, limit=10):
    cutoffs = {"PFA": 1.0, "PFB": 1.0, "PFregulatorR": 1.0, "PFX": 1.0, "PFZ": 1.0}
    outs = {}
    for perm in itertools.permutations(hits):
        try:
            for schedule, _, outcome in explore(
                    lambda p=perm: tuple((h.identifier, h.protein_start, h.protein_end, h.score)
                                         for h in hmmer.remove_overlapping([_hmmer_hit(x) for x in p], cutoffs, overlap_limit=limit)),
                    setorder.SCHED, bound=1):
                outs.setdefault(outcome, (perm, schedule))
        except Exception as err:  # pylint: disable=broad-except
            return [("remove-overlapping-raised", f"{type(err).__name__}: {str(err)[:120]}")], False
        finally:
            setorder.SCHED.reset()
    fails = []
    if len(outs) > 1:
        fails.append(("overlap-order-dependent", str(list(outs.items())[:2])))
    out = next(iter(outs))
    if [o[1] for o in out] != sorted(o[1] for o in out):
        fails.append(("overlap-unsorted", str(out)))
    kept = [(o[0][2:], o[1], o[2], int(o[3])) for o in out]
    for i in range(len(kept)):
        for j in range(i + 1, len(kept)):
            if overlap(kept[i], kept[j]) > limit:
                fails.append(("overlap-kept-hits-overlap", f"{kept[i]} {kept[j]}"))
    if any(k not in hits for k in kept):
        fails.append(("overlap-alien-output", str(kept)))
    if len(kept) != len(set(kept)) and len(set(hits)) == len(hits):
        fails.append(("overlap-duplicate-output", str(kept)))

    def rank(h):   # better first: higher score, longer, earlier, identifier
        return (-h[3], -(h[2] - h[1]), h[1], h[0])
    for h in set(hits):
        if h in kept:
            continue
        # (the statement excuses a dropped hit by any better-ranked kept hit that overlaps it; hits shorter than the limit can only
        # ever overlap by less than the limit)
        if not any(overlap(h, k) >= min(limit, h[2] - h[1], k[2] - k[1]) and rank(k) < rank(h) for k in kept):
            fails.append(("overlap-dropped-without-better-overlapping-hit", f"{h} kept={kept}"))
    return fails, len(kept) < len(set(hits))


# ---------------------------------------------------------------- detection filters

def check_filters(hits, bound=2):
    """filter_results (equivalence group {A,B}) then filter_result_multiple, all permutations"""
    outs = {}
    for perm in itertools.permutations(hits):
        def run(p=perm):
            hsps = [_HSP(*h) for h in p]
            for hsp in hsps:
                hsp.hit_id = "gene"
                hsp.query_id = next(x[0] for x in p if (x[1], x[2]) == (hsp.hit_start, hsp.hit_end) and float(x[3]) == hsp.bitscore)
            # restore the profile names in query_id as the filters expect (query_id = profile, hit_id = gene)
            for hsp, original in zip(hsps, p):
                hsp.query_id = original[0]
            results = list(hsps)
            by_id = {"gene": list(hsps)}
            results, by_id = cluster_prediction.filter_results(results, by_id, [{"A", "B"}])
            results, by_id = cluster_prediction.filter_result_multiple(results, by_id)
            # both outputs as they come, in their order: the per-gene list and the flat list
            return (tuple((h.query_id, h.hit_start, h.hit_end, int(h.bitscore)) for h in by_id["gene"]),
                    tuple((h.query_id, h.hit_start, h.hit_end, int(h.bitscore)) for h in results))
        try:
            for schedule, _, outcome in explore(run, setorder.SCHED, bound=bound):
                outs.setdefault(outcome, (perm, schedule))
        except Exception as err:  # pylint: disable=broad-except
            return [("filter-raised", f"{type(err).__name__}: {str(err)[:120]}")], False
        finally:
            setorder.SCHED.reset()
    fails = []
    if len(outs) > 1:
        fails.append(("filter-order-dependent", str(list(outs.items())[:2])))
    kept = list(next(iter(outs))[0])
    if sorted(next(iter(outs))[1]) != sorted(kept):
        fails.append(("filter-lists-disagree", str(next(iter(outs)))))
    # reference: the single best-scoring hit of each (transitive) group of hits overlapping by > 20 survives - only when the gene
    # has hits of at least two equivalent profiles - and then the best-scoring hit of each profile; ties may go either way
    uniq = sorted(set(hits))
    valid = set()
    group = {"A", "B"}
    if len({h[0] for h in uniq} & group) >= 2:
        competing = [h for h in uniq if h[0] in group]
        bystanders = [h for h in uniq if h[0] not in group]
        parent = {h: h for h in competing}

        def find(x):
            while parent[x] != x:
                x = parent[x]
            return x
        for a, b in itertools.combinations(competing, 2):
            if overlap(a, b) > 20:
                parent[find(a)] = find(b)
        comps = {}
        for h in competing:
            comps.setdefault(find(h), []).append(h)
        options = [[h for h in comp if h[3] == max(x[3] for x in comp)] for comp in comps.values()]
        survivors_sets = [set(choice) | set(bystanders) for choice in itertools.product(*options)]
    else:
        survivors_sets = [set(uniq)]
    for survivors in survivors_sets:
        per_profile = {}
        for h in survivors:
            per_profile.setdefault(h[0], []).append(h)
        opts = [[h for h in group if h[3] == max(x[3] for x in group)] for group in per_profile.values()]
        for choice in itertools.product(*opts):
            valid.add(tuple(sorted(choice)))
    if tuple(sorted(kept)) not in valid:
        fails.append(("filter-wrong-survivors", f"kept={kept} valid={sorted(valid)[:4]}"))
    return fails, len(kept) < len(set(hits))


def shards(tier):
    out = []
    plans = [(3, False), (3, True)]
    if tier == "thorough":
        plans += [(4, False), (4, True), (5, False), (5, True), (6, False), (6, True)]
    for size, mode in plans:
        for chunk in range(N_CHUNKS):
            out.append(["refine", size, mode, chunk, tier])
    if tier == "quick":
        # four hits of which three are fragments of one profile (a second domain of a profile starts, and something merges into it)
        for mode in (False, True):
            for chunk in range(N_CHUNKS):
                out.append(["refine", "same3plus1", mode, chunk, tier])
    for chunk in range(8):
        out.append(["overlap", chunk])
        out.append(["filter", chunk])
    for chunk in range(N_CHUNKS):
        out.append(["filter-chain", chunk, tier])
    return out


def run_shard(shard):
    res = Result()
    if shard[0] == "refine":
        _, size, mode, chunk, tier = shard
        items = menu(tier, 3 if size == "same3plus1" else size)
        index = 0
        if size == "same3plus1":
            def family():
                for profile in ("A", "B"):
                    same = [h for h in items if h[0] == profile]
                    for trio in itertools.combinations(same, 3):
                        for extra in items:
                            if extra not in trio and (extra[0] != profile or items.index(extra) > items.index(trio[-1])):
                                yield tuple(sorted(trio + (extra,), key=items.index))     # menu order, as in the other plans
            combos = family()
        else:
            combos = (combo for k in (range(1, size + 1) if size < 4 else (size,)) for combo in itertools.combinations(items, k))
        for _once in (0,):
            for combo in combos:
                index += 1
                if index % N_CHUNKS != chunk:
                    continue
                res.evals += 1
                nontrivial = any(a[0] == b[0] or overlap(a, b) > 0 for a, b in itertools.combinations(combo, 2))
                res.nontrivial += nontrivial
                if len({h[1] for h in combo}) < len(combo):
                    res.buckets["refine:equal-start-tie"] += 1
                fails = check_refine(list(combo), mode, res.buckets)
                res.outcomes[(mode, tuple(sorted({c for c, _ in fails})))] += 1
                if fails or res.evals % 503 == 1:
                    case = {"kind": "refine", "hits": [list(h) for h in combo], "mode": mode}
                    for clause, detail in fails:
                        res.fail(case, clause, detail)
                    res.sample(case)
    elif shard[0] == "filter-chain":
        # chains of 4-5 hits of two equivalent profiles in which only consecutive hits overlap by more than 20 positions: the
        # overlap group is their transitive closure however the hits are listed
        _, chunk, tier = shard
        spans = [(0, 50), (25, 75), (50, 100), (75, 125), (100, 150)]
        index = 0
        for length in (4, 5):
            for profiles in itertools.product("AB", repeat=length):
                if len(set(profiles)) < 2:
                    continue
                for scores in itertools.product((1, 2), repeat=length):
                    index += 1
                    if index % N_CHUNKS != chunk:
                        continue
                    hits = [(profiles[i], spans[i][0], spans[i][1], scores[i]) for i in range(length)]
                    res.evals += 1
                    res.nontrivial += 1
                    # every listing order of the hits (thorough: also every single deviation of set iteration order)
                    fails, dropped = check_filters(hits, bound=0 if tier == "quick" else 1)
                    res.buckets["filter:chains"] += 1
                    res.outcomes[("filter-chain", length, tuple(sorted({c for c, _ in fails})))] += 1
                    if fails or res.evals % 503 == 1:
                        case = {"kind": "filter", "hits": [list(h) for h in hits]}
                        for clause, detail in fails:
                            res.fail(case, clause, detail)
                        res.sample(case)
    else:
        kind, chunk = shard
        items = [h for h in menu("quick", 3) if h[0] != "regulatorR"]
        if kind == "overlap":
            # hits shorter than the overlap limit (also as the first hit of a protein, also sharing a start with a long hit)
            items = items + [("A", 10, 15, 1), ("B", 60, 65, 2), ("A", 0, 5, 2), ("B", 0, 8, 1)]
        else:
            # a profile outside the equivalence group {A, B}: it takes no part in their competition
            items = items + [("X", 10, 50, 1), ("X", 25, 60, 3), ("X", 0, 60, 2)]
        index = 0
        for k in (1, 2, 3):
            for combo in itertools.combinations(items, k):
                index += 1
                if index % 8 != chunk:
                    continue
                res.evals += 1
                res.nontrivial += k > 1
                if kind == "overlap":
                    fails, dropped = check_remove_overlapping(list(combo))
                    res.buckets["overlap:dropped"] += dropped
                else:
                    fails, dropped = check_filters(list(combo))
                    res.buckets["filter:dropped"] += dropped
                res.outcomes[(kind, tuple(sorted({c for c, _ in fails})))] += 1
                if fails or res.evals % 503 == 1:
                    case = {"kind": kind, "hits": [list(h) for h in combo]}
                    for clause, detail in fails:
                        res.fail(case, clause, detail)
                    res.sample(case)
    return res


def finalize(cov, tier):
    cov["schedules"] = cov["buckets"].get("refine:schedules", 0)
    cov["explanation"] = "schedules = iteration orders of the hit set explored through the set-order hook; all executed on the real functions"


def replay(case):
    hits = [tuple(h) for h in case["hits"]]
    if case["kind"] == "refine":
        return check_refine(hits, case["mode"])
    if case["kind"] == "overlap":
        return check_remove_overlapping(hits)[0]
    return check_filters(hits)[0]
