"""C02 Rule text is parsed by the documented grammar, precedence and aliases.

Rule texts are generated as token lists from condition ASTs known by construction; the real Parser's result is
read back structurally (classes/negation/operands) and compared modulo a semantics-preserving normal form with the
AST (fallback: truth-table comparison through the real evaluator). Layout deviations, token-substring aliases,
multi-rule files with SUPERIORS split over texts, the shipped rule files, regeneration and all single-token
corruptions (judged by an independent reference recogniser, mc.ref.grammar) are enumerated exhaustively.
"""
import glob
import fractions
import itertools
import os
import signal

from antismash.common.hmm_rule_parser import rule_parser
from antismash.common.hmm_rule_parser.rule_parser import (
    AndCondition, CDSCondition, Conditions, MinimumCondition, Parser, ScoreCondition, SingleCondition,
)
from antismash.common.hmm_rule_parser.structures import Multipliers, ProfileHit

from mc.engine.core import Result
from mc.ref import grammar as G
from mc.universe import rules as U
from mc.universe import worlds as W

ID = "C02"
LEVEL = "exploration"
RULE = ("cases = rule texts built as token lists: (i) every condition tree <= N leaves in 3 parenthesisation styles x distance/multiplier menu; "
        "(ii) every alternative separator at every token gap; (iii) every contiguous token substring of the conditions factored out as a DEFINE alias "
        "(same text and earlier text); (iv) 3-rule files with every SUPERIORS pattern split at every rule boundary; (v) every shipped rule; "
        "(vi) every single-token deletion/duplication/swap/replacement-by-class of (i) and (iv); non-trivial = more than one leaf or a corruption; "
        "distinct by construction")
ASSUMPTIONS = [
    "the parsed Conditions objects are read back through their public attributes; their evaluation semantics is C01's subject",
    "any exception counts as 'rejected with an error'",
    "constructs on which the documented grammar is silent (minscore inside cds) are not judged",
    "regeneration is demanded only for distances that are whole kilobases after the multipliers",
]
BOUNDS = {
    "quick": "trees <= 3 leaves (styles), <= 2 leaves (layout, aliases, corruptions); 8 SUPERIORS patterns x 3 splits; shipped strict/relaxed/loose",
    "thorough": "trees <= 3 leaves for styles, layout(1 deviation), aliases and corruptions; two simultaneous layout deviations for <= 2 leaves",
}
REQUIRED_BUCKETS = {t: ["styles:parsed", "layout:parsed", "alias:changes-structure", "alias:parsed", "files:parsed", "files:split-with-multipliers", "shipped:rules",
                        "corrupt:both-reject", "corrupt:both-accept", "regen:checked"] for t in ("quick", "thorough")}
PROFILES = {"a", "b", "c", "d"}
CATEGORIES = {"cat", "other"}
N_CHUNKS = 16
SEPARATORS = ["  ", "\t", "\n", " # comment\n", " # see http://x/y:z and more\n", "\n\n  "]
DIST_MENU = [(5, 20, 1.0, 1.0), (1, 1, 1.0, 1.0), (20, 5, 0.5, 1.5), (3, 7, 1.5, 0.5), (10, 10, 2.0, 3.0),
             # products that are whole numbers of bases but not exactly representable in binary floating point
             (11, 3, 0.7, 2.3), (10, 20, 1.13, 1.13)]


# ---------------------------------------------------------------- helpers

def obj_to_ast(cond):
    """structural read-back of real Conditions objects into the AST format"""
    if isinstance(cond, SingleCondition):
        return ["id", bool(cond.negated), cond.name]
    if isinstance(cond, MinimumCondition):
        return ["min", bool(cond.negated), cond.count, sorted(cond.options)]
    if isinstance(cond, ScoreCondition):
        return ["score", bool(cond.negated), cond.name, cond.score]
    if isinstance(cond, AndCondition):
        assert all(op == rule_parser.TokenTypes.AND for op in cond.operators)
        return ["and", [obj_to_ast(o) for o in cond.operands]]
    if isinstance(cond, CDSCondition):
        assert all(op == rule_parser.TokenTypes.OR for op in cond.operators)
        ops = [obj_to_ast(o) for o in cond.operands]
        return ["cds", bool(cond.negated), ["or", False, ops] if len(ops) > 1 else ops[0]]
    if isinstance(cond, Conditions):
        assert all(op == rule_parser.TokenTypes.OR for op in cond.operators)
        return ["or", bool(cond.negated), [obj_to_ast(o) for o in cond.operands]]
    raise TypeError(type(cond))


_WORLD = {"L": 60, "circ": False, "genes": [["g", "+20:23"], ["h1", "+25:28"], ["h2", "+50:53"]]}
_BUILT = None


def same_meaning(cond_obj, ast):
    """truth-table comparison through the real evaluator: parsed object vs object built directly from the AST"""
    global _BUILT
    if _BUILT is None:
        _BUILT = W.build_world(_WORLD)
    _, feats = _BUILT
    direct = rule_parser.DetectionRule("x", "cat", 6, 0, U.top(ast))
    parsed = rule_parser.DetectionRule("y", "cat", 6, 0, cond_obj)
    for combo in itertools.product(W.HIT_MENU_FULL, W.HIT_MENU_FULL, W.HIT_MENU_SMALL[:2]):
        hits = dict(zip(("g", "h1", "h2"), combo))
        objs = {g: [ProfileHit(g, p, s, 0.1) for p, s in sorted(hs.items())] for g, hs in hits.items() if hs}
        for focus in objs:
            one = direct.detect(focus, feats, objs)
            two = parsed.detect(focus, feats, objs)
            if bool(one.met) != bool(two.met) or (one.met and set(one.matches) != set(two.matches)):
                return False
    return True


def conditions_agree(cond_obj, ast):
    try:
        got = G.normalise(obj_to_ast(cond_obj))
    except (AssertionError, TypeError) as err:
        return False, f"unreadable parse result: {err!r}"
    want = G.normalise(ast)
    if got == want:
        return True, ""
    if G.identifiers(want) <= {"a", "b", "c"} and same_meaning(cond_obj, ast):
        return True, ""
    return False, f"parsed={got} expected={want}"


def join(tokens, seps=None):
    """token list -> text; seps[i] is the separator before token i (default single space)"""
    out = []
    for i, tok in enumerate(tokens):
        if i:
            out.append(seps.get(i, " ") if seps else " ")
        out.append(tok)
    return "".join(out)


def rule_tokens(name, cond_text, cutoff=5, neigh=20, superiors=None, extenders=None, description=None):
    toks = ["RULE", name, "CATEGORY", "cat"]
    if description:
        toks += ["DESCRIPTION"] + description
    if superiors:
        toks.append("SUPERIORS")
        for i, sup in enumerate(superiors):
            if i:
                toks.append(",")
            toks.append(sup)
    toks += ["CUTOFF", str(cutoff), "NEIGHBOURHOOD", str(neigh), "CONDITIONS"]
    toks += G.tokenise(cond_text)
    if extenders:
        toks += ["EXTENDERS"] + G.tokenise(extenders)
    return toks


def real_parse(text, existing_rules=None, existing_aliases=None, multipliers=None):
    return Parser(text, set(PROFILES), set(CATEGORIES), existing_rules=existing_rules,
                  existing_aliases=existing_aliases, multipliers=multipliers)


def compare_rule(real, ref, mult=(1.0, 1.0)):
    """real DetectionRule vs RefRule -> list of (clause, detail)"""
    fails = []
    if real.name != ref.name:
        fails.append(("name", f"{real.name} vs {ref.name}"))
    if real.category != ref.category:
        fails.append(("category", f"{real.category} vs {ref.category}"))
    # kilobases times the multiplier as written (0.7 is seven tenths, not the nearest binary fraction): a whole number of bases
    # must come out exactly, anything else may be rounded either way
    exact_cutoff = ref.cutoff_kb * 1000 * fractions.Fraction(str(mult[0]))
    exact_neighbourhood = ref.neighbourhood_kb * 1000 * fractions.Fraction(str(mult[1]))
    if abs(real.cutoff - exact_cutoff) >= 1:
        fails.append(("cutoff", f"{real.cutoff} vs {ref.cutoff_kb}kb x {mult[0]}"))
    if abs(real.neighbourhood - exact_neighbourhood) >= 1:
        fails.append(("neighbourhood", f"{real.neighbourhood} vs {ref.neighbourhood_kb}kb x {mult[1]}"))
    if sorted(real.superiors or []) != sorted(ref.superiors):
        fails.append(("superiors", f"{real.superiors} vs {ref.superiors}"))
    ok, why = conditions_agree(real.conditions, ref.conditions)
    if not ok:
        fails.append(("conditions", why))
    if (real.extenders is None) != (ref.extenders is None):
        fails.append(("extenders", f"{real.extenders} vs {ref.extenders}"))
    elif ref.extenders is not None:
        ok, why = conditions_agree(real.extenders, ref.extenders)
        if not ok:
            fails.append(("extenders", why))
    return fails


def judge_texts(texts, mult=(1.0, 1.0), expect_wellformed=None):
    """texts: list of token lists or strings parsed in sequence (as create_rules does with several files).
    -> (fails, outcome) ; outcome in both-accept / both-reject / unjudged"""
    multipliers = Multipliers(cutoff=mult[0], neighbourhood=mult[1])
    # reference
    ref_rules, ref_err, unjudged = [], None, None
    aliases = {}
    try:
        for text in texts:
            toks = G.tokenise(text) if isinstance(text, str) else list(text)
            new, aliases = G.parse_file(toks, PROFILES, CATEGORIES, ref_rules, aliases)
            ref_rules = ref_rules + new
    except G.IllFormed as err:
        ref_err = str(err)
    except G.Unjudged as err:
        unjudged = str(err)
    # real
    real_rules, real_aliases, real_err = [], {}, None
    try:
        for text in texts:
            raw = text if isinstance(text, str) else join(text)
            parser = real_parse(raw, existing_rules=real_rules, existing_aliases=real_aliases, multipliers=multipliers)
            real_rules = parser.rules
            real_aliases = dict(parser.aliases)
    except Exception as err:  # pylint: disable=broad-except
        real_err = f"{type(err).__name__}: {str(err)[:120]}"
    if unjudged:
        return [], "unjudged"
    if ref_err and real_err:
        return [], "both-reject"
    if ref_err and not real_err:
        return [("accepted-ill-formed", f"reference: {ref_err}; parser produced {[str(r) for r in real_rules]}")], "mismatch"
    if real_err and not ref_err:
        return [("rejected-well-formed", real_err)], "mismatch"
    fails = []
    if len(real_rules) != len(ref_rules):
        return [("rule-count", f"{len(real_rules)} vs {len(ref_rules)}")], "mismatch"
    for real, ref in zip(real_rules, ref_rules):
        fails.extend(compare_rule(real, ref, mult))
    return fails, "both-accept"


def check_regeneration(rule, mult=(1.0, 1.0)):
    """the regenerated text parses back to the same name, distances and condition meaning"""
    if rule.cutoff % 1000 or rule.neighbourhood % 1000:
        return None
    text = rule.reconstruct_rule_text()
    try:
        again = Parser(text, set(PROFILES) | G.identifiers(obj_to_ast(rule.conditions)), {rule.category}).rules[0]
    except Exception as err:  # pylint: disable=broad-except
        return [("regen-rejected", f"{text!r}: {err!r}"[:300])]
    fails = []
    if (again.name, again.cutoff, again.neighbourhood) != (rule.name, rule.cutoff, rule.neighbourhood):
        fails.append(("regen-header", f"{text!r}"))
    ok, why = conditions_agree(again.conditions, obj_to_ast(rule.conditions))
    if not ok:
        fails.append(("regen-conditions", why))
    return fails


# ---------------------------------------------------------------- case generators

def styles_of(tree):
    minimal = U.render(tree, "minimal")
    return {"minimal": minimal, "full": U.render(tree, "full"), "redundant": f"({minimal})"}


CORRUPT_CLASSES = ["a", "zz", "RULE", "CATEGORY", "CUTOFF", "NEIGHBOURHOOD", "CONDITIONS", "SUPERIORS", "EXTENDERS",
                   "DEFINE", "AS", "DESCRIPTION", "(", ")", "[", "]", ",", "3", "and", "or", "not", "cds", "minimum", "minscore"]


def corruptions(tokens):
    """every single-token corruption: (kind, index, replacement) -> new token list"""
    n = len(tokens)
    for i in range(n):
        yield ("delete", i, None), tokens[:i] + tokens[i + 1:]
        yield ("duplicate", i, None), tokens[:i + 1] + tokens[i:]
        if i + 1 < n and tokens[i] != tokens[i + 1]:
            yield ("swap", i, None), tokens[:i] + [tokens[i + 1], tokens[i]] + tokens[i + 2:]
        for rep in CORRUPT_CLASSES:
            if rep != tokens[i]:
                yield ("replace", i, rep), tokens[:i] + [rep] + tokens[i + 1:]


def file_patterns():
    """3 rules r1 r2 r3 with every SUPERIORS pattern; returns list of token-list triples"""
    conds = ["a", "b and not a", "cds(a and c) or b"]
    for s2 in ([], ["r1"]):
        for s3 in ([], ["r1"], ["r2"], ["r2", "r1"]):
            yield [rule_tokens("r1", conds[0], 5, 5),
                   rule_tokens("r2", conds[1], 10, 5, superiors=s2),
                   rule_tokens("r3", conds[2], 20, 1, superiors=s3, extenders="cds(a and b)")]


def superior_patterns():
    """5 rules t1 t2 m1 m2 low with every SUPERIORS fork: m1, m2 each under any subset of {t1, t2}; low under every ordered
    list of distinct earlier rules (<= 3 of them) - the transitive closure has to collect what *every* listed superior contributes"""
    tops = [[], ["t1"], ["t2"], ["t1", "t2"]]
    earlier = ["m1", "m2", "t1", "t2"]
    lows = [list(p) for size in range(0, 4) for p in itertools.permutations(earlier, size)]
    for s1 in tops:
        for s2 in tops:
            for slow in lows:
                yield [rule_tokens("t1", "a", 5, 5), rule_tokens("t2", "b", 5, 5),
                       rule_tokens("m1", "a and b", 10, 5, superiors=s1), rule_tokens("m2", "a or c", 10, 5, superiors=s2),
                       rule_tokens("low", "c", 20, 1, superiors=slow)]


def shards(tier):
    out = []
    for chunk in range(N_CHUNKS):
        out.append(["superiors", chunk])
        out.append(["styles", 3, chunk])
        out.append(["layout", 2 if tier == "quick" else 3, 1, chunk])
        out.append(["alias", 2 if tier == "quick" else 3, chunk])
        out.append(["corrupt", 2 if tier == "quick" else 3, chunk])
    if tier == "thorough":
        for chunk in range(N_CHUNKS):
            out.append(["layout", 2, 2, chunk])
    out.append(["files"])
    out.append(["shipped"])
    return out


def run_shard(shard):
    res = Result()
    kind = shard[0]
    if kind == "styles":
        _, leaves, chunk = shard
        for ti, tree in enumerate(U.trees(leaves)):
            if ti % N_CHUNKS != chunk:
                continue
            for style, text in styles_of(tree).items():
                for cutoff, neigh, mc, mn in (DIST_MENU if ti % 7 == 0 else DIST_MENU[:1]):
                    res.evals += 1
                    res.nontrivial += U.leaves(tree) > 1
                    case = {"kind": "styles", "tree": tree, "style": style, "dist": [cutoff, neigh, mc, mn]}
                    fails = check_styles(tree, style, cutoff, neigh, mc, mn, res)
                    for clause, detail in fails:
                        res.fail(case, clause, detail)
                    res.outcomes[("styles", style, not fails)] += 1
                    if res.evals % 5003 == 1:
                        res.sample(case)
    elif kind == "layout":
        _, leaves, ndev, chunk = shard
        for ti, tree in enumerate(U.trees(leaves)):
            if ti % N_CHUNKS != chunk:
                continue
            toks = rule_tokens("r1", U.render(tree), description=["some", "text", "http://x/y:z", "e.g."])
            base = judge_texts([toks])
            for gaps in itertools.combinations(range(1, len(toks)), ndev):
                for seps in itertools.product(range(len(SEPARATORS)), repeat=ndev):
                    res.evals += 1
                    res.nontrivial += 1
                    case = {"kind": "layout", "tree": tree, "gaps": list(gaps), "seps": list(seps)}
                    fails = check_layout(toks, gaps, seps)
                    if not fails:
                        res.buckets["layout:parsed"] += 1
                    for clause, detail in fails:
                        res.fail(case, clause, detail)
                    res.outcomes[("layout", not fails)] += 1
                    if res.evals % 20011 == 1:
                        res.sample(case)
            assert base[1] == "both-accept", (tree, base)
    elif kind == "alias":
        _, leaves, chunk = shard
        for ti, tree in enumerate(U.trees(leaves)):
            if ti % N_CHUNKS != chunk:
                continue
            cond = G.tokenise(U.render(tree))
            for i in range(len(cond)):
                for j in range(i + 1, len(cond) + 1):
                    for where in ("same", "earlier"):
                        res.evals += 1
                        res.nontrivial += 1
                        case = {"kind": "alias", "tree": tree, "i": i, "j": j, "where": where}
                        fails, outcome, changed = check_alias(cond, i, j, where)
                        if outcome == "both-accept" and not fails:
                            res.buckets["alias:parsed"] += 1
                            if changed:
                                res.buckets["alias:changes-structure"] += 1
                        for clause, detail in fails:
                            res.fail(case, clause, detail)
                        res.outcomes[("alias", outcome, not fails)] += 1
                        if res.evals % 5003 == 1:
                            res.sample(case)
    elif kind == "corrupt":
        _, leaves, chunk = shard
        bases = [("tree", tree, [rule_tokens("r1", U.render(tree), extenders="a" if ti % 5 == 0 else None)], "a" if ti % 5 == 0 else None)
                 for ti, tree in enumerate(U.trees(leaves))]
        bases += [("file", pi, pattern, None) for pi, pattern in enumerate(file_patterns())]
        for bi, (origin, ident, texts, ext) in enumerate(bases):
            if bi % N_CHUNKS != chunk:
                continue
            for which, toks in enumerate(texts):
                for (ckind, idx, rep), mutated in corruptions(toks):
                    res.evals += 1
                    res.nontrivial += 1
                    new_texts = texts[:which] + [mutated] + texts[which + 1:]
                    if origin == "file":
                        new_texts = [sum(new_texts, [])]
                    fails, outcome = judge_texts(new_texts)
                    res.buckets[f"corrupt:{outcome}"] += 1
                    res.outcomes[("corrupt", ckind, outcome, not fails)] += 1
                    if fails or res.evals % 20011 == 1:
                        case = {"kind": "corrupt", "origin": origin, "id": ident, "text": which, "op": ckind, "index": idx, "rep": rep, "ext": ext}
                        for clause, detail in fails:
                            res.fail(case, clause, detail)
                        res.sample(case)
    elif kind == "files":
        for pi, pattern in enumerate(file_patterns()):
            for split in ([3], [1, 2], [2, 1], [1, 1, 1]):
                # rules read from earlier files are handed to the next parser as existing rules: their distances must
                # come out scaled exactly once whatever the split
                for mult in FILE_MULTIPLIERS:
                    res.evals += 1
                    res.nontrivial += 1
                    case = {"kind": "files", "pattern": pi, "split": split}
                    if mult != (1.0, 1.0):
                        case["mult"] = list(mult)
                    fails = check_files(pattern, split, res, mult)
                    for clause, detail in fails:
                        res.fail(case, clause, detail)
                    res.outcomes[("files", not fails)] += 1
                    res.sample(case, 1)
    elif kind == "superiors":
        for pi, pattern in enumerate(superior_patterns()):
            if pi % N_CHUNKS != shard[1]:
                continue
            for split in ([5], [2, 3], [4, 1], [2, 2, 1]):
                res.evals += 1
                res.nontrivial += 1
                case = {"kind": "superiors", "pattern": pi, "split": split}
                fails = check_files(pattern, split, res)
                for clause, detail in fails:
                    res.fail(case, clause, detail)
                res.outcomes[("superiors", not fails)] += 1
                if pi % 211 == 0:
                    res.sample(case, 1)
    elif kind == "shipped":
        for fails, case in check_shipped(res):
            for clause, detail in fails:
                res.fail(case, clause, detail)
    else:
        raise ValueError(kind)
    return res


def check_styles(tree, style, cutoff, neigh, mc, mn, res=None):
    text = styles_of(tree)[style]
    toks = rule_tokens("r1", text, cutoff, neigh)
    fails, outcome = judge_texts([toks], (mc, mn))
    if outcome != "both-accept":
        return fails or [("reference-rejects-generated-rule", outcome)]
    # the AST is known by construction: the reference recogniser itself is checked against it
    ref_rules, _ = G.parse_file(toks, PROFILES, CATEGORIES)
    if G.normalise(ref_rules[0].conditions) != G.normalise(tree):
        return [("reference-disagrees-with-construction", f"{G.normalise(ref_rules[0].conditions)} vs {G.normalise(tree)}")]
    if fails:
        return fails
    if res is not None:
        res.buckets["styles:parsed"] += 1
    rule = real_parse(join(toks), multipliers=Multipliers(cutoff=mc, neighbourhood=mn)).rules[0]
    regen = check_regeneration(rule)
    if regen is not None:
        if res is not None:
            res.buckets["regen:checked"] += 1
        fails = regen
    return fails


def check_layout(toks, gaps, seps):
    sepmap = {g: SEPARATORS[s] for g, s in zip(gaps, seps)}
    text = join(toks, sepmap)
    return judge_texts([text])[0] or _same_as_base(text, join(toks))


def _same_as_base(text, base_text):
    one = real_parse(text).rules[0]
    two = real_parse(base_text).rules[0]
    if (one.name, one.cutoff, one.neighbourhood) != (two.name, two.cutoff, two.neighbourhood) or \
            G.normalise(obj_to_ast(one.conditions)) != G.normalise(obj_to_ast(two.conditions)):
        return [("layout-changes-rule", f"{text!r}")]
    return []


def check_alias(cond, i, j, where):
    body = cond[i:j]
    used = cond[:i] + ["al"] + cond[j:]
    define = ["DEFINE", "al", "AS"] + body
    rule = rule_tokens("r1", "a")[:-1] + used
    direct = rule_tokens("r1", "a")[:-1] + cond
    texts = [define + rule] if where == "same" else [define, rule]
    fails, outcome = judge_texts(texts)
    # textual substitution: must be identical to the rule with the text pasted in
    fails2, outcome2 = judge_texts([direct])
    changed = False
    if outcome == "both-accept" and not fails:
        real_alias = _parse_seq(texts)[-1]
        real_direct = _parse_seq([direct])[-1]
        if G.normalise(obj_to_ast(real_alias.conditions)) != G.normalise(obj_to_ast(real_direct.conditions)):
            fails.append(("alias-not-textual-substitution", f"{join(texts[-1])}"))
        changed = j - i > 1
        # ill-formed input must not slip in through an alias: an unknown profile inside the body of an alias that a rule uses
        for k, token in enumerate(body):
            if token in PROFILES:
                bad_define = ["DEFINE", "al", "AS"] + body[:k] + ["zz"] + body[k + 1:]
                bad_texts = [bad_define + rule] if where == "same" else [bad_define, rule]
                bad_fails, _ = judge_texts(bad_texts)
                fails.extend((f"alias-body:{clause}", detail) for clause, detail in bad_fails)
    # an alias whose own name appears in its body (one token of a well-formed file replaced by another identifier of the file): there
    # is nothing to substitute it by, so it has to be refused like any unknown profile - and within a time limit, a substitution that
    # feeds itself never ends
    if outcome == "both-accept" and where == "same":
        for k, token in enumerate(body):
            if token in PROFILES:
                looping = ["DEFINE", "al", "AS"] + body[:k] + ["al"] + body[k + 1:]
                try:
                    with time_limit(3):
                        _parse_seq([looping + rule])
                    fails.append(("alias-body:accepted-ill-formed", f"self-referring alias accepted: {join(looping + rule)}"))
                except ParseTimeout:
                    fails.append(("alias-body:parser-does-not-terminate", f"{join(looping + rule)}"))
                except Exception:  # pylint: disable=broad-except
                    pass
    return fails, outcome, changed


class ParseTimeout(BaseException):
    """raised by the interval timer; a BaseException so that no handler in the parser can swallow it"""


class time_limit:  # pylint: disable=invalid-name
    def __init__(self, seconds):
        self.seconds = seconds

    def _fire(self, _signum, _frame):
        raise ParseTimeout()

    # (processor time of this process, not wall time: a parser that loops burns it, a loaded machine does not)
    def __enter__(self):
        self.previous = signal.signal(signal.SIGVTALRM, self._fire)
        signal.setitimer(signal.ITIMER_VIRTUAL, self.seconds)

    def __exit__(self, *_exc):
        signal.setitimer(signal.ITIMER_VIRTUAL, 0)
        signal.signal(signal.SIGVTALRM, self.previous)
        return False


def _parse_seq(texts):
    rules, aliases = [], {}
    for text in texts:
        parser = real_parse(join(text), existing_rules=rules, existing_aliases=aliases)
        rules, aliases = parser.rules, dict(parser.aliases)
    return rules


def check_create_rules(texts, mult):
    """the same texts as real files through cluster_prediction.create_rules (the pipeline's entry point for several rule files)"""
    import shutil  # pylint: disable=import-outside-toplevel
    import tempfile  # pylint: disable=import-outside-toplevel
    from antismash.common.hmm_rule_parser import cluster_prediction  # pylint: disable=import-outside-toplevel
    ref_rules, aliases = [], {}
    for text in texts:
        new, aliases = G.parse_file(list(text), PROFILES, CATEGORIES, ref_rules, aliases)
        ref_rules = ref_rules + new
    tmp = tempfile.mkdtemp(prefix="c02files")
    try:
        paths = []
        for i, text in enumerate(texts):
            paths.append(os.path.join(tmp, f"rules{i}.txt"))
            with open(paths[-1], "w", encoding="utf-8") as handle:
                handle.write(join(text))
        try:
            rules = cluster_prediction.create_rules(paths, set(PROFILES), set(CATEGORIES),
                                                    Multipliers(cutoff=mult[0], neighbourhood=mult[1]))
        except Exception as err:  # pylint: disable=broad-except
            return [("create-rules-raised", f"{type(err).__name__}: {str(err)[:120]}")]
    finally:
        shutil.rmtree(tmp, ignore_errors=True)
    if len(rules) != len(ref_rules):
        return [("create-rules-rule-count", f"{len(rules)} vs {len(ref_rules)}")]
    fails = []
    for real, ref in zip(rules, ref_rules):
        fails.extend((f"create-rules:{clause}", detail) for clause, detail in compare_rule(real, ref, mult))
    return fails


FILE_MULTIPLIERS = [(1.0, 1.0), (0.5, 1.5), (1.5, 0.5), (2.0, 2.0)]


def check_files(pattern, split, res=None, mult=(1.0, 1.0)):
    texts = []
    pos = 0
    for size in split:
        texts.append(sum(pattern[pos:pos + size], []))
        pos += size
    fails, outcome = judge_texts(texts, mult)
    if outcome != "both-accept":
        return fails or [("reference-rejects-generated-file", outcome)]
    fails = fails + check_create_rules(texts, mult)
    if not fails and res is not None:
        res.buckets["files:parsed"] += 1
        if len(split) > 1 and mult != (1.0, 1.0):
            res.buckets["files:split-with-multipliers"] += 1
    return fails


def check_shipped(res):
    """every rule of the shipped rule files, parsed cumulatively as hmm_detection does"""
    directory = os.path.join(os.path.dirname(rule_parser.__file__), "..", "..", "detection", "hmm_detection", "cluster_rules")
    from antismash.common.hmm_rule_parser.categories import parse_category_file  # pylint: disable=import-outside-toplevel
    cat_file = os.path.join(directory, "..", "data", "categories.json")
    categories = {c.name for c in parse_category_file(cat_file)} if os.path.exists(cat_file) else None
    files = [os.path.join(directory, name) for name in ("strict.txt", "relaxed.txt", "loose.txt")]
    profiles = set()
    all_tokens = []
    for path in files:
        with open(path, encoding="utf-8") as handle:
            toks = G.tokenise(handle.read())
        all_tokens.append(toks)
    # identifiers used in CONDITIONS/EXTENDERS sections are taken as the known profile names
    cats = set()
    for toks in all_tokens:
        section = None
        for i, tok in enumerate(toks):
            if tok in G.KEYWORDS:
                section = tok
                if tok == "CATEGORY":
                    cats.add(toks[i + 1])
                continue
            if section in ("CONDITIONS", "EXTENDERS", "AS") and G.is_identifier(tok):
                profiles.add(tok)
    alias_names = {toks[i + 1] for toks in all_tokens for i, tok in enumerate(toks) if tok == "DEFINE"}
    profiles -= alias_names
    categories = categories or cats
    ref_rules, aliases = [], {}
    real_rules, real_aliases = [], {}
    out = []
    for path, toks in zip(files, all_tokens):
        new, aliases = G.parse_file(toks, profiles, categories, ref_rules, aliases)
        ref_rules = ref_rules + new
        with open(path, encoding="utf-8") as handle:
            parser = Parser(handle.read(), set(profiles), set(categories), existing_rules=real_rules, existing_aliases=real_aliases)
        real_rules, real_aliases = parser.rules, dict(parser.aliases)
    res.evals += len(ref_rules)
    res.nontrivial += len(ref_rules)
    if len(real_rules) != len(ref_rules):
        out.append(([("shipped-rule-count", f"{len(real_rules)} vs {len(ref_rules)}")], {"kind": "shipped", "rule": "*"}))
        return out
    for real, ref in zip(real_rules, ref_rules):
        res.buckets["shipped:rules"] += 1
        fails = compare_rule(real, ref)
        regen = check_regeneration(real)
        if regen:
            fails.extend(regen)
        res.outcomes[("shipped", not fails)] += 1
        if fails:
            out.append((fails, {"kind": "shipped", "rule": ref.name}))
    # the same files through the documented constructor of rule sets, with and without multipliers, and through the copy that
    # hmm_detection makes to apply the fungal multipliers
    from antismash.common.hmm_rule_parser.cluster_prediction import Ruleset  # pylint: disable=import-outside-toplevel
    from antismash.detection import hmm_detection as hd  # pylint: disable=import-outside-toplevel
    by_name = {ref.name: ref for ref in ref_rules}
    for mult in ((1.0, 1.0), (2.0, 3.0), (0.7, 1.5)):
        for route in ("from_files", "copy"):
            multipliers = Multipliers(cutoff=mult[0], neighbourhood=mult[1])
            if route == "from_files":
                ruleset = Ruleset.from_files(hd.SIGNATURE_FILE, hd.HMM_FILE, files, hd.CATEGORIES, hd.EQUIVALENCE_GROUPS, "tool",
                                             dynamic_profiles=hd.DYNAMIC_PROFILES, multipliers=multipliers)
            else:
                ruleset = Ruleset.from_files(hd.SIGNATURE_FILE, hd.HMM_FILE, files, hd.CATEGORIES, hd.EQUIVALENCE_GROUPS, "tool",
                                             dynamic_profiles=hd.DYNAMIC_PROFILES)
                ruleset = ruleset.copy_with_replacements(rules=list(ruleset.rules), multipliers=multipliers)
            res.buckets["shipped:rulesets"] += 1
            for real in ruleset.rules:
                ref = by_name[real.name]
                res.evals += 1
                res.nontrivial += 1
                fails = [(f"ruleset-{clause}", f"{route} {mult}: {detail}") for clause, detail in compare_rule(real, ref, mult)
                         if clause in ("cutoff", "neighbourhood")]
                if fails:
                    out.append((fails, {"kind": "shipped-ruleset", "rule": ref.name, "route": route, "mult": list(mult)}))
    res.sample({"kind": "shipped", "rule": ref_rules[0].name}, 1)
    return out


def replay(case):
    kind = case["kind"]
    if kind == "styles":
        return check_styles(case["tree"], case["style"], *case["dist"])
    if kind == "layout":
        toks = rule_tokens("r1", U.render(case["tree"]), description=["some", "text", "http://x/y:z", "e.g."])
        return check_layout(toks, case["gaps"], case["seps"])
    if kind == "alias":
        cond = G.tokenise(U.render(case["tree"]))
        return check_alias(cond, case["i"], case["j"], case["where"])[0]
    if kind == "superiors":
        return check_files(list(superior_patterns())[case["pattern"]], case["split"])
    if kind == "files":
        return check_files(list(file_patterns())[case["pattern"]], case["split"], None, tuple(case.get("mult", (1.0, 1.0))))
    if kind in ("shipped", "shipped-ruleset"):
        res = Result()
        return [f for fails, c in check_shipped(res) if c == case for f in fails]
    if kind == "corrupt":
        if case["origin"] == "tree":
            # the id is the tree itself
            texts = [rule_tokens("r1", U.render(case["id"]), extenders=case.get("ext"))]
        else:
            texts = list(file_patterns())[case["id"]]
        toks = texts[case["text"]]
        for (ckind, idx, rep), mutated in corruptions(toks):
            if (ckind, idx, rep) == (case["op"], case["index"], case["rep"]):
                new_texts = texts[:case["text"]] + [mutated] + texts[case["text"] + 1:]
                if case["origin"] == "file":
                    new_texts = [sum(new_texts, [])]
                return judge_texts(new_texts)[0]
        raise ValueError("corruption not found")
    raise ValueError(kind)
