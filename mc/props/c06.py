"""C06 Regions are the disjoint connected components of overlapping areas (+ numbering, no stale links).

Part A (E1): every set of <= 3-4 areas (subregions directly, candidate clusters through real protoclusters) on a slotted
line / ring -> create_regions(); judged against connected components of set-of-bases overlap.
Part B (E2): breadth-first search over add/clear/create call histories on a real Record (state = history, rebuilt
from scratch for every transition, canonical state hash), invariants in every state, differential oracles
(all insertion orders of one multiset reach one state; clear+create returns to the state it left).
C08's membership/link invariants are evaluated in the same states.
"""
import collections
import itertools

from antismash.common.secmet.features import Protocluster, SubRegion
from antismash.common.secmet.locations import CompoundLocation as C, FeatureLocation as F, connect_locations
from antismash.common.secmet.qualifiers import GeneFunction

from mc.engine.core import Result
from mc.ref import bases as R
from mc.universe import protos as P
from mc.universe import worlds as W

ID = "C06"
LEVEL = "model_checking"
RULE = ("part A: cases = (topology, set of <= k areas from a slotted menu of subregions and protoclusters); part B: states = canonical "
        "descriptions of a real Record reached by call histories over a 14-16 operation alphabet (add_cds x3-4, add_protocluster x3, "
        "add_subregion x1-2, create/clear of candidates, regions, protoclusters, subregions) explored breadth-first to the depth bound; "
        "non-trivial = at least two areas / a state with at least one area")
ASSUMPTIONS = [
    "canonical state = sorted tuple of every field readable through the public accessors the property mentions (locations, numbers, "
    "parents, children as sets, region links, products, kinds); object identities and cached tuples are dropped, so merged states have identical futures",
    "enabling conditions are the pipeline's: candidates are only created when none exist, regions only when none exist and an area exists",
    "cds_children is compared as a set (the accessor documents insertion order)",
]
BOUNDS = {
    "quick": "part A: 6 slots, <= 3 areas, on the line, <= 4 areas on the ring; part B: depth 6 on a linear and a circular record",
    "thorough": "part A: 6 slots <= 4 areas (full menu) line and ring, 7 slots <= 4 ring, 8 slots <= 3 line and ring; part B: depth 8",
}
REQUIRED_BUCKETS = {t: ["areas:two-regions", "areas:chained", "areas:meet-across-origin", "areas:whole-record", "bfs:states-with-regions",
                        "bfs:clear-after-create", "bfs:gene-added-after-regions"] for t in ("quick", "thorough")}
N_CHUNKS = 16


# ------------------------------------------------------------------ part A

def area_menu(nslots, circular, reduced=False):
    if reduced == "tight":
        # protoclusters only, cores = gene spans: neighbouring areas are separated by small gaps instead of touching
        return [["P"] + spec + ["t"] for spec in P.protocluster_menu(nslots, circular, max_core=2, products=("p",),
                                                                    neighbourhoods=((0, 0), (1, 1)))]
    subs = []
    for first in range(nslots):
        for width in range(1, 4 if not reduced else 3):
            last = first + width - 1
            if last >= nslots:
                if not circular:
                    continue
                last -= nslots
            subs.append(["S", first, last, "s"])
    if circular and not reduced:
        subs.append(["S", 1, nslots - 1 - 1, "long"])
        subs.append(["S", 2, 0, "almost-all"])
    protos = [["P"] + spec for spec in P.protocluster_menu(nslots, circular, max_core=2, products=("p",), neighbourhoods=((0, 0), (1, 1)))]
    if reduced is True:
        protos = protos[::2]
    elif reduced != "basic":
        # one-sided neighbourhoods: an extent that ends exactly where its core ends (on either side)
        protos += [["P"] + spec for spec in P.protocluster_menu(nslots, circular, max_core=1, products=("p",), neighbourhoods=((1, 0), (0, 1)))]
    return subs + protos


def build_areas(nslots, circular, areas, order=None):
    L = nslots * P.SLOT
    rec, _ = P.make_slotted_record(nslots, circular, P.default_core_functions(nslots))
    objs = []
    for area in areas:
        if area[0] == "S":
            obj = P.make_subregion(L, circular, area[1:])
        else:
            obj = P.make_protocluster(L, circular, area[1:])
        if obj is None:
            return None, None
        objs.append(obj)
    for i in (order or range(len(objs))):
        if isinstance(objs[i], SubRegion):
            rec.add_subregion(objs[i])
        else:
            rec.add_protocluster(objs[i])
    return rec, objs


def check_regions(rec, L, circular, stats=None):
    """create_regions() on a record that has protoclusters/subregions; -> fails"""
    fails = []
    try:
        rec.create_candidate_clusters()
        rec.create_regions()
    except Exception as err:  # pylint: disable=broad-except
        return [("create-regions-raised", f"{type(err).__name__}: {str(err)[:150]}")]
    areas = list(rec.get_candidate_clusters()) + list(rec.get_subregions())
    sets = [R.bases(a.location) for a in areas]
    regions = list(rec.get_regions())
    region_sets = [R.bases(r.location) for r in regions]
    # regions never overlap
    for i in range(len(regions)):
        for j in range(i + 1, len(regions)):
            if region_sets[i] & region_sets[j]:
                fails.append(("regions-overlap", f"{regions[i].location} and {regions[j].location}"))
    # components
    parent = list(range(len(areas)))

    def find(x):
        while parent[x] != x:
            x = parent[x]
        return x
    for i in range(len(areas)):
        for j in range(i + 1, len(areas)):
            if sets[i] & sets[j]:
                parent[find(i)] = find(j)
    comps = collections.defaultdict(set)
    for i in range(len(areas)):
        comps[find(i)].add(i)
    expected = {frozenset(c) for c in comps.values()}
    ident = {id(a): i for i, a in enumerate(areas)}
    got = []
    for region in regions:
        members = frozenset(ident[id(a)] for a in list(region.candidate_clusters) + list(region.subregions))
        got.append(members)
    counts = collections.Counter(i for members in got for i in members)
    if set(counts) != set(range(len(areas))):
        fails.append(("area-in-no-region", f"{[str(areas[i].location) for i in set(range(len(areas))) - set(counts)]}"))
    if any(v > 1 for v in counts.values()):
        fails.append(("area-in-two-regions", f"{[str(areas[i].location) for i, v in counts.items() if v > 1]}"))
    if set(got) != expected and not fails:
        fails.append(("regions-not-components", f"regions={[sorted(str(areas[i].location) for i in m) for m in got]} "
                                                  f"components={[sorted(str(areas[i].location) for i in m) for m in expected]}"))
    wrap = L if circular else None
    for region, members in zip(regions, got):
        why = R.well_formed_span(region.location, L)
        if why:
            fails.append(("region-wellformed", f"{why}: {region.location}"))
            continue
        union = frozenset().union(*[sets[i] for i in members]) if members else frozenset()
        # the union of a connected component of overlapping areas is contiguous, so the span is exactly the union
        if R.bases(region.location) != union:
            fails.append(("region-span", f"{region.location} for areas {[str(areas[i].location) for i in sorted(members)]}"))
    fails.extend(numbering_problems(rec))
    live = set(map(id, rec.get_candidate_clusters()))
    for proto in rec.get_protoclusters():
        if proto.parent is not None and id(proto.parent) not in live:
            fails.append(("stale-parent", f"protocluster {proto.location} ({proto.product}) points to a candidate that is not in the record"))
        elif proto.parent is not None and proto not in proto.parent.protoclusters:
            fails.append(("parent-does-not-hold-child", f"protocluster {proto.location}"))
    if stats is not None and not fails:
        if len(regions) > 1:
            stats["areas:two-regions"] += 1
        if any(len(m) > 2 for m in got):
            stats["areas:chained"] += 1
        if circular and any(0 in s and L - 1 in s for s in region_sets) and len(areas) > 1:
            stats["areas:meet-across-origin"] += 1
        if any(len(s) == L for s in region_sets):
            stats["areas:whole-record"] += 1
    return fails


def check_parents(nslots, circular, specs):
    """protocluster -> candidate parent links after real candidate formation (incl. the de-duplication paths)"""
    from mc.props import c05  # pylint: disable=import-outside-toplevel
    try:
        rec, protos, _ = c05.run_config(nslots, circular, specs, range(len(specs)))
    except Exception as err:  # pylint: disable=broad-except
        return [("formation-raised", repr(err)[:120])]
    fails = []
    live = set(map(id, rec.get_candidate_clusters()))
    for proto in rec.get_protoclusters():
        if proto.parent is None:
            fails.append(("protocluster-without-parent", f"{proto.location} {proto.product}"))
        elif id(proto.parent) not in live:
            fails.append(("stale-parent", f"protocluster {proto.location} ({proto.product}) points to a candidate that is not in the record"))
        elif proto not in proto.parent.protoclusters:
            fails.append(("parent-does-not-hold-child", f"protocluster {proto.location}"))
    return fails


def numbering_problems(rec):
    probs = []
    for label, lst, num, get in (
            ("protocluster", rec.get_protoclusters(), rec.get_protocluster_number, rec.get_protocluster),
            ("candidate", rec.get_candidate_clusters(), rec.get_candidate_cluster_number, rec.get_candidate_cluster),
            ("subregion", rec.get_subregions(), rec.get_subregion_number, rec.get_subregion),
            ("region", rec.get_regions(), rec.get_region_number, rec.get_region)):
        try:
            nums = [num(f) for f in lst]
        except Exception as err:  # pylint: disable=broad-except
            probs.append((f"numbering-raised:{label}", repr(err)[:100]))
            continue
        if nums != list(range(1, len(lst) + 1)):
            probs.append((f"numbering:{label}", f"{nums}"))
            continue
        for f in lst:
            if get(num(f)) is not f:
                probs.append((f"number-identity:{label}", f"{f.location}"))
        for a, b in zip(lst, lst[1:]):
            if b < a and not a < b:
                probs.append((f"order:{label}", f"{a.location} listed before {b.location}"))
    return probs


# ------------------------------------------------------------------ part B

BFS_L = 60


def make_ops(circular):
    ops = {}
    genes = {"g1": F(3, 9, 1), "g2": F(15, 21, -1), "g3": F(40, 46, 1)}
    if circular:
        genes["g4"] = C([F(57, 60, 1), F(0, 3, 1)])

    def gene_op(name, loc):
        def op(rec):
            gene = W.make_cds(loc, name)
            gene.gene_functions.add(GeneFunction.CORE, "t", "d", "p")
            rec.add_cds_feature(gene)
        return op
    for name, loc in genes.items():
        ops["addG:" + name] = gene_op(name, loc)
    ops["addP1"] = lambda rec: rec.add_protocluster(Protocluster(F(3, 21, 1), F(0, 27, 1), "tool", "p", 6, 6, "rule", "cat"))
    ops["addP2"] = lambda rec: rec.add_protocluster(Protocluster(F(15, 21, 1), F(9, 30, 1), "tool", "q", 6, 6, "rule", "cat"))
    if circular:
        ops["addP3"] = lambda rec: rec.add_protocluster(
            Protocluster(F(40, 46, 1), C([F(34, 60, 1), F(0, 4, 1)]), "tool", "p", 6, 18, "rule", "cat"))
        ops["addS2"] = lambda rec: rec.add_subregion(SubRegion(C([F(50, 60, 1), F(0, 12, 1)]), "t", "s2"))
        # a protocluster whose core itself crosses the origin (holding only g4), with genes of the defining type for its product
        # (g1, g2, g3) only in its neighbourhood; it shares no defining gene with P1, so candidate kinds do not depend on when
        # genes are added
        ops["addP4"] = lambda rec: rec.add_protocluster(
            Protocluster(C([F(57, 60, 1), F(0, 3, 1)]), C([F(39, 60, 1), F(0, 27, 1)]), "tool", "p", 6, 18, "rule", "cat"))
    else:
        ops["addP3"] = lambda rec: rec.add_protocluster(Protocluster(F(40, 46, 1), F(34, 52, 1), "tool", "p", 6, 6, "rule", "cat"))
        ops["addS2"] = lambda rec: rec.add_subregion(SubRegion(F(50, 60, 1), "t", "s2"))
    ops["addS1"] = lambda rec: rec.add_subregion(SubRegion(F(25, 36, 1), "t", "s1"))
    ops["createCC"] = lambda rec: rec.create_candidate_clusters()
    ops["createR"] = lambda rec: rec.create_regions()
    ops["clearR"] = lambda rec: rec.clear_regions()
    ops["clearCC"] = lambda rec: rec.clear_candidate_clusters()
    ops["clearP"] = lambda rec: rec.clear_protoclusters()
    ops["clearS"] = lambda rec: rec.clear_subregions()
    return ops


def enabled(rec, hist, name):
    hist = list(hist)
    if name.startswith("addG"):
        return name not in hist
    if name.startswith("addP"):
        if rec.get_candidate_clusters():
            return False    # the pipeline adds protoclusters before forming candidates
        last_clear = max([i for i, h in enumerate(hist) if h == "clearP"], default=-1)
        return name not in hist[last_clear + 1:]
    if name.startswith("addS"):
        if rec.get_regions():
            return False
        last_clear = max([i for i, h in enumerate(hist) if h == "clearS"], default=-1)
        return name not in hist[last_clear + 1:]
    if name == "createCC":
        # the pipeline forms candidates before regions
        return bool(rec.get_protoclusters()) and not rec.get_candidate_clusters() and not rec.get_regions()
    if name == "createR":
        return not rec.get_regions() and bool(rec.get_candidate_clusters() or rec.get_subregions())
    if name == "clearR":
        return bool(rec.get_regions())
    if name == "clearCC":
        return bool(rec.get_candidate_clusters())
    if name == "clearP":
        return bool(rec.get_protoclusters())
    if name == "clearS":
        return bool(rec.get_subregions())
    raise ValueError(name)


def _lk(feature):
    return (feature.type, str(feature.location))


def canon(rec):
    out = []
    for gene in rec.get_cds_features():
        out.append(("cds", gene.get_name(), _lk(gene.region) if gene.region else None))
    for kind, lst, num in (("proto", rec.get_protoclusters(), rec.get_protocluster_number),
                           ("cand", rec.get_candidate_clusters(), rec.get_candidate_cluster_number),
                           ("sub", rec.get_subregions(), rec.get_subregion_number),
                           ("region", rec.get_regions(), rec.get_region_number)):
        for f in lst:
            extra = ()
            if kind == "proto":
                extra = (f.product, tuple(sorted(c.get_name() for c in f.definition_cdses)))
            elif kind == "cand":
                extra = (str(f.kind), tuple(sorted(_lk(p) + (p.product,) for p in f.protoclusters)))
            elif kind == "region":
                extra = (tuple(sorted(_lk(c) for c in f.candidate_clusters)), tuple(sorted(_lk(s) for s in f.subregions)))
            try:
                number = num(f)
            except ValueError:
                number = None
            out.append((kind, _lk(f), number, tuple(sorted(c.get_name() for c in f.cds_children)),
                        _lk(f.parent) if f.parent else None, extra))
    return tuple(out)


def state_invariants(rec):
    """-> list of (clause, detail); C06 clauses and C08 clauses (prefixed c08-)"""
    probs = list(numbering_problems(rec)) + removed_feature_problems(rec)
    collections_ = (list(rec.get_protoclusters()) + list(rec.get_candidate_clusters()) + list(rec.get_subregions())
                    + list(rec.get_regions()))
    live = set(map(id, collections_))
    genes = rec.get_cds_features()
    gene_sets = {g.get_name(): R.part_sets(g.location) for g in genes}

    def contained(gene, location):
        outs = R.part_sets(location)
        return all(any(ip <= op for op in outs) for ip in gene_sets[gene.get_name()])
    for f in collections_:
        if f.parent is not None:
            if id(f.parent) not in live:
                probs.append(("stale-parent", f"{f.type} {f.location} -> removed {f.parent.type} {f.parent.location}"))
            elif not R.contains(f.parent.location, f.location):
                probs.append(("parent-does-not-contain", f"{f.type} {f.location} in {f.parent.location}"))
        want = sorted(g.get_name() for g in genes if contained(g, f.location))
        have = sorted(c.get_name() for c in f.cds_children)
        if have != want:
            probs.append((f"c08-members:{f.type}", f"{f.location}: code={have} ref={want}"))
    # parents that should exist
    for cand in rec.get_candidate_clusters():
        for proto in cand.protoclusters:
            if id(proto) not in live:
                probs.append(("candidate-holds-removed-protocluster", f"{cand.location}"))
    regions = rec.get_regions()
    for region in regions:
        for child in list(region.candidate_clusters) + list(region.subregions):
            if id(child) not in live:
                probs.append(("region-holds-removed-area", f"{region.location} -> {child.location}"))
            elif child.parent is not region:
                probs.append(("area-parent-not-its-region", f"{child.location}"))
    if regions:
        for area in list(rec.get_candidate_clusters()) + list(rec.get_subregions()):
            if not any(area in list(r.candidate_clusters) + list(r.subregions) for r in regions):
                probs.append(("area-outside-regions", f"{area.location}"))
    region_sets = [R.bases(r.location) for r in regions]
    for i in range(len(regions)):
        for j in range(i + 1, len(regions)):
            if region_sets[i] & region_sets[j]:
                probs.append(("regions-overlap", f"{regions[i].location} {regions[j].location}"))
    for gene in genes:
        if gene.region is not None and id(gene.region) not in live:
            probs.append(("c08-stale-cds-region", f"{gene.get_name()}"))
            continue
        holders = [r for r in regions if contained(gene, r.location)]
        if (gene.region is None) != (not holders):
            probs.append(("c08-cds-region-missing" if holders else "c08-cds-region-spurious", f"{gene.get_name()}"))
        elif holders and gene.region is not holders[0]:
            probs.append(("c08-cds-region-wrong", f"{gene.get_name()}"))
    for proto in rec.get_protoclusters():
        want = {g.get_name() for g in genes if contained(g, proto.core_location)
                and any(c.product == proto.product for c in g.gene_functions.get_by_function(GeneFunction.CORE))}
        if {c.get_name() for c in proto.definition_cdses} != want:
            probs.append(("c08-definition-cdses", f"{proto.location}: code={sorted(c.get_name() for c in proto.definition_cdses)} ref={sorted(want)}"))
    return probs


_EVER = {}      # id(record) -> every area/region object the record held at some point of the history that built it


def _areas(rec):
    return (list(rec.get_protoclusters()) + list(rec.get_candidate_clusters()) + list(rec.get_subregions()) + list(rec.get_regions()))


def replay_history(circular, hist):
    ops = make_ops(circular)
    rec = W.make_record(BFS_L, circular)
    ever = {}
    for name in hist:
        ops[name](rec)
        for area in _areas(rec):
            ever[id(area)] = area
    _EVER.clear()           # only the most recently built record is looked at
    _EVER[id(rec)] = (rec, list(ever.values()))
    return rec


def removed_feature_problems(rec):
    """a feature that was removed from the record must not be shown with a number (which now belongs to another feature or none)"""
    probs = []
    entry = _EVER.get(id(rec))
    if not entry or entry[0] is not rec:
        return probs
    live = set(map(id, _areas(rec)))
    getters = {"protocluster": (rec.get_protocluster_number, rec.get_protocluster), "cand_cluster": (rec.get_candidate_cluster_number, rec.get_candidate_cluster),
               "subregion": (rec.get_subregion_number, rec.get_subregion), "region": (rec.get_region_number, rec.get_region)}
    for area in entry[1]:
        if id(area) in live or area.type not in getters:
            continue
        # clearing areas "leaves no stale parent links": not on what was removed either
        parent = getattr(area, "parent", None)
        if parent is not None:
            probs.append((f"removed-feature-keeps-parent:{area.type}", f"{area.location} removed, parent still {parent.type} {parent.location}"))
        number_of, feature_of = getters[area.type]
        try:
            number = number_of(area)
        except (ValueError, KeyError):
            continue
        try:
            holder = feature_of(number)
        except (ValueError, KeyError, IndexError):
            holder = None
        if holder is not area:
            probs.append((f"removed-feature-still-numbered:{area.type}", f"{area.location} removed, still number {number}"
                          + (f", which is {holder.location}" if holder is not None else "")))
    return probs


def bfs(circular, depth, res, which="c06"):
    """explores all histories up to depth; res collects failures; returns (states, transitions)"""
    ops = make_ops(circular)
    start = canon(replay_history(circular, ()))
    seen = {start: ()}
    frontier = collections.deque([()])
    transitions = 0
    by_multiset = collections.defaultdict(dict)
    clauses_seen = set()
    while frontier:
        hist = frontier.popleft()
        if len(hist) >= depth:
            continue
        rec = replay_history(circular, hist)
        for name in ops:
            if not enabled(rec, hist, name):
                continue
            new_hist = hist + (name,)
            try:
                rec2 = replay_history(circular, new_hist)
            except Exception as err:  # pylint: disable=broad-except
                transitions += 1
                clause = f"operation-raised:{name}"
                if (clause, type(err).__name__) not in clauses_seen or True:
                    res.fail({"kind": "history", "circ": circular, "hist": list(new_hist)}, clause,
                             f"{type(err).__name__}: {str(err)[:150]}")
                continue
            transitions += 1
            res.evals += 1
            probs = state_invariants(rec2)
            key = canon(rec2)
            fresh = key not in seen
            if rec2.get_regions():
                res.buckets["bfs:states-with-regions"] += fresh
                if name.startswith("addG"):
                    res.buckets["bfs:gene-added-after-regions"] += 1
            if name.startswith("clear") and any(h.startswith("create") for h in hist):
                res.buckets["bfs:clear-after-create"] += 1
            # differential: clearR + createR returns to the state it left
            if name == "createR" and len(hist) >= 1 and hist[-1] == "clearR":
                before = canon(replay_history(circular, hist[:-1]))
                if key != before:
                    probs.append(("clear-create-not-idempotent", "state after clear_regions+create_regions differs"))
            # differential: insertion orders of one multiset of adds (followed by the same create calls) agree
            adds = tuple(sorted(h for h in new_hist if h.startswith("add")))
            rest = tuple(h for h in new_hist if not h.startswith("add"))
            if all(not h.startswith("clear") for h in new_hist):
                slot = by_multiset[(adds, rest)]
                desc = canon_unordered(rec2)
                if desc not in slot:
                    slot[desc] = new_hist
                    if len(slot) > 1:
                        other = [h for d, h in slot.items() if d != desc][0]
                        probs.append(("build-order-dependence", f"histories {list(other)} and {list(new_hist)} differ"))
            is_c08 = lambda clause: clause.startswith("c08-") or clause == "build-order-dependence"  # noqa: E731
            probs = [p for p in probs if (is_c08(p[0]) if which == "c08" else (not p[0].startswith("c08-")))]
            if probs and (only_new := [p for p in probs if True]):
                case = {"kind": "history", "circ": circular, "hist": list(new_hist)}
                for clause, detail in only_new:
                    # report each clause only for the shortest history of each (clause, last op) pair per topology
                    ident = (clause, name, str(detail)[:80])
                    if ident in clauses_seen:
                        continue
                    clauses_seen.add(ident)
                    res.fail(case, clause, detail)
            if fresh:
                seen[key] = new_hist
                res.nontrivial += bool(rec2.get_protoclusters() or rec2.get_subregions())
                frontier.append(new_hist)
    return len(seen), transitions


def canon_unordered(rec):
    """canonical description for the build-order differential: create_* calls interleaved at the same positions
    relative to each other, adds in any order"""
    return canon(rec)


def check_history(circular, hist, which="c06"):
    probs = _check_history(circular, hist)
    if which == "c08":
        return [p for p in probs if p[0].startswith("c08-") or p[0] == "build-order-dependence"]
    return [p for p in probs if not p[0].startswith("c08-")]


def _check_history(circular, hist):
    try:
        rec = replay_history(circular, tuple(hist))
    except Exception as err:  # pylint: disable=broad-except
        return [(f"operation-raised:{hist[-1]}", f"{type(err).__name__}: {str(err)[:150]}")]
    probs = state_invariants(rec)
    hist = tuple(hist)
    if hist and hist[-1] == "createR" and len(hist) >= 2 and hist[-2] == "clearR":
        if canon(rec) != canon(replay_history(circular, hist[:-2])):
            probs.append(("clear-create-not-idempotent", ""))
    if all(not h.startswith("clear") for h in hist):
        adds = [h for h in hist if h.startswith("add")]
        positions = [i for i, h in enumerate(hist) if h.startswith("add")]
        mine = canon(rec)
        for perm in itertools.permutations(adds):
            other = list(hist)
            for pos, name in zip(positions, perm):
                other[pos] = name
            try:
                rec2 = replay_history(circular, tuple(other))
            except Exception:  # pylint: disable=broad-except
                continue
            # only histories that respect the enabling conditions are comparable
            if canon(rec2) != mine and _valid(circular, other):
                probs.append(("build-order-dependence", f"{other}"))
                break
    return probs


def _valid(circular, hist):
    for i in range(len(hist)):
        rec = replay_history(circular, tuple(hist[:i]))
        if not enabled(rec, hist[:i], hist[i]):
            return False
    return True


# ------------------------------------------------------------------ engine glue

def check_add_regions(nslots, circ, specs):
    """regions handed to the record one by one (as when a record with regions is read from a file), in every order: whatever the order,
    either all are taken and none overlap, or the one that overlaps an earlier one is refused"""
    from antismash.common.secmet.features import Region  # pylint: disable=import-outside-toplevel
    L = nslots * P.SLOT
    fails = []
    outcomes = {}
    for order in itertools.permutations(range(len(specs))):
        rec, _ = P.make_slotted_record(nslots, circ, {}, with_genes=False)
        accepted = []
        refused = False
        for i in order:
            sub = P.make_subregion(L, circ, specs[i][1:])
            if sub is None:
                return None
            try:
                rec.add_region(Region([], [sub]))
                accepted.append(i)
            except ValueError:
                refused = True
                break
            except Exception as err:  # pylint: disable=broad-except
                return [("add-region-raised", f"order {list(order)}: {type(err).__name__}: {str(err)[:100]}")]
        sets = [R.bases(r.location) for r in rec.get_regions()]
        if any(sets[a] & sets[b] for a in range(len(sets)) for b in range(a + 1, len(sets))):
            fails.append(("regions-overlap", f"order {list(order)}: {[str(r.location) for r in rec.get_regions()]}"))
        for clause, detail in numbering_problems(rec):
            fails.append((clause, f"order {list(order)}: {detail}"))
        outcomes[order] = refused
    if len(set(outcomes.values())) > 1:
        fails.append(("overlapping-region-accepted-in-some-orders", f"refused by order: {sorted((list(o), r) for o, r in outcomes.items())}"))
    return fails


def shards(tier):
    out = []
    for circ in (False, True):
        out.append(["add-regions", 6, circ, 3])
    # "reduced" (every second protocluster of the menu, only sets of exactly k) is a quick-tier economy; the thorough tier
    # enumerates every set of <= 4 areas of the full menu (4-area sets are where a sweep can miss an overlap, see DESIGN 0.3)
    plans = [(6, False, 3, False), (6, True, 3, False), (6, True, 4, "basic"), (6, True, 4, "tight")]
    if tier == "thorough":
        plans = [(6, False, 4, False), (6, True, 4, False), (7, True, 4, False), (8, True, 3, False), (8, False, 3, False),
                 (6, True, 4, "tight"), (6, False, 4, "tight"), (7, True, 4, "tight")]
    for nslots, circ, k, reduced in plans:
        for chunk in range(N_CHUNKS * (4 if k == 4 and reduced in (False, "basic") else 1)):
            out.append(["areas", nslots, circ, k, reduced, chunk])
    for circ in (False, True):
        for chunk in range(N_CHUNKS):
            out.append(["parents", circ, chunk, tier])
    depth = 6 if tier == "quick" else 8
    out.append(["bfs", False, depth])
    out.append(["bfs", True, depth])
    return out


def run_shard(shard):
    res = Result()
    if shard[0] == "areas":
        _, nslots, circ, k, reduced, chunk = shard
        L = nslots * P.SLOT
        menu = area_menu(nslots, circ, reduced)
        index = 0
        for size in (range(1, k + 1) if reduced not in (True, "basic") else (k,)):
            for combo in itertools.combinations(menu, size):
                index += 1
                if index % (N_CHUNKS * (4 if k == 4 and reduced in (False, "basic") else 1)) != chunk:
                    continue
                rec, objs = build_areas(nslots, circ, list(combo))
                if rec is None:
                    continue
                res.evals += 1
                res.nontrivial += size > 1
                fails = check_regions(rec, L, circ, res.buckets)
                res.outcomes[("areas", size, tuple(sorted({c for c, _ in fails})))] += 1
                if fails or res.evals % 1009 == 1:
                    case = {"kind": "areas", "nslots": nslots, "circ": circ, "areas": list(combo)}
                    for clause, detail in fails:
                        res.fail(case, clause, detail)
                    res.sample(case)
    elif shard[0] == "add-regions":
        _, nslots, circ, k = shard
        menu = [a for a in area_menu(nslots, circ, False) if a[0] == "S"]
        for size in range(2, k + 1):
            for combo in itertools.combinations(menu, size):
                fails = check_add_regions(nslots, circ, list(combo))
                if fails is None:
                    continue
                res.evals += 1
                res.nontrivial += 1
                res.buckets["add-region:orders"] += 1
                res.outcomes[("add-regions", size, tuple(sorted({c for c, _ in fails})))] += 1
                if fails or res.evals % 1009 == 1:
                    case = {"kind": "add-regions", "nslots": nslots, "circ": circ, "areas": list(combo)}
                    for clause, detail in fails[:3]:
                        res.fail(case, clause, detail)
                    res.sample(case)
    elif shard[0] == "parents":
        from mc.props import c05  # pylint: disable=import-outside-toplevel
        _, circ, chunk, tier = shard
        menu = [m for m in c05.menu_for(6, circ, tier, 3) if P.make_protocluster(6 * P.SLOT, circ, m) is not None]
        index = 0
        for k in (1, 2, 3):
            for combo in itertools.combinations(menu, k):
                index += 1
                if index % N_CHUNKS != chunk:
                    continue
                res.evals += 1
                res.nontrivial += k > 1
                fails = check_parents(6, circ, [list(m) for m in combo])
                res.outcomes[("parents", tuple(sorted({c for c, _ in fails})))] += 1
                if fails or res.evals % 2003 == 1:
                    case = {"kind": "parents", "nslots": 6, "circ": circ, "specs": [list(m) for m in combo]}
                    for clause, detail in fails:
                        res.fail(case, clause, detail)
                    res.sample(case)
    else:
        _, circ, depth = shard
        states, transitions = bfs(circ, depth, res)
        res.extra["states"] = states
        res.extra["transitions"] = transitions
        res.extra["traces_validated_against_impl"] = transitions
        res.outcomes[("bfs", circ, states)] += 1
        res.sample({"kind": "history", "circ": circ, "hist": ["addG:g1", "addP1", "createCC", "createR", "addG:g2", "clearR"]}, 1)
    return res


def finalize(cov, tier):
    cov["explanation"] = ("states/transitions are those of part B (both topologies summed); every transition was executed on a fresh real Record "
                          "by replaying its history, so traces_validated_against_impl == transitions")


def replay(case):
    if case.get("kind") == "add-regions":
        return check_add_regions(case["nslots"], case["circ"], case["areas"]) or []
    if case["kind"] == "parents":
        return check_parents(case["nslots"], case["circ"], case["specs"])
    if case["kind"] == "areas":
        rec, _ = build_areas(case["nslots"], case["circ"], case["areas"])
        return check_regions(rec, case["nslots"] * P.SLOT, case["circ"])
    return check_history(case["circ"], case["hist"])
