"""C05 Candidate clusters group protoclusters by the documented kinds.

All multisets of <= 3-4 protoclusters from a slotted menu, each supplied to the record in EVERY order, then
create_candidate_clusters(). Layer 1: universal invariants + order independence. Layer 2: kinds against an
independent reference written as graph components over set-of-bases overlap.
"""
import collections
import itertools

from antismash.common.secmet.features import Feature
from antismash.common.secmet.locations import connect_locations

from mc.engine.core import Result
from mc.ref import bases as R
from mc.universe import protos as P

ID = "C05"
LEVEL = "exploration"
RULE = ("cases = (topology, multiset of protocluster shapes from the slotted menu (core slots, neighbourhood slots, product), supply order); "
        "every multiset of size <= k and every permutation of it; non-trivial = at least two protoclusters whose extents overlap; "
        "distinct by construction")
ASSUMPTIONS = [
    "spans of member groups are computed with the real connect_locations (the subject of C04)",
    "the documented de-duplication (same coordinates -> one candidate; a group arriving at the coordinates of an existing stronger "
    "candidate is merged into it and the extra members also get singles) is part of the reference",
    "kinds are only compared where the reference is unambiguous (no protocluster inside the core span of two different hybrid groups; no weaker "
    "group arriving at coordinates already held by two candidates); two groups of one kind at identical coordinates are two candidates",
]
BOUNDS = {
    "quick": "6 slots, line and ring, multisets of <= 3 from a 36-43 shape menu, all <= 6 supply orders; 4-sets with >= 3 equal core starts/ends (symmetric neighbourhoods, cores of <= 2 slots, 2 orders)",
    "thorough": "6 slots <= 3 of the full menu plus <= 4 of a 24-shape sub-menu, all <= 24 orders; 7 slots <= 3",
}
REQUIRED_BUCKETS = {t: ["kind:chemical_hybrid", "kind:interleaved", "kind:neighbouring", "kind:single", "origin-spanning-extent",
                        "origin-spanning-core", "dedup-promoted", "orders-compared"] for t in ("quick", "thorough")}
N_CHUNKS = 32
ORDER_RANK = {"chemical_hybrid": 0, "interleaved": 1, "neighbouring": 2, "single": 3}


def components(items, edge):
    items = list(items)
    parent = list(range(len(items)))

    def find(x):
        while parent[x] != x:
            x = parent[x]
        return x
    for i in range(len(items)):
        for j in range(i + 1, len(items)):
            if edge(items[i], items[j]):
                parent[find(i)] = find(j)
    groups = collections.defaultdict(list)
    for i in range(len(items)):
        groups[find(i)].append(items[i])
    return list(groups.values())


def reference(n, info, span_key, span_bases):
    """ n protoclusters 0..n-1; info[i] = dict(core=bases, ext=bases, defs=set of gene names)
        span_key(members) -> (start, end) of the span of the members' extents (dedup key)
        span_bases(members, which) -> bases of the span of cores / extents
        -> (set of (kind, frozenset(members)), ambiguous flag) """
    cands = []          # [key, kind, members]
    singles_extra = set()
    ambiguous = False
    same_kind_collision = []

    def add(kind, members):
        nonlocal ambiguous
        key = span_key(members)
        entries = [e for e in cands if e[0] == key]
        if not entries:
            cands.append([key, kind, frozenset(members)])
            return
        if all(e[1] == kind for e in entries):
            # two groups of the same pass at identical coordinates: they are disjoint, and the statement allows candidates with the
            # same coordinates and different membership, so both exist
            same_kind_collision.append(key)
            cands.append([key, kind, frozenset(members)])
            return
        # a weaker group is built up from whole candidates: only those it contains are what it can be promoted into, a
        # candidate that merely has the same coordinates is another candidate (equal coordinates, different membership)
        targets = [e for e in entries if e[2] <= frozenset(members)]
        if not targets:
            cands.append([key, kind, frozenset(members)])
            return
        extras = set(members) - set().union(*[e[2] for e in targets])
        if not extras:
            return
        if len(targets) > 1:
            ambiguous = True      # which of the candidates it joins the weaker group is promoted into is not documented
        targets[0][2] = targets[0][2] | extras
        singles_extra.update(extras)

    protos = list(range(n))
    unassigned = set(protos)
    hybrid_groups = [set(g) for g in components(protos, lambda a, b: bool(info[a]["defs"] & info[b]["defs"])) if len(g) > 1]
    for group in hybrid_groups:
        unassigned -= group
    spans = [span_bases(sorted(g), "core") for g in hybrid_groups]
    for p in sorted(unassigned):
        holders = [i for i, sp in enumerate(spans) if info[p]["core"] <= sp]
        if len(holders) > 1:
            ambiguous = True
        if holders:
            hybrid_groups[holders[0]].add(p)
            unassigned.discard(p)
    for group in hybrid_groups:
        add("chemical_hybrid", group)

    def items_now():
        return [("c", members) for _, _, members in cands] + [("p", frozenset([p])) for p in sorted(unassigned)]

    items = items_now()
    inter = [g for g in components(items, lambda a, b: bool(span_bases(sorted(a[1]), "core") & span_bases(sorted(b[1]), "core")))
             if len(g) > 1]
    for group in inter:
        members = frozenset().union(*[m for _, m in group])
        for kind, m in group:
            if kind == "p":
                unassigned.discard(next(iter(m)))
        add("interleaved", members)
    items = items_now()
    neigh = [g for g in components(items, lambda a, b: bool(span_bases(sorted(a[1]), "ext") & span_bases(sorted(b[1]), "ext")))
             if len(g) > 1]
    for group in neigh:
        add("neighbouring", frozenset().union(*[m for _, m in group]))
    out = {(kind, members) for _, kind, members in cands}
    for p in set(unassigned) | singles_extra:
        key = span_key([p])
        if any(e[0] == key and p in e[2] for e in cands):
            continue
        out.add(("single", frozenset([p])))
    return out, ambiguous, bool(singles_extra), bool(same_kind_collision)


class DuplicateMember(Exception):
    """a candidate cluster that holds the same protocluster more than once"""


def run_config(nslots, circular, specs, order, bridging_gene=False):
    """-> dict(got=set of (kind, members), raw=list) ; members are indices into specs"""
    L = nslots * P.SLOT
    rec, _ = P.make_slotted_record(nslots, circular, P.default_core_functions(nslots), bridging_gene=bridging_gene)
    protos = [P.make_protocluster(L, circular, spec) for spec in specs]
    for i in order:
        rec.add_protocluster(protos[i])
    rec.create_candidate_clusters()
    ident = {id(p): i for i, p in enumerate(protos)}
    raw = []
    for cand in rec.get_candidate_clusters():
        members = [ident[id(p)] for p in cand.protoclusters]
        if len(members) != len(set(members)):
            raise DuplicateMember(f"{cand.kind} candidate at {cand.location} lists protoclusters {members}")
        raw.append((str(cand.kind), frozenset(members), str(cand.location),
                    (int(cand.location.start), int(cand.location.end)), tuple(members)))
    return rec, protos, raw


def check_config(nslots, circular, specs, orders=None, stats=None, bridging_gene=False):
    L = nslots * P.SLOT
    wrap = L if circular else None
    n = len(specs)
    orders = orders or list(itertools.permutations(range(n)))
    fails = []
    first = None
    for order in orders:
        try:
            rec, protos, raw = run_config(nslots, circular, specs, order, bridging_gene)
        except DuplicateMember as err:
            fails.append(("candidate-lists-a-protocluster-twice", f"order={list(order)} {err}"))
            return fails
        except Exception as err:  # pylint: disable=broad-except
            fails.append(("formation-raised", f"order={list(order)} {type(err).__name__}: {str(err)[:150]}"))
            return fails
        got = {(k, m) for k, m, _, _, _ in raw}
        # ---- layer 1
        covered = set().union(*[m for _, m, _, _, _ in raw]) if raw else set()
        if covered != set(range(n)):
            fails.append(("protocluster-in-no-candidate", f"order={list(order)} missing={sorted(set(range(n)) - covered)}"))
        seen = set()
        for kind, members, loc_text, key, _ in raw:
            ident = (key, members, loc_text)
            if ident in seen:
                fails.append(("duplicate-candidate", f"{kind} {sorted(members)} {loc_text}"))
            seen.add(ident)
            cand_bases = None
            for cand in rec.get_candidate_clusters():
                if str(cand.location) == loc_text:
                    cand_bases = R.bases(cand.location)
            union = frozenset().union(*[R.bases(protos[m].location) for m in members])
            want = connect_locations([protos[m].location for m in sorted(members)], wrap_point=wrap)
            if not union <= cand_bases or cand_bases != R.bases(want):
                fails.append(("candidate-span", f"{kind} {sorted(members)} at {loc_text}, members span {want}"))
        if len(raw) != len(got):
            fails.append(("duplicate-kind-membership", f"{sorted((k, sorted(m)) for k, m, _, _, _ in raw)}"))
        # candidates in number order, members as listed - by content, as protoclusters equal in extent, core and product are
        # interchangeable
        content = {i: (str(p.location), str(p.core_location), p.product, p.tool) for i, p in enumerate(protos)}
        sequence = [(k, [content[i] for i in listed]) for k, _, _, _, listed in raw]
        if first is None:
            first = (order, got, protos, sequence)
        elif got == first[1] and sequence != first[3]:
            # the same candidates, numbered differently
            fails.append(("candidate-numbering-depends-on-supply-order", f"order {list(first[0])} -> {first[3]}; order {list(order)} -> {sequence}"))
        elif got != first[1]:
            fails.append(("order-dependence", f"order {list(first[0])} -> {_fmt(first[1])}; order {list(order)} -> {_fmt(got)}"))
            if stats is not None:
                stats["orders-differ"] += 1
        if fails:
            return fails
    if stats is not None and len(orders) > 1:
        stats["orders-compared"] += len(orders) - 1
    # ---- layer 2 (on the first order's objects)
    _, got, protos, _ = first
    info = {i: {"core": R.bases(p.core_location), "ext": R.bases(p.location),
                "defs": {g.get_name() for g in p.definition_cdses}} for i, p in enumerate(protos)}

    def span_key(members):
        loc = connect_locations([protos[m].location for m in sorted(members)], wrap_point=wrap)
        feat = Feature(loc, "x")
        return (int(feat.start), int(feat.end))

    def span_bases(members, which):
        locs = [protos[m].core_location if which == "core" else protos[m].location for m in members]
        return R.bases(connect_locations(locs, wrap_point=wrap))
    exp, ambiguous, promoted, same_kind = reference(n, info, span_key, span_bases)
    if stats is not None:
        for kind, _ in got:
            stats[f"kind:{kind}"] += 1
        if any(len(p.location.parts) > 1 for p in protos):
            stats["origin-spanning-extent"] += 1
        if any(len(p.core_location.parts) > 1 for p in protos):
            stats["origin-spanning-core"] += 1
        if promoted:
            stats["dedup-promoted"] += 1
        if ambiguous:
            stats["ambiguous-skipped"] += 1
        if same_kind:
            stats["same-kind-groups-at-equal-coordinates"] += 1
    if not ambiguous and got != exp:
        extra = got - exp
        missing = exp - got
        clause = "kinds:" + "+".join(sorted({f"extra-{k}" for k, _ in extra} | {f"missing-{k}" for k, _ in missing}))
        if same_kind:
            # groups of one pass that arrive at identical coordinates (extents clipped to the same place)
            clause = "same-kind-groups-at-equal-coordinates-merged"
        fails.append((clause, f"code={_fmt(got)} ref={_fmt(exp)}"))
    return fails


def _fmt(cands):
    return sorted((k, sorted(m)) for k, m in cands)


def menu_for(nslots, circular, tier, size):
    menu = P.protocluster_menu(nslots, circular)
    if size >= 4:
        menu = [m for m in menu if (m[2], m[3]) != (0, 2) or m[4] == "p"][::2]
    elif tier == "quick":
        menu = [m for i, m in enumerate(menu) if i % 5 in (0, 2, 3)]
    return menu


def shards(tier):
    out = []
    # boundary-coincidence family: four protoclusters of which at least three share a core start or a core end (two supply orders)
    for circ in (False, True):
        for chunk in range(N_CHUNKS):
            out.append([6, circ, "coincide4", chunk, tier])
    for circ in (False, True):
        for chunk in range(N_CHUNKS):
            out.append([8, circ, "hybrids5", chunk, tier])
            out.append([8, circ, "hybrids7", chunk, tier])
            out.append([8, circ, "hybrids6", chunk, tier])
            out.append([6, circ, "clipped5", chunk, tier])
            out.append([6, circ, "strandmix", chunk, tier])
            if circ:
                out.append([6, circ, "crosscores", chunk, tier])
    plans = [(6, False, 3), (6, True, 3)]
    if tier == "thorough":
        plans += [(6, False, 4), (6, True, 4), (7, True, 3)]
    for nslots, circ, size in plans:
        for chunk in range(N_CHUNKS):
            out.append([nslots, circ, size, chunk, tier])
    return out


def run_coincide4(shard):
    nslots, circ, _, chunk, tier = shard
    res = Result()
    L = nslots * P.SLOT
    full = [m for m in P.protocluster_menu(nslots, circ) if P.make_protocluster(L, circ, m) is not None]
    if tier == "thorough":
        menu = full
    else:
        # quick: symmetric neighbourhoods and cores of at most two slots
        menu = [m for m in full if (m[2], m[3]) != (0, 2) and (m[1] - m[0]) % nslots <= 1]
    index = 0
    for key in (("start", "end") if tier == "thorough" else ("start",)):
        groups = {}
        for m in menu:
            groups.setdefault(m[0] if key == "start" else m[1], []).append(m)
        for shared in groups.values():
            for trio in itertools.combinations(shared, 3):
                for fourth in menu:
                    if fourth in trio:
                        continue
                    index += 1
                    if index % N_CHUNKS != chunk:
                        continue
                    specs = list(trio) + [fourth]
                    res.evals += 1
                    res.nontrivial += 1
                    fails = check_config(nslots, circ, specs, orders=[(0, 1, 2, 3), (3, 2, 1, 0)], stats=res.buckets)
                    res.outcomes[("coincide4", tuple(sorted(c.split(":")[0] for c, _ in fails)))] += 1
                    if fails or res.evals % 1009 == 1:
                        case = {"nslots": nslots, "circ": circ, "specs": specs}
                        for clause, detail in fails:
                            res.fail(case, clause, detail)
                        res.sample(case)
    return res


HYBRID_NEIGHBOURHOODS = ((0, 0), (1, 1), (2, 2), (3, 3))


def two_hybrids_plus_one(nslots, circ):
    """five protoclusters: two chemical hybrid pairs (a p- and a q-protocluster sharing the defining gene of an even slot) whose
    neighbourhoods differ in size, plus every further protocluster of the menu - the candidate list the interleaved / neighbouring
    scans walk is then ordered by extent while their cores are ordered differently"""
    L = nslots * P.SLOT
    extra = [m for m in P.protocluster_menu(nslots, circ, max_core=2, neighbourhoods=((0, 0), (1, 1)))
             if P.make_protocluster(L, circ, m) is not None]
    evens = [s for s in range(0, nslots - 1, 2)]
    for s1, s2 in itertools.combinations(evens, 2):
        for n1 in HYBRID_NEIGHBOURHOODS:
            for n2 in HYBRID_NEIGHBOURHOODS:
                pair1 = [[s1, s1, n1[0], n1[1], "p"], [s1, s1 + 1, n1[0], n1[1], "q"]]
                pair2 = [[s2, s2, n2[0], n2[1], "p"], [s2, s2 + 1, n2[0], n2[1], "q"]]
                if any(P.make_protocluster(L, circ, m) is None for m in pair1 + pair2):
                    continue
                for x in extra:
                    if x in pair1 or x in pair2:
                        continue
                    yield pair1 + pair2 + [x]


CLIP = 99     # neighbourhood (in slots) larger than any record: the extent is the whole record


def clipped_hybrids_plus_one(nslots, circ):
    """five protoclusters on a short record: two chemical hybrid pairs of which at least one has its extents clipped to the whole
    record (the norm on small contigs and plasmids), plus one further protocluster, clipped or not - groups of one kind then
    arrive at identical coordinates"""
    L = nslots * P.SLOT
    # (cores of two slots: a further protocluster can then overlap the core span of a pair without lying inside it)
    extra = [m for m in P.protocluster_menu(nslots, circ, max_core=2, neighbourhoods=((0, 0), (CLIP, CLIP)))
             if P.make_protocluster(L, circ, m) is not None]
    evens = [s for s in range(0, nslots - 1, 2)]
    for s1, s2 in itertools.combinations(evens, 2):
        for n1, n2 in ((CLIP, CLIP), (CLIP, 1), (1, CLIP), (CLIP, 0)):
            pair1 = [[s1, s1, n1, n1, "p"], [s1, s1 + 1, n1, n1, "q"]]
            pair2 = [[s2, s2, n2, n2, "p"], [s2, s2 + 1, n2, n2, "q"]]
            if any(P.make_protocluster(L, circ, m) is None for m in pair1 + pair2):
                continue
            yield pair1 + pair2
            for x in extra:
                if x not in pair1 and x not in pair2:
                    yield pair1 + pair2 + [x]


def strand_mix(nslots, circ):
    """two or three protoclusters of which some are sideloaded (locations without a strand): identical coordinates with different
    strands, which an ordering that compares whole locations cannot tell apart from different coordinates"""
    menu = []
    for slot in (1, 2, 3):
        for nbh in ((0, 0), (1, 1)):
            for flags in ("", "s"):
                for product in ("p", "q"):
                    menu.append([slot, slot, nbh[0], nbh[1], product, flags])
    for size in (2, 3):
        for combo in itertools.combinations(menu, size):
            if any(x[5] == "s" for x in combo):
                yield list(combo)


def crossing_cores(nslots, circ):
    """two or three protoclusters whose cores all cross the origin, with every combination of small neighbourhoods: equal extents
    with different cores, where the plain start/end of a core location (0 and the record length) say nothing"""
    if not circ:
        return
    L = nslots * P.SLOT
    menu = [[cs, ce, nl, nr, "p"] for cs, ce in ((nslots - 1, 0), (nslots - 1, 1), (nslots - 2, 0), (nslots - 2, 1))
            for nl in (0, 1, 2) for nr in (0, 1, 2)]
    menu = [m for m in menu if P.make_protocluster(L, circ, m) is not None]
    for size in (2, 3):
        for combo in itertools.combinations(menu, size):
            yield list(combo)


SMALL_FAMILIES = {"strandmix": strand_mix, "crosscores": crossing_cores}


def three_hybrids_plus_one(nslots, circ):
    """seven protoclusters: three chemical hybrid pairs with neighbourhoods of different size (so that one candidate can lie
    inside the extent of another and candidates sorting later can end earlier) plus a single protocluster anywhere"""
    L = nslots * P.SLOT
    singles = [m for m in P.protocluster_menu(nslots, circ, max_core=1, products=("p",), neighbourhoods=((0, 0), (1, 1)))
               if P.make_protocluster(L, circ, m) is not None]
    evens = [s for s in range(0, nslots - 1, 2)]
    sizes = ((0, 0), (1, 1), (3, 3))
    for slots in itertools.combinations(evens, 3):
        for nbhs in itertools.product(sizes, repeat=3):
            pairs = []
            for s, n in zip(slots, nbhs):
                pairs += [[s, s, n[0], n[1], "p"], [s, s + 1, n[0], n[1], "q"]]
            if any(P.make_protocluster(L, circ, m) is None for m in pairs):
                continue
            for x in singles:
                if x not in pairs:
                    yield pairs + [x]


def two_hybrids_plus_two(nslots, circ):
    """six protoclusters: two chemical hybrid pairs and two further single-slot protoclusters (a chain candidate - single - single -
    candidate is only one neighbouring group through the link between the two singles)"""
    L = nslots * P.SLOT
    singles = [m for m in P.protocluster_menu(nslots, circ, max_core=1, products=("p",), neighbourhoods=((0, 0), (1, 1)))
               if P.make_protocluster(L, circ, m) is not None]
    evens = [s for s in range(0, nslots - 1, 2)]
    for s1, s2 in itertools.combinations(evens, 2):
        for n1 in HYBRID_NEIGHBOURHOODS[:3]:
            for n2 in HYBRID_NEIGHBOURHOODS[:3]:
                pairs = [[s1, s1, n1[0], n1[1], "p"], [s1, s1 + 1, n1[0], n1[1], "q"], [s2, s2, n2[0], n2[1], "p"], [s2, s2 + 1, n2[0], n2[1], "q"]]
                if any(P.make_protocluster(L, circ, m) is None for m in pairs):
                    continue
                for x, y in itertools.combinations(singles, 2):
                    if x not in pairs and y not in pairs:
                        yield pairs + [x, y]


def run_two_hybrids(shard):
    nslots, circ, kind, chunk, tier = shard
    res = Result()
    if kind == "hybrids6":
        for index, specs in enumerate(two_hybrids_plus_two(nslots, circ)):
            if index % N_CHUNKS != chunk:
                continue
            res.evals += 1
            res.nontrivial += 1
            fails = check_config(nslots, circ, specs, orders=[tuple(range(6)), (5, 3, 1, 4, 2, 0)], stats=res.buckets)
            res.outcomes[("hybrids6", tuple(sorted(c.split(":")[0] for c, _ in fails)))] += 1
            if fails or res.evals % 1009 == 1:
                case = {"nslots": nslots, "circ": circ, "specs": specs}
                for clause, detail in fails:
                    res.fail(case, clause, detail)
                res.sample(case)
        return res
    if kind in SMALL_FAMILIES:
        for index, specs in enumerate(SMALL_FAMILIES[kind](nslots, circ)):
            if index % N_CHUNKS != chunk:
                continue
            res.evals += 1
            res.nontrivial += 1
            fails = check_config(nslots, circ, specs, stats=res.buckets)      # every supply order
            res.outcomes[(kind, tuple(sorted(c.split(":")[0] for c, _ in fails)))] += 1
            if fails or res.evals % 1009 == 1:
                case = {"nslots": nslots, "circ": circ, "specs": specs}
                for clause, detail in fails:
                    res.fail(case, clause, detail)
                res.sample(case)
        return res
    if kind == "clipped5":
        for index, specs in enumerate(clipped_hybrids_plus_one(nslots, circ)):
            if index % N_CHUNKS != chunk:
                continue
            res.evals += 1
            res.nontrivial += 1
            n = len(specs)
            fails = check_config(nslots, circ, specs, orders=[tuple(range(n)), tuple(range(n - 1, -1, -1))], stats=res.buckets)
            res.outcomes[("clipped5", tuple(sorted(c.split(":")[0] for c, _ in fails)))] += 1
            if fails or res.evals % 1009 == 1:
                case = {"nslots": nslots, "circ": circ, "specs": specs}
                for clause, detail in fails:
                    res.fail(case, clause, detail)
                res.sample(case)
        return res
    if kind == "hybrids7":
        for index, specs in enumerate(three_hybrids_plus_one(nslots, circ)):
            if index % N_CHUNKS != chunk:
                continue
            res.evals += 1
            res.nontrivial += 1
            fails = check_config(nslots, circ, specs, orders=[tuple(range(7)), tuple(range(6, -1, -1))], stats=res.buckets)
            res.outcomes[("hybrids7", tuple(sorted(c.split(":")[0] for c, _ in fails)))] += 1
            if fails or res.evals % 1009 == 1:
                case = {"nslots": nslots, "circ": circ, "specs": specs}
                for clause, detail in fails:
                    res.fail(case, clause, detail)
                res.sample(case)
        return res
    for index, specs in enumerate(two_hybrids_plus_one(nslots, circ)):
        if index % N_CHUNKS != chunk:
            continue
        res.evals += 1
        res.nontrivial += 1
        fails = check_config(nslots, circ, specs, orders=[(0, 1, 2, 3, 4), (4, 3, 2, 1, 0), (2, 4, 0, 3, 1)], stats=res.buckets)
        res.outcomes[("hybrids5", tuple(sorted(c.split(":")[0] for c, _ in fails)))] += 1
        if fails or res.evals % 1009 == 1:
            case = {"nslots": nslots, "circ": circ, "specs": specs}
            for clause, detail in fails:
                res.fail(case, clause, detail)
            res.sample(case)
    return res


def run_shard(shard):
    if shard[2] == "coincide4":
        return run_coincide4(shard)
    if shard[2] in ("hybrids5", "hybrids6", "hybrids7", "clipped5") or shard[2] in SMALL_FAMILIES:
        return run_two_hybrids(shard)
    nslots, circ, size, chunk, tier = shard
    res = Result()
    menu = menu_for(nslots, circ, tier, size)
    L = nslots * P.SLOT
    menu = [m for m in menu if P.make_protocluster(L, circ, m) is not None]
    index = 0
    sizes = range(1, size + 1) if size < 4 else (4,)
    for k in sizes:
        for combo in itertools.combinations_with_replacement(range(len(menu)), k):
            index += 1
            if index % N_CHUNKS != chunk:
                continue
            specs = [menu[i] for i in combo]
            # identical shapes are only meaningful when the product differs: same product + same coordinates is one protocluster
            if len({tuple(s) for s in specs}) < len(specs):
                continue
            res.evals += 1
            fails = check_config(nslots, circ, specs, stats=res.buckets)
            res.nontrivial += k > 1
            res.outcomes[(k, tuple(sorted(c.split(":")[0] for c, _ in fails)))] += 1
            if fails or res.evals % 1009 == 1:
                case = {"nslots": nslots, "circ": circ, "specs": specs}
                for clause, detail in fails:
                    res.fail(case, clause, detail)
                res.sample(case)
    return res


def replay(case):
    return check_config(case["nslots"], case["circ"], case["specs"])
