"""C10 Annotated records survive GenBank and JSON round trips unchanged.

Every record of the annotated-record catalogue (real producers: detection, sideloading, candidate/region formation,
PFAM/NRPS-PKS domains and modules, precursor peptide, TTA markers, plain features) is written to GenBank text and to
the results JSON, read back with the real readers, and written again: the first output must be a fixed point and the
canonical description of the re-read record must equal the original's.
"""
import io

from Bio import SeqIO

from antismash.common import json as as_json
from antismash.common import serialiser
from antismash.common.secmet import Record

from mc.engine.core import Result
from mc.universe import catalogue as K

ID = "C10"
LEVEL = "exploration"
RULE = ("cases = (catalogue record, format in {genbank, json}); catalogue = topology x 7 gene layouts (both strands, touching, nested, multi-exon, "
        "codon_start, origin-spanning forward/reverse) x 5 rulesets (incl. identical-coordinate protoclusters) x 6 sideload variants (incl. "
        "identical-coordinate and origin-spanning subregions) x subsets of 7 extra annotation kinds; non-trivial = record with at least one "
        "region; distinct by construction")
ASSUMPTIONS = [
    "records are produced by the real producer code; the three HMMER look-ups of the NRPS/PKS module are replaced by fixed hit tables",
    "every base record is first written to GenBank and parsed back once (pipeline records are born that way)",
    "the canonical description compares sequence, topology, every emitted feature (type, location, qualifiers) and the area structure with numbers",
]
BOUNDS = {"quick": "763 records (extras one at a time and all together on five rule/sideload combinations)", "thorough": "9690 records (all pairs of extras on every combination)"}
REQUIRED_BUCKETS = {t: ["records:with-regions", "records:origin-spanning-gene", "records:identical-coordinate-areas", "records:modules",
                        "records:prepeptide", "records:codon-start"] for t in ("quick", "thorough")}
N_CHUNKS = 32


def full_genbank(rec):
    handle = io.StringIO()
    SeqIO.write([rec.to_biopython()], handle, "genbank")
    return handle.getvalue()


def check_record(spec, stats=None):
    try:
        rec = K.build_record(spec)
        original = K.describe(rec)
    except Exception as err:  # pylint: disable=broad-except
        return [("catalogue-build-raised", f"{type(err).__name__}: {str(err)[:150]}")]
    fails = []
    if stats is not None:
        st = original["structure"]
        stats["records:with-regions"] += bool(st["regions"])
        stats["records:origin-spanning-gene"] += spec["layout"] in K.CIRCULAR_ONLY
        stats["records:identical-coordinate-areas"] += (spec["rules"] == "twins" or spec["sideload"] == "twin-sub")
        stats["records:modules"] += bool(st["modules"])
        stats["records:prepeptide"] += bool({"prepeptide", "*all*"} & set(spec["extras"]))
        stats["records:codon-start"] += spec["layout"] == "codonstart"
    # ---- GenBank
    try:
        out1 = full_genbank(rec)
        bio = SeqIO.read(io.StringIO(out1), "genbank")
        again = Record.from_biopython(bio, taxon="bacteria")
        out2 = full_genbank(again)
        if out1 != out2:
            fails.append(("genbank-not-a-fixed-point", _first_diff(out1, out2)))
        desc = K.describe(again)
        if desc != original:
            fails.append(("genbank-description-differs", _desc_diff(original, desc)))
    except Exception as err:  # pylint: disable=broad-except
        fails.append(("genbank-round-trip-raised", f"{type(err).__name__}: {str(err)[:200]}"))
    # ---- JSON
    try:
        j1 = as_json.dumps(serialiser.record_to_json(rec.to_biopython()))
        areas1 = as_json.dumps(serialiser.gather_record_areas(rec))
        again = serialiser.record_from_json(as_json.loads(j1), "bacteria")
        j2 = as_json.dumps(serialiser.record_to_json(again.to_biopython()))
        areas2 = as_json.dumps(serialiser.gather_record_areas(again))
        if j1 != j2:
            fails.append(("json-not-a-fixed-point", _first_diff(j1, j2)))
        if areas1 != areas2:
            fails.append(("json-areas-differ", _first_diff(areas1, areas2)))
        desc = K.describe(again)
        if desc != original:
            fails.append(("json-description-differs", _desc_diff(original, desc)))
    except Exception as err:  # pylint: disable=broad-except
        fails.append(("json-round-trip-raised", f"{type(err).__name__}: {str(err)[:200]}"))
    return fails


def _first_diff(a, b):
    la, lb = a.splitlines(), b.splitlines()
    if len(la) == 1 and len(lb) == 1:
        for i, (x, y) in enumerate(zip(a, b)):
            if x != y:
                return f"at char {i}: {a[max(0, i - 60):i + 60]!r} vs {b[max(0, i - 60):i + 60]!r}"
        return f"length {len(a)} vs {len(b)}"
    for x, y in zip(la, lb):
        if x != y:
            return f"{x.strip()!r} vs {y.strip()!r}"
    return f"{len(la)} vs {len(lb)} lines"


def _desc_diff(a, b):
    for key in a:
        if a[key] != b[key]:
            if key == "structure":
                for sub in a[key]:
                    if a[key][sub] != b[key][sub]:
                        return f"structure.{sub}: {a[key][sub]} vs {b[key][sub]}"[:500]
            if key == "features":
                only_a = [f for f in a[key] if f not in b[key]]
                only_b = [f for f in b[key] if f not in a[key]]
                return f"features: only before {only_a[:2]} only after {only_b[:2]}"[:700]
            return f"{key}: {str(a[key])[:200]} vs {str(b[key])[:200]}"
    return "?"


def shards(tier):
    return [[tier, chunk] for chunk in range(N_CHUNKS)]


def run_shard(shard):
    tier, chunk = shard
    res = Result()
    for index, spec in enumerate(K.specs(tier)):
        if index % N_CHUNKS != chunk:
            continue
        res.evals += 2
        fails = check_record(spec, res.buckets)
        res.nontrivial += 2 if (spec["rules"] or spec["sideload"]) else 0
        res.outcomes[tuple(sorted({c for c, _ in fails}))] += 1
        if fails or index % 97 == 0:
            for clause, detail in fails:
                res.fail(spec, clause, detail)
            res.sample(spec)
    return res


def replay(case):
    return check_record(case)
