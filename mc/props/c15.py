"""C15 ORF scanning finds exactly the open reading frames of the searched sequence.

Every string over {A,T,G} up to the length bound (these letters form all start and stop codons), plus one-position
deviations (lower case, C, N), both directions, offsets incl. windows crossing the origin at every position, several
record lengths and minimum lengths, through scan_orfs against an independent scanner + extraction equality.
Gap search: tiny records x <=2 existing genes x areas x max_overlap through find_all_orfs.
"""
import itertools
import random

from Bio.Seq import Seq

from antismash.common import all_orfs
from antismash.common.all_orfs import find_all_orfs, scan_orfs
from antismash.common.secmet.features import SubRegion
from antismash.common.secmet.locations import FeatureLocation as F

from mc.engine.core import Result
from mc.ref import bases as R
from mc.universe import worlds as W
from mc.universe.loc import enc, ring_loc

ID = "C15"
LEVEL = "exploration"
RULE = ("scan cases = (string over {A,T,G} of length 3..N or a one-position deviation of one, direction, (offset, record length) from a menu that "
        "includes every wrap position, minimum length from {0,3,6,7,9}); gap cases = (record sequence from 6 templates, <=2 existing genes on a "
        "codon grid, area in {none, inner subregion, origin-spanning subregion}, max_overlap in {0,1,3}); non-trivial = the reference scanner "
        "finds at least one ORF; distinct by construction")
ASSUMPTIONS = [
    "{A,T,G} generate all start and stop codons; other letters only matter as 'not a start/stop', covered by the deviations",
    "minimum length: an ORF must be reported when its length without the stop codon is >= the minimum and must not be when its length with "
    "the stop codon is < the minimum; in between either answer is accepted (the statement does not say whether the stop codon counts)",
    "gap search: only soundness of the returned ORFs is demanded (inside the widened gaps, valid ORF, translation matches), as in the statement",
]
BOUNDS = {"quick": "strings up to length 9, deviations up to length 6; gap search L=36", "thorough": "strings up to length 12, deviations up to length 9"}
REQUIRED_BUCKETS = {t: ["scan:orf-found", "scan:wrapped-two-part", "scan:reverse", "scan:min-length-band", "gap:orfs-returned",
                        "gap:cross-origin-area"] for t in ("quick", "thorough")}
STARTS = ("ATG", "GTG", "TTG")
STOPS = ("TAA", "TAG", "TGA")
MINLENS = (0, 3, 6, 7, 9)


def ref_scan(seq):
    """per frame: first start codon after the previous stop, up to and including the next in-frame stop"""
    seq = seq.upper()
    out = []
    for frame in range(3):
        start = None
        for i in range(frame, len(seq) - 2, 3):
            codon = seq[i:i + 3]
            if start is None:
                if codon in STARTS:
                    start = i
            elif codon in STOPS:
                out.append((start, i + 3))
                start = None
    return out


def revcomp(text):
    return text[::-1].translate(str.maketrans("ACGTNacgtn", "TGCANtgcan"))


def placements(n):
    """(offset, record_length) menu: no record length, and a ring of n+4 with the window at every position"""
    out = [(0, None), (2, None)]
    ring = n + 4
    out += [(off, ring) for off in range(ring)]
    out += [(0, n), (1, n), (n - 1, n), (3, 2 * n)]
    return out


def check_scan(text, direction, offset, record_length, minlen):
    """text: the forward-strand content of the scanned window"""
    chunk = text if direction == 1 else revcomp(text)
    try:
        got = scan_orfs(chunk, direction, offset, minimum_length=minlen, record_length=record_length)
    except Exception as err:  # pylint: disable=broad-except
        return [("scan-raised", f"{type(err).__name__}: {str(err)[:120]}")], 0, False
    orfs = ref_scan(chunk)
    must = [(a, b) for a, b in orfs if (b - a - 3) >= minlen]
    may = [(a, b) for a, b in orfs if (b - a) >= minlen]
    n = len(chunk)

    def coords(a, b):
        if direction == 1:
            s0, e0 = a + offset, b + offset
        else:
            s0, e0 = n - b + offset, n - a + offset
        if record_length is None:
            return frozenset(range(s0, e0))
        return frozenset(x % record_length for x in range(s0, e0))
    fails = []
    got_sets = [R.bases(loc) for loc in got]
    must_sets = {coords(a, b): chunk[a:b] for a, b in must}
    may_sets = {coords(a, b): chunk[a:b] for a, b in may}
    for want in must_sets:
        if want not in got_sets:
            fails.append(("orf-missing", f"{sorted(want)} not among {[str(g) for g in got]}"))
    for loc, bases in zip(got, got_sets):
        if bases not in may_sets:
            fails.append(("orf-spurious", f"{loc}"))
            continue
        if loc.strand != direction:
            fails.append(("orf-strand", f"{loc}"))
        if record_length is not None:
            if any(not 0 <= int(p.start) < int(p.end) <= record_length for p in loc.parts):
                fails.append(("orf-outside-record", f"{loc}"))
                continue
            crosses = 0 in bases and record_length - 1 in bases and len(bases) < record_length
            if (len(loc.parts) == 2) != crosses and len(bases) < record_length:
                fails.append(("orf-parts", f"{loc} crosses={crosses}"))
            # extraction from a record carrying the window at the offset
            base = ["C"] * record_length
            for i, char in enumerate(text.upper()):
                base[(offset + i) % record_length] = char
            extracted = str(loc.extract(Seq("".join(base))))
            if extracted != may_sets[bases].upper():
                fails.append(("orf-extract", f"{loc} extracts {extracted}, ORF is {may_sets[bases]}"))
    if len(got) != len(set(got_sets)):
        fails.append(("orf-duplicate", f"{[str(g) for g in got]}"))
    starts = [min(int(p.start) for p in loc.parts) if len(loc.parts) == 1 else 0 for loc in got]
    band = len(may) != len(must)
    return fails, len(orfs), band


def deviations(text):
    for i, char in enumerate(text):
        for rep in (char.lower(), "C", "N"):
            yield text[:i] + rep + text[i + 1:]


def shards(tier):
    top = 9 if tier == "quick" else 12
    dev_top = 6 if tier == "quick" else 9
    out = []
    for n in range(3, top + 1):
        chunks = 1 if n < 8 else (4 if n < 10 else 16 if n < 12 else 48)
        for chunk in range(chunks):
            out.append(["scan", n, chunk, chunks, n <= dev_top])
    for seed in range(6):
        out.append(["gap", seed])
    return out


def run_shard(shard):
    res = Result()
    if shard[0] == "scan":
        _, n, chunk, chunks, with_dev = shard
        places = placements(n)
        for idx, letters in enumerate(itertools.product("ATG", repeat=n)):
            if idx % chunks != chunk:
                continue
            text = "".join(letters)
            variants = [text] + (list(deviations(text)) if with_dev else [])
            for variant in variants:
                for direction in (1, -1):
                    for offset, rlen in places:
                        for minlen in MINLENS:
                            res.evals += 1
                            fails, n_orfs, band = check_scan(variant, direction, offset, rlen, minlen)
                            res.nontrivial += n_orfs > 0
                            if n_orfs:
                                res.buckets["scan:orf-found"] += 1
                                if direction == -1:
                                    res.buckets["scan:reverse"] += 1
                                if band:
                                    res.buckets["scan:min-length-band"] += 1
                                if rlen is not None and offset + n > rlen:
                                    res.buckets["scan:wrapped-two-part"] += 1
                            if fails or res.evals % 200003 == 1:
                                case = {"kind": "scan", "text": variant, "dir": direction, "offset": offset, "rlen": rlen, "min": minlen}
                                for clause, detail in fails:
                                    res.fail(case, clause, detail)
                                res.sample(case)
        res.outcomes[("scan", n)] += 1
    else:
        _, seed = shard
        run_gap(seed, res)
    return res


GAP_L = 36


def gap_sequence(seed):
    rng = random.Random(seed)
    codons = ["ATG", "TAA", "TGA", "CAT", "TTA", "GTG", "AAA", "TCA", "TTG", "CAA", "GGC", "TAG"]
    return "".join(rng.choice(codons) for _ in range(GAP_L // 3))


def gene_menu():
    out = []
    for start in range(0, GAP_L, 3):
        for length in (3, 6, 12):       # 3: a gene shorter than twice the allowed overlap, nested in the end of a longer one
            if start + length <= GAP_L:
                out.append((start, length, 1 if start % 2 == 0 else -1))
    out.append((GAP_L - 3, 6, 1))   # origin-spanning (ring only)
    out.append((GAP_L - 6, 12, 1))  # origin-spanning and long enough to have an interior beyond the allowed overlap
    out.append((GAP_L - 3, 12, -1))
    return out


def check_gap(seed, circular, genes, area_kind, max_overlap, minlen=6):
    seq = gap_sequence(seed)
    rec = W.make_record(GAP_L, circular, seq)
    gene_sets = []
    for i, (start, length, strand) in enumerate(genes):
        loc = ring_loc(start, length, GAP_L, strand)
        if len(loc.parts) > 1 and not circular:
            return None, 0
        rec.add_cds_feature(W.make_cds(loc, f"g{i}"))
        gene_sets.append(R.bases(loc))
    area = None
    if area_kind == "inner":
        area = SubRegion(F(6, 30, 1), "tool", "x")
    elif area_kind == "cross":
        if not circular:
            return None, 0
        area = SubRegion(ring_loc(24, 24, GAP_L, 1), "tool", "x")
    if area is not None:
        rec.add_subregion(area)
    try:
        found = find_all_orfs(rec, area, min_length=minlen, max_overlap=max_overlap)
    except Exception as err:  # pylint: disable=broad-except
        return [("gap-raised", f"{type(err).__name__}: {str(err)[:120]}")], 0
    fails = []
    area_bases = R.bases(area.location) if area is not None else frozenset(range(GAP_L))
    occupied = frozenset().union(*gene_sets) if gene_sets else frozenset()
    # a gene base is usable only within max_overlap of a gene edge: shrink every gene by max_overlap at both ends
    blocked = set()
    for start, length, _ in genes:
        for k in range(max_overlap, length - max_overlap):
            blocked.add((start + k) % GAP_L)
    # the windows the search is made in (the same three-way dispatch as find_all_orfs): they decide what can be returned for any
    # sequence, so they are judged directly, whether or not this sequence has an ORF there
    try:
        if area is None:
            windows = all_orfs.find_intergenic_areas(0, GAP_L, rec.get_cds_features(), min_length=minlen, padding=max_overlap)
        elif area.crosses_origin():
            windows = all_orfs._find_cross_origin_intergenic(area, rec.get_cds_features(), rec, minlen, max_overlap)  # pylint: disable=protected-access
        else:
            windows = all_orfs.find_intergenic_areas(int(area.location.start), int(area.location.end),
                                                     rec.get_cds_features_within_location(area.location, with_overlapping=True),
                                                     min_length=minlen, padding=max_overlap)
    except Exception as err:  # pylint: disable=broad-except
        return [("gap-raised", f"{type(err).__name__}: {str(err)[:120]}")], 0
    window_bases = set()
    for first, last in windows:
        covered = {x % GAP_L for x in range(first, last)}
        window_bases |= covered
        if covered & blocked:
            fails.append(("search-window-inside-gene", f"window ({first},{last}) covers gene interior {sorted(covered & blocked)}"))
        if not covered <= area_bases:
            fails.append(("search-window-outside-area", f"window ({first},{last})"))
    for orf in found:
        bases = R.bases(orf.location)
        if not bases <= window_bases:
            fails.append(("gap-orf-outside-search-windows", f"{orf.location} windows {windows}"))
        text = str(orf.location.extract(rec.seq)).upper()
        valid = (len(text) % 3 == 0 and text[:3] in STARTS and text[-3:] in STOPS
                 and not any(text[i:i + 3] in STOPS for i in range(0, len(text) - 3, 3)))
        if not valid:
            fails.append(("gap-orf-not-an-orf", f"{orf.location} extracts {text}"))
            continue
        if not bases <= area_bases:
            fails.append(("gap-orf-outside-area", f"{orf.location}"))
        if bases & blocked:
            fails.append(("gap-orf-inside-gene", f"{orf.location} overlaps gene interior {sorted(bases & blocked)}"))
        expected_translation = str(Seq(text).translate(to_stop=True))
        if expected_translation and orf.translation[1:] != expected_translation[1:]:
            fails.append(("gap-orf-translation", f"{orf.location}: {orf.translation} vs {expected_translation}"))
        if len(text) < minlen:
            fails.append(("gap-orf-too-short", f"{orf.location}"))
    return fails, len(found)


def run_gap(seed, res):
    menu = gene_menu()
    for circular in (False, True):
        for size in (0, 1, 2):
            for genes in itertools.combinations(menu, size):
                if len({g[0] for g in genes}) < len(genes):
                    continue
                for area_kind in ("none", "inner", "cross"):
                    for max_overlap in (0, 1, 3, 4):
                        fails, count = check_gap(seed, circular, list(genes), area_kind, max_overlap)
                        if fails is None:
                            continue
                        res.evals += 1
                        res.nontrivial += count > 0
                        if count:
                            res.buckets["gap:orfs-returned"] += 1
                            if area_kind == "cross":
                                res.buckets["gap:cross-origin-area"] += 1
                        res.outcomes[("gap", area_kind, min(count, 3), tuple(sorted({c for c, _ in fails})))] += 1
                        if fails or res.evals % 5003 == 1:
                            case = {"kind": "gap", "seed": seed, "circ": circular, "genes": [list(g) for g in genes],
                                    "area": area_kind, "overlap": max_overlap}
                            for clause, detail in fails:
                                res.fail(case, clause, detail)
                            res.sample(case)


def replay(case):
    if case["kind"] == "scan":
        return check_scan(case["text"], case["dir"], case["offset"], case["rlen"], case["min"])[0]
    fails, _ = check_gap(case["seed"], case["circ"], [tuple(g) for g in case["genes"]], case["area"], case["overlap"])
    return fails or []
