"""C01 Rule conditions evaluate to their documented boolean meaning.

Condition trees (built directly from the Conditions classes, no parser) x gene worlds x hit
assignments, through DetectionRule.detect (all genes supplied) and through apply_cluster_rules
(window pre-filter, circular flag, three rules with cutoffs c1,c2,c1), against the truth-table
semantics in mc.ref.rulesem.
"""
import itertools

from antismash.common.hmm_rule_parser.cluster_prediction import apply_cluster_rules
from antismash.common.hmm_rule_parser.rule_parser import DetectionRule
from antismash.common.hmm_rule_parser.structures import ProfileHit

from mc.engine.core import Result
from mc.ref import rulesem
from mc.ref import bases as R
from mc.universe import rules as U
from mc.universe import worlds as W

ID = "C01"
LEVEL = "exploration"
RULE = ("cases = (condition tree, gene world, hit assignment, focus gene); trees: every tree of the grammar with <= N leaves over "
        "profiles a,b,c (minimum over [a,b] with k=1..3, minscore(a,5), cds groups of 2-3 identifiers, not/and/or, negated groups); "
        "worlds: focus gene + 1-2 neighbours at gaps {overlap, touching, c-1, c, c+1} per cutoff, either side, on a line, "
        "inside a ring, across the origin, focus or neighbour spanning the origin; every gene carries every subset of {a(low|high), b, c}; "
        "non-trivial = some neighbour carries a hit; all cases distinct by construction")
ASSUMPTIONS = [
    "profile names are interchangeable (3 names suffice for <= 3 leaves); scores only matter relative to the minscore threshold",
    "minimum nested inside cds(...) is refused by the parser and not generated; minscore inside cds(...) is accepted and judged as the "
    "statement defines both: one single gene satisfies the inner formula on its own",
    "apply_cluster_rules may add ancillary genes to a rule's anchoring set; they must carry a rule profile and lie within the cutoff of a true anchor",
]
BOUNDS = {
    "quick": "detect: trees <= 2 leaves x 1-neighbour worlds x 12x6 hit assignments; apply: same trees x 1-neighbour worlds (cutoffs 6,3,6); both again with a gene hit twice by one profile (strong+weak hit, either list order; 11x11 assignments holding such a gene)",
    "thorough": "detect: trees <= 3 leaves x 1-neighbour worlds x 12x12 hit assignments; trees <= 2 leaves x 2-neighbour worlds (6^3 hit assignments); apply: trees <= 2 leaves x 1- and 2-neighbour worlds; twice-hit genes: detect trees <= 3 leaves, apply trees <= 2 leaves, 1-neighbour worlds",
}
REQUIRED_BUCKETS = {t: ["detect:met", "detect:not-met", "detect:anchoring", "detect:neighbour-in-range-across-origin",
                        "detect:focus-spans-origin", "apply:anchors", "twice-hit-gene"] for t in ("quick", "thorough")}
C1, C2 = 6, 3
N_CHUNKS = 32


def shards(tier):
    out = []
    if tier == "quick":
        plans = [("detect", 1, 2), ("apply", 1, 2), ("detect+dup", 1, 2), ("apply+dup", 1, 2)]
    else:
        plans = [("detect", 1, 3), ("detect", 2, 2), ("apply", 1, 2), ("apply", 2, 2), ("detect+dup", 1, 3), ("apply+dup", 1, 2)]
    for mode, n_nb, leaves in plans:
        for chunk in range(N_CHUNKS):
            out.append([mode, n_nb, leaves, chunk, tier])
    return out


def _hit_objects(hits):
    out = {}
    for g, hs in hits.items():
        if not hs:
            continue
        objs = []
        for p, s in sorted((k, v) for k, v in hs.items() if k[0] not in "<>"):
            if "<" + p in hs:           # a second, weaker hit of the same profile listed before the best one
                objs.append(ProfileHit(g, p, hs["<" + p], 0.1))
            objs.append(ProfileHit(g, p, s, 0.1))
            if ">" + p in hs:           # ... or after it
                objs.append(ProfileHit(g, p, hs[">" + p], 0.1))
        out[g] = objs
    return out


def check_detect(world, hits, tree, cutoff, focus, built=None):
    rec, feats = built or W.build_world(world)
    rule = DetectionRule("r", "cat", cutoff, 0, U.top(tree))
    ref_w = {"hits": hits, "near": W.near_relation(world, cutoff)}
    return _judge_detect(rule, tree, focus, feats, _hit_objects(hits), ref_w, world)


def _judge_detect(rule, tree, focus, feats, hit_objs, ref_w, world):
    try:
        out = rule.detect(focus, feats, hit_objs, circular_origin=world["L"] if world["circ"] else None)
    except Exception as err:  # pylint: disable=broad-except
        return [("detect-raised", repr(err)[:200])], None
    exp_met = rulesem.sem(tree, focus, ref_w)
    fails = []
    if bool(out.met) != exp_met:
        fails.append(("detect-met", f"code={out.met} ref={exp_met}"))
    elif exp_met:
        exp_matches = rulesem.matches(tree, focus, ref_w)
        if set(out.matches) != exp_matches:
            fails.append(("detect-reasons", f"code={sorted(out.matches)} ref={sorted(exp_matches)}"))
    return fails, out


def check_apply(world, hits, tree, cutoffs, built=None):
    rec, feats = built or W.build_world(world)
    rules = [DetectionRule(f"r{i}", "cat", c, 0, U.top(tree)) for i, c in enumerate(cutoffs)]
    nears = {c: W.near_relation(world, c) for c in set(cutoffs)}
    return _judge_apply(rec, rules, tree, cutoffs, hits, _hit_objects(hits), nears, world)


def _judge_apply(rec, rules, tree, cutoffs, hits, hit_objs, nears, world):
    try:
        domains, type_hits = apply_cluster_rules(rec, hit_objs, rules)
    except Exception as err:  # pylint: disable=broad-except
        return [("apply-raised", repr(err)[:200])], 0, 0
    fails = []
    profs = U.profiles(tree)
    n_anchor = n_anc = 0
    for i, (rule, cutoff) in enumerate(zip(rules, cutoffs)):
        ref_w = {"hits": hits, "near": nears[cutoff]}
        genes_with_hits = [g for g, hs in hits.items() if hs]
        expected = {g for g in genes_with_hits if rulesem.anchors(tree, g, ref_w)}
        reported = set(type_hits.get(rule.name, set()))
        n_anchor += len(expected)
        if expected - reported:
            fails.append((f"apply-missing-anchor@{i}", f"missing={sorted(expected - reported)} reported={sorted(reported)}"))
        for extra in reported - expected:
            ok = bool(profs & set(hits.get(extra, {}))) and any(extra in nears[cutoff][a] for a in expected)
            n_anc += 1
            if not ok:
                fails.append((f"apply-spurious-anchor@{i}", f"{extra} reported, anchors={sorted(expected)}"))
        for g in expected & reported:
            got = set(domains.get(g, {}).get(rule.name, set()))
            low = rulesem.matches(tree, g, ref_w)
            high = profs & set(hits[g])
            if not low <= got <= high:
                fails.append((f"apply-reasons@{i}", f"{g}: code={sorted(got)} need>={sorted(low)} allowed<={sorted(high)}"))
    return fails, n_anchor, n_anc


def run_shard(shard):
    mode, n_nb, leaves, chunk = shard[:4]
    dup = mode.endswith("+dup")      # genes hit twice by the same profile (one strong, one weak hit, in both list orders)
    mode = mode.split("+")[0]
    res = Result()
    trees = U.trees(leaves)
    if leaves >= 2:
        trees = trees + U.cds_groups_with_score()      # (only here: the grammar reference of C02 does not describe them)
    cutoffs = (C1,) if mode == "detect" else (C1, C2)
    all_worlds = list(W.worlds(n_nb, cutoffs))
    tier_quick = len(shard) > 4 and shard[4] == "quick"
    if n_nb == 1:
        menus = [W.HIT_MENU_FULL, W.HIT_MENU_SMALL if tier_quick else W.HIT_MENU_FULL]
        if mode == "apply" and tier_quick:
            menus = [W.HIT_MENU_SMALL, W.HIT_MENU_SMALL]
    else:
        menus = [W.HIT_MENU_SMALL] * (n_nb + 1)
    if dup:
        menus = [W.HIT_MENU_SMALL + W.HIT_MENU_DUP] * (n_nb + 1)
    rules = [DetectionRule("r", "cat", C1, 0, U.top(t)) for t in trees] if mode == "detect" else None
    rule_sets = [[DetectionRule(f"r{i}", "cat", c, 0, U.top(t)) for i, c in enumerate((C1, C2, C1))] for t in trees] \
        if mode == "apply" else None
    for wi, world in enumerate(all_worlds):
        if wi % N_CHUNKS != chunk:
            continue
        built = W.build_world(world)
        rec, feats = built
        names = [g for g, _ in world["genes"]]
        nears = {c: W.near_relation(world, c) for c in set(cutoffs)}
        focus_bridges = len(feats["g"].location.parts) > 1
        sets = {n: R.bases(feats[n].location) for n in names}
        across = bool(world["circ"] and not focus_bridges and any(
            R.distance(sets["g"], sets[h], world["L"], False) >= C1 for h in nears[C1]["g"]))
        for combo in itertools.product(*menus):
            hits = dict(zip(names, combo))
            if not any(combo):
                continue
            if dup and not any(h in W.HIT_MENU_DUP for h in combo):
                continue
            if dup:
                res.buckets["twice-hit-gene"] += 1
            hit_objs = _hit_objects(hits)
            nontrivial = any(combo[1:])
            if mode == "detect":
                ref_w = {"hits": hits, "near": nears[C1]}
                for tree, rule in zip(trees, rules):
                    for focus in names:
                        if not hits[focus]:
                            continue
                        res.evals += 1
                        res.nontrivial += nontrivial
                        fails, out = _judge_detect(rule, tree, focus, feats, hit_objs, ref_w, world)
                        if out is not None and not fails:
                            met = bool(out.met)
                            res.buckets["detect:met" if met else "detect:not-met"] += 1
                            if met and out.matches:
                                res.buckets["detect:anchoring"] += 1
                            if focus == "g" and focus_bridges:
                                res.buckets["detect:focus-spans-origin"] += 1
                            if focus == "g" and across:
                                res.buckets["detect:neighbour-in-range-across-origin"] += 1
                            res.outcomes[(met, len(out.matches))] += 1
                        if fails or res.evals % 200003 == 1:
                            case = {"mode": "detect", "world": world, "hits": hits, "tree": tree, "cutoff": C1, "focus": focus}
                            for clause, detail in fails:
                                res.fail(case, clause, detail)
                            res.sample(case)
            else:
                for tree, rset in zip(trees, rule_sets):
                    res.evals += 1
                    res.nontrivial += nontrivial
                    fails, n_anchor, n_anc = _judge_apply(rec, rset, tree, (C1, C2, C1), hits, hit_objs, nears, world)
                    res.buckets["apply:anchors"] += n_anchor
                    res.buckets["apply:ancillary"] += n_anc
                    res.outcomes[("apply", min(n_anchor, 4), min(n_anc, 3))] += 1
                    if fails or res.evals % 50021 == 1:
                        case = {"mode": "apply", "world": world, "hits": hits, "tree": tree, "cutoffs": [C1, C2, C1]}
                        for clause, detail in fails:
                            res.fail(case, clause, detail)
                        res.sample(case)
    return res


def replay(case):
    if case["mode"] == "detect":
        fails, _ = check_detect(case["world"], case["hits"], case["tree"], case["cutoff"], case["focus"])
        return fails
    fails, _, _ = check_apply(case["world"], case["hits"], case["tree"], case["cutoffs"])
    return fails
