"""C20 A failed or refused write never damages existing results (fault enumeration).

Part 1: AntismashResults.write_to_file and dump_records(handle=path) with 1-3 records x 0-3 module results; a fault of
every kind is injected at EVERY conversion index (and none), against every pre-existing file state; bytes and mtime of
the file on disk are compared before/after.
Part 2: prepare_output_directory with every subset of an 8-entry directory menu x run mode x directory state.
"""
import hashlib
import itertools
import json as stdjson
import os
import shutil
import tempfile

from Bio.Seq import Seq

from antismash.common import serialiser
from antismash.common.errors import AntismashInputError
from antismash.common.module_results import ModuleResults
from antismash.common.secmet import Record
from antismash.common.secmet.features import CDSFeature
from antismash.common.secmet.locations import FeatureLocation as F
from antismash.config import update_config
from antismash import main as as_main

from mc.engine.core import Result
from mc.universe import config as Cfg

ID = "C20"
LEVEL = "fault_enumeration"
RULE = ("write cases = (writer in {AntismashResults.write_to_file, dump_records}, #records 1-3, #module results per record 0-3, fault kind, "
        "fault position = (record index, module index) over every conversion, pre-existing file state in {absent, present}); one fault-free "
        "case per shape; directory cases = (subset of 8 menu entries, run mode in {fresh, reuse}, state in {absent, present, path is a file}); "
        "non-trivial = a fault is injected / the directory is non-empty; distinct by construction")
ASSUMPTIONS = [
    "faults are injected through ModuleResults subclasses supplied by the harness (to_json raising TypeError/ValueError/KeyError, returning a "
    "set, returning an object whose own to_json raises) and through a results entry that is not a ModuleResults at all",
    "hidden (dot) directory entries are in the alphabet; that they are not seen is open finding C20-F1",
    "the full pipeline cannot run here (HMM data emptied); the ordering claim is covered at the level of the two functions it calls",
]
BOUNDS = {"quick": "1-2 records x 0-2 modules", "thorough": "1-4 records x 0-4 modules"}
REQUIRED_BUCKETS = {t: ["write:fault-injected", "write:clean", "write:existing-file", "dir:refused", "dir:accepted", "dir:reuse-removed-region-files",
                        "dir:created"] for t in ("quick", "thorough")}
FAULTS = ["TypeError", "ValueError", "KeyError", "returns-set", "nested-to_json-raises", "not-module-results"]
OLD_BYTES = b'{"old": "results that must survive"}\n'


class GoodResults(ModuleResults):
    def __init__(self, record_id, payload):
        super().__init__(record_id)
        self.payload = payload

    def to_json(self):
        return {"record_id": self.record_id, "payload": self.payload, "schema_version": 1}

    def add_to_record(self, record):
        pass

    @staticmethod
    def from_json(data, record):
        return GoodResults(data["record_id"], data["payload"])


class _Inner:
    def to_json(self):
        raise RuntimeError("nested conversion failed")


class FaultyResults(GoodResults):
    def __init__(self, record_id, kind):
        super().__init__(record_id, kind)
        self.kind = kind

    def to_json(self):
        if self.kind == "TypeError":
            raise TypeError("injected")
        if self.kind == "ValueError":
            raise ValueError("injected")
        if self.kind == "KeyError":
            raise KeyError("injected")
        if self.kind == "returns-set":
            return {"record_id": self.record_id, "bad": {1, 2, 3}}
        if self.kind == "nested-to_json-raises":
            return {"record_id": self.record_id, "bad": _Inner()}
        raise AssertionError(self.kind)


def make_record(index):
    rec = Record(Seq("ATGAAACCCGGGTTTTAA" * 2))
    rec.id = rec.name = f"rec{index}"
    rec.add_annotation("topology", "linear")
    rec.add_annotation("molecule_type", "DNA")
    rec.add_cds_feature(CDSFeature(F(0, 18, 1), "MKPGF", locus_tag=f"gene{index}"))
    return rec


def build_results(n_records, n_modules, fault=None):
    """fault = (kind, record index, module index) or None"""
    records = [make_record(i) for i in range(n_records)]
    results = []
    for i in range(n_records):
        mods = {}
        for j in range(n_modules):
            name = f"antismash.modules.fake{j}"
            if fault and (i, j) == (fault[1], fault[2]):
                if fault[0] == "not-module-results":
                    mods[name] = object()
                else:
                    mods[name] = FaultyResults(records[i].id, fault[0])
            else:
                mods[name] = GoodResults(records[i].id, [i, j, "x"])
        results.append(mods)
    return records, results


def _state(path):
    if not os.path.exists(path):
        return None
    with open(path, "rb") as handle:
        data = handle.read()
    return (hashlib.sha256(data).hexdigest(), os.stat(path).st_mtime_ns, len(data))


def check_write(writer, n_records, n_modules, fault, existing):
    tmp = tempfile.mkdtemp(prefix="c20_")
    try:
        path = os.path.join(tmp, "results.json")
        if existing:
            with open(path, "wb") as handle:
                handle.write(OLD_BYTES)
            os.utime(path, ns=(1_000_000_000, 1_000_000_000))
        before = _state(path)
        records, results = build_results(n_records, n_modules, fault)
        raised = None
        try:
            if writer == "write_to_file":
                bundle = serialiser.AntismashResults("input.gbk", records, results, "test-version")
                bundle.write_to_file(path)
            else:
                serialiser.dump_records(results, records, handle=path)
        except Exception as err:  # pylint: disable=broad-except
            raised = err
        after = _state(path)
        fails = []
        if fault:
            if raised is None:
                fails.append(("fault-not-reported", f"{fault} went unnoticed"))
            if existing and after != before:
                fails.append(("existing-file-damaged", f"before={before} after={after}"))
        else:
            if raised is not None:
                fails.append(("clean-write-raised", repr(raised)[:150]))
            elif after is None:
                fails.append(("clean-write-no-file", ""))
            else:
                with open(path, "rb") as handle:
                    try:
                        loaded = stdjson.loads(handle.read())
                    except ValueError as err:
                        loaded = None
                        fails.append(("written-file-not-json", repr(err)[:100]))
                if loaded is not None:
                    recs = loaded["records"] if writer == "write_to_file" else loaded
                    if len(recs) != n_records or any(len(r["modules"]) != n_modules for r in recs):
                        fails.append(("written-file-incomplete", f"{len(recs)} records"))
                    elif any(r["modules"][f"antismash.modules.fake{j}"]["payload"] != [i, j, "x"]
                             for i, r in enumerate(recs) for j in range(n_modules)):
                        fails.append(("written-file-wrong-content", ""))
        return fails, (after is not None and before is None and fault is not None)
    finally:
        shutil.rmtree(tmp, ignore_errors=True)


# ---------------------------------------------------------------- directory part

DIR_MENU = ["input/", "input", "run.log", "other.log", "x.json", "x.region001.gbk", "index.html", "empty/", ".hidden"]


def _listing(root):
    out = {}
    for base, dirs, files in os.walk(root):
        for d in dirs:
            out[os.path.relpath(os.path.join(base, d), root) + "/"] = None
        for f in files:
            full = os.path.join(base, f)
            with open(full, "rb") as handle:
                out[os.path.relpath(full, root)] = hashlib.sha256(handle.read()).hexdigest()
    return out


def check_directory(subset, mode, state, variant="plain"):
    """variant: 'plain'; 'glob-name' (the directory is called out[1] and a sibling out1 holds files of its own);
    'json-outside' (reuse mode with the results file in another directory); 'no-logfile' (no log file configured and the
    process started from a sub-directory of the output directory)"""
    tmp = tempfile.mkdtemp(prefix="c20d_")
    old_cwd = os.getcwd()
    try:
        name = os.path.join(tmp, "out[1]" if variant == "glob-name" else "out")
        entries = [DIR_MENU[i] for i in subset]
        if "input/" in entries and "input" in entries:
            return None, None      # a name cannot be both a file and a directory
        if variant != "plain" and state != "present":
            return None, None
        if variant == "json-outside" and mode != "reuse":
            return None, None
        if variant == "no-logfile" and ("empty/" not in entries or "run.log" in entries):
            return None, None      # the process sits in the sub-directory 'empty'; no log file is configured
        sibling = os.path.join(tmp, "out1")
        if variant == "glob-name":
            os.mkdir(sibling)
            for entry in ("x.region001.gbk", "notes.txt"):
                with open(os.path.join(sibling, entry), "w", encoding="utf-8") as handle:
                    handle.write("sibling " + entry)
        if state == "present":
            os.mkdir(name)
            for entry in entries:
                if entry.endswith("/"):
                    os.mkdir(os.path.join(name, entry[:-1]))
                    if entry == "input/":
                        with open(os.path.join(name, "input", "seq.gbk"), "w", encoding="utf-8") as handle:
                            handle.write("copy of input")
                else:
                    with open(os.path.join(name, entry), "w", encoding="utf-8") as handle:
                        handle.write("content of " + entry)
        elif state == "file":
            with open(name, "w", encoding="utf-8") as handle:
                handle.write("not a directory")
        Cfg.make_config()
        logfile = "" if variant == "no-logfile" else os.path.join(name, "run.log")
        update_config({"output_dir": name, "logfile": logfile, "output_basename": ""})
        if variant == "no-logfile":
            os.chdir(os.path.join(name, "empty"))
        elsewhere = os.path.join(tmp, "previous")
        if variant == "json-outside":
            os.mkdir(elsewhere)
            with open(os.path.join(elsewhere, "x.json"), "w", encoding="utf-8") as handle:
                handle.write("{}")
        if mode == "fresh":
            input_file = "/data/x.gbk"
        else:
            input_file = os.path.join(elsewhere if variant == "json-outside" else name, "x.json")
        before = _listing(name) if os.path.isdir(name) else ("file" if os.path.exists(name) else None)
        sibling_before = _listing(sibling) if os.path.isdir(sibling) else None
        raised = None
        try:
            as_main.prepare_output_directory(name, input_file)
        except AntismashInputError as err:
            raised = err
        except Exception as err:  # pylint: disable=broad-except
            return [("prepare-raised-unexpected", f"{type(err).__name__}: {str(err)[:120]}")], "error"
        finally:
            os.chdir(old_cwd)
        after = _listing(name) if os.path.isdir(name) else ("file" if os.path.exists(name) else None)
        fails = []
        if sibling_before is not None and _listing(sibling) != sibling_before:
            fails.append(("other-directory-damaged", f"removed from the sibling directory: {sorted(set(sibling_before) - set(_listing(sibling)))}"))
        outcome = "accepted"
        if state == "absent":
            if raised or not os.path.isdir(name):
                fails.append(("missing-directory-not-created", repr(raised)))
            outcome = "created"
        elif state == "file":
            if not raised:
                fails.append(("file-as-directory-accepted", ""))
            if after != before:
                fails.append(("file-damaged", ""))
            outcome = "refused"
        else:
            own = ("input/", "run.log") if variant != "no-logfile" else ("input/",)
            foreign = [e for e in entries if e not in own]
            # results being reused are the previous results in the output directory itself; with the results file somewhere
            # else the directory's content is foreign to the run, exactly as for a fresh input
            judged_fresh = mode == "fresh" or variant == "json-outside"
            if judged_fresh:
                if foreign:
                    outcome = "refused"
                    if not raised:
                        fails.append(("foreign-content-accepted", f"{foreign}"))
                    if after != before:
                        fails.append(("refused-directory-changed", f"removed={sorted(set(before) - set(after))}"))
                else:
                    if raised:
                        fails.append(("own-content-refused", f"{entries}: {raised}"))
                    if after != before and mode == "fresh":
                        fails.append(("accepted-directory-changed", f"{sorted(set(before) - set(after))}"))
            else:
                if raised:
                    fails.append(("reuse-refused", repr(raised)[:100]))
                removed = set(before) - set(after)
                changed = {k for k in before if k in after and before[k] != after[k]}
                allowed = {"x.region001.gbk"}
                if not removed <= allowed or changed or set(after) - set(before):
                    fails.append(("reuse-damaged-directory", f"removed={sorted(removed)} changed={sorted(changed)}"))
                if mode == "reuse" and "x.region001.gbk" in before and "x.region001.gbk" in after:
                    fails.append(("reuse-left-stale-region-file", ""))
                if removed:
                    outcome = "reuse-removed"
        return fails, outcome
    finally:
        os.chdir(old_cwd)
        shutil.rmtree(tmp, ignore_errors=True)


DIR_VARIANTS = ("plain", "glob-name", "json-outside", "no-logfile")


def shards(tier):
    max_records, max_modules = (2, 2) if tier == "quick" else (4, 4)
    out = []
    for writer in ("write_to_file", "dump_records"):
        for n_records in range(1, max_records + 1):
            out.append(["write", writer, n_records, max_modules])
    for chunk in range(8):
        out.append(["dir", chunk])
    return out


def run_shard(shard):
    res = Result()
    if shard[0] == "write":
        _, writer, n_records, max_modules = shard
        for n_modules in range(0, max_modules + 1):
            for existing in (False, True):
                positions = [None] + [(k, i, j) for k in FAULTS for i in range(n_records) for j in range(n_modules)]
                for fault in positions:
                    res.evals += 1
                    res.nontrivial += fault is not None
                    fails, created = check_write(writer, n_records, n_modules, fault, existing)
                    res.buckets["write:fault-injected" if fault else "write:clean"] += 1
                    if existing:
                        res.buckets["write:existing-file"] += 1
                    if created:
                        res.buckets["write:file-created-despite-failure"] += 1
                    res.outcomes[(writer, fault[0] if fault else "none", existing, tuple(sorted(c for c, _ in fails)))] += 1
                    if fails or res.evals % 37 == 1:
                        case = {"kind": "write", "writer": writer, "records": n_records, "modules": n_modules,
                                "fault": list(fault) if fault else None, "existing": existing}
                        for clause, detail in fails:
                            res.fail(case, clause, detail)
                        res.sample(case)
    else:
        _, chunk = shard
        index = 0
        for size in range(len(DIR_MENU) + 1):
            for subset in itertools.combinations(range(len(DIR_MENU)), size):
                for mode, state, variant in itertools.product(("fresh", "reuse"), (("present",) if subset else ("present", "absent", "file")),
                                                              DIR_VARIANTS):
                    if True:    # pylint: disable=using-constant-test
                        index += 1
                        if index % 8 != chunk:
                            continue
                        fails, outcome = check_directory(subset, mode, state, variant)
                        if fails is None:
                            continue
                        res.buckets[f"dir:variant:{variant}"] += 1
                        res.evals += 1
                        res.nontrivial += bool(subset)
                        res.buckets[{"refused": "dir:refused", "accepted": "dir:accepted", "created": "dir:created",
                                     "reuse-removed": "dir:reuse-removed-region-files"}.get(outcome, "dir:error")] += 1
                        res.outcomes[("dir", mode, state, outcome, tuple(sorted(c for c, _ in fails)))] += 1
                        if fails or res.evals % 53 == 1:
                            case = {"kind": "dir", "subset": list(subset), "mode": mode, "state": state}
                            if variant != "plain":
                                case["variant"] = variant
                            for clause, detail in fails:
                                res.fail(case, clause, detail)
                            res.sample(case)
    return res


def replay(case):
    if case["kind"] == "write":
        fault = tuple(case["fault"]) if case["fault"] else None
        return check_write(case["writer"], case["records"], case["modules"], fault, case["existing"])[0]
    return check_directory(tuple(case["subset"]), case["mode"], case["state"], case.get("variant", "plain"))[0] or []
