"""C03 Protoclusters are the maximal cutoff-chains of a rule's anchoring genes.

Gene layouts (every start position on tiny lines/rings, incl. origin-spanning genes) x hit tables x ruleset
families (chain, condition menu, mixed cutoffs c2,c1,c2, SUPERIORS, EXTENDERS) through the real
detect_protoclusters_and_signatures (dynamic profiles with fixed hit tables, no HMMER), judged in set-of-bases terms.
"""
import itertools

from antismash.common.hmm_rule_parser import cluster_prediction, rule_parser
from antismash.common.hmm_rule_parser.structures import DynamicHit, DynamicProfile

from mc.engine.core import Result
from mc.ref import bases as R
from mc.ref import rulesem
from mc.universe import worlds as W
from mc.universe.loc import enc, ring_loc

ID = "C03"
LEVEL = "exploration"
RULE = ("cases = (topology, L, gene start positions (length-3 genes, every position incl. origin-spanning), hit table, ruleset family + "
        "parameters); families: chain(c,n), condition menu, mixed cutoffs (5,2,5), superiors, extenders; non-trivial = at least two "
        "anchoring genes; distinct by construction")
ASSUMPTIONS = [
    "small-scope: only the order relations between gaps, cutoff, neighbourhood and L matter; L in {13,16} with c in {2,3,5}, n in {0,1,4} covers gap<c, =c, >c, wrap, whole-ring",
    "ring cores: exact shortest arc only when shorter than L/2 (C04's promise); extents: exact only when core+2n < L",
    "ancillary genes may be added to the anchoring set (pinned by test_ancillary_on_cutoff_boundary)",
    "superiors: judged only in the two unambiguous directions (superior core contains inferior core -> dropped; no shared core gene span -> kept)",
]
BOUNDS = {
    "quick": "L=13 (ring and line), <=3 genes; chain c in {2,3,5} x n in {0,1,4}; other families <=3 genes with reduced hit menus",
    "thorough": "L in {13,16}, <=3 genes all families with full hit menus; chain family <=4 genes",
}
REQUIRED_BUCKETS = {t: ["chain-across-origin", "origin-spanning-anchor", "two-protoclusters-one-rule", "superior-dropped", "superior-kept",
                        "extender-admitted", "extent-wrapped", "extent-clipped"] for t in ("quick", "thorough")}
N_CHUNKS = 16

# ruleset families: list of (name, cutoff, neighbourhood, condition AST, superiors, extender AST)
ID_A = ["id", False, "a"]
ID_B = ["id", False, "b"]
TOP = lambda x: ["or", False, [x]]  # noqa: E731
COND_MENU = {
    "a-and-b": ["and", [ID_A, ID_B]],
    "cds-a-and-b": ["cds", False, ["and", [ID_A, ID_B]]],
    "min2": ["min", False, 2, ["a", "b"]],
    "a-not-b": ["and", [ID_A, ["id", True, "b"]]],
}


def families(tier):
    out = []
    for c in (2, 3, 5):
        for n in (0, 1, 4):
            out.append((f"chain-{c}-{n}", [("r1", c, n, ID_A, [], None)], "all-a"))
    for name, tree in COND_MENU.items():
        out.append((f"cond-{name}", [("r1", 3, 1, tree, [], None)], "ab"))
    out.append(("mixed", [("r1", 5, 1, ID_A, [], None), ("r2", 2, 0, ID_B, [], None), ("r3", 5, 0, ["and", [ID_A, ID_B]], [], None)], "ab"))
    out.append(("superiors", [("r1", 3, 1, ID_A, [], None), ("r2", 5, 0, ID_B, ["r1"], None)], "ab"))
    out.append(("extenders", [("r1", 3, 1, ID_A, [], ID_B)], "ab"))
    # a three level hierarchy (superiors listed transitively closed, as the parser produces them)
    out.append(("superiors3", [("top", 3, 1, ID_A, [], None), ("mid", 3, 0, ID_B, ["top"], None),
                               ("low", 3, 0, ["id", False, "c"], ["mid", "top"], None)], "abc-gapwords"))
    return out


def extender_ring_layouts(tier):
    """six genes round a ring (cutoff 3): gaps inside / at / beyond the cutoff, three anchoring genes (a) and three extender-only
    genes (b) in every arrangement, the origin placed in every gap and inside the first gene - several cores that only the
    extender genes connect, also across the origin"""
    glen = W.GENE_LEN
    L = 48
    arrangements = [combo for combo in itertools.combinations(range(6), 3)]
    for gaps in itertools.product((1, 3, 5), repeat=5):
        closing = L - 6 * glen - sum(gaps)
        if closing < 1:
            continue
        starts = [0]
        for gap in gaps:
            starts.append(starts[-1] + glen + gap)
        origins = [starts[i] + glen + (list(gaps) + [closing])[i] // 2 for i in range(6)] + [1]
        if tier == "quick":
            origins = origins[::2]
        for anchors in arrangements:
            hits = {f"g{i}": ({"a": 7} if i in anchors else {"b": 7}) for i in range(6)}
            for origin in origins:
                genes = [[f"g{i}", enc(ring_loc((s - origin) % L, glen, L, 1 if i % 2 == 0 else -1))] for i, s in enumerate(starts)]
                yield {"L": L, "circ": True, "genes": genes}, hits


HITS_ABC = [{}, {"a": 7}, {"b": 7}, {"c": 7}, {"a": 7, "b": 7}, {"b": 7, "c": 7}, {"a": 7, "c": 7}]


def gapword_layouts(circular, tier):
    """four genes in a row, consecutive gaps inside (1) or outside (3) the cutoff of 3; on the
    ring the row is also placed so that it crosses the origin"""
    glen = W.GENE_LEN
    L = 40
    for gaps in itertools.product((1, 3), repeat=3):
        firsts = [3] if not circular else [3, L - glen - 2, L - 2 * glen - gaps[0] - 1]
        for first in firsts:
            starts = [first]
            for gap in gaps:
                starts.append(starts[-1] + glen + gap)
            genes = [[f"g{i}", enc(ring_loc(s % L if circular else s, glen, L, 1 if i % 2 == 0 else -1))] for i, s in enumerate(starts)]
            yield {"L": L, "circ": circular, "genes": genes}


HITS_AB_FULL = [{}, {"a": 7}, {"b": 7}, {"a": 7, "b": 7}]
HITS_AB_SMALL = [{"a": 7}, {"b": 7}, {"a": 7, "b": 7}]


def layouts(L, circular, k):
    starts = range(L) if circular else range(L - W.GENE_LEN + 1)
    for size in range(1, k + 1):
        for combo in itertools.combinations(starts, size):
            genes = [[f"g{i}", enc(ring_loc(s, W.GENE_LEN, L, 1 if i % 2 == 0 else -1))] for i, s in enumerate(combo)]
            yield {"L": L, "circ": circular, "genes": genes}


def shards(tier):
    out = []
    lengths = (13,) if tier == "quick" else (13, 16)
    for circ in (False, True):
        for chunk in range(N_CHUNKS):
            out.append([40, circ, "superiors3", 4, chunk, N_CHUNKS, tier])
    for chunk in range(N_CHUNKS):
        out.append([48, True, "extenders-ring", 6, chunk, N_CHUNKS, tier])
    for L in lengths:
        for circ in (False, True):
            for fam, _, mode in families(tier):
                if mode == "abc-gapwords":
                    continue
                k = 4 if (tier == "thorough" and fam.startswith("chain") and L == 13) else 3
                nchunks = N_CHUNKS if not fam.startswith("chain") or k == 4 else 2
                for chunk in range(nchunks):
                    out.append([L, circ, fam, k, chunk, nchunks, tier])
    return out


def make_ruleset(rules_spec, hits, multipliers=None, equivalence_groups=()):
    profiles = sorted({"a", "b"} | {p for table in hits.values() for p in table})

    def mk(profile):
        def detect(_record, _hmmer_hits):
            return {gene: [DynamicHit(gene, profile, bitscore=hs[profile])] for gene, hs in hits.items() if profile in hs}
        return DynamicProfile(profile, "desc " + profile, detect)
    dyn = {p: mk(p) for p in profiles}
    from mc.universe import rules as U  # pylint: disable=import-outside-toplevel
    rules = []
    for name, cutoff, neigh, tree, superiors, extender in rules_spec:
        ext = None
        if extender is not None:
            ext = U.build(extender)
        rules.append(rule_parser.DetectionRule(name, "cat", cutoff, neigh, U.top(tree), superiors=list(superiors), extenders=ext))
    extra = {"multipliers": multipliers} if multipliers is not None else {}
    return cluster_prediction.Ruleset(tuple(rules), {}, "", {"cat"}, "tool", dynamic_profiles=dyn, equivalence_groups=[set(group) for group in equivalence_groups], **extra)


def components(names, sets, cutoff, L, circular):
    names = list(names)
    parent = {n: n for n in names}

    def find(x):
        while parent[x] != x:
            x = parent[x]
        return x
    for i, a in enumerate(names):
        for b in names[i + 1:]:
            if R.distance(sets[a], sets[b], L, circular) < cutoff:
                parent[find(a)] = find(b)
    groups = {}
    for n in names:
        groups.setdefault(find(n), set()).add(n)
    return [frozenset(g) for g in groups.values()]


def check_case(world, hits, rules_spec, stats=None):
    """-> list of (clause, detail)"""
    L, circ = world["L"], world["circ"]
    rec, feats = W.build_world(world)
    sets = {name: R.bases(f.location) for name, f in feats.items()}
    ruleset = make_ruleset(rules_spec, hits)
    try:
        results = cluster_prediction.detect_protoclusters_and_signatures(rec, ruleset)
        protos = list(results.protoclusters)
    except Exception as err:  # pylint: disable=broad-except
        return [("detect-raised", f"{type(err).__name__}: {str(err)[:150]}")]
    # anchoring sets as the pipeline computes them
    hit_objs = {g: [DynamicHit(g, p, bitscore=s) for p, s in sorted(hs.items())] for g, hs in hits.items() if hs}
    try:
        _, type_hits = cluster_prediction.apply_cluster_rules(rec, hit_objs, ruleset.rules)
    except Exception as err:  # pylint: disable=broad-except
        return [("apply-raised", f"{type(err).__name__}: {str(err)[:150]}")]
    fails = []
    protos_by_rule = {}
    for proto in protos:
        protos_by_rule.setdefault(proto.product, []).append(proto)
    by_name = {spec[0]: spec for spec in rules_spec}
    # the clusters every rule forms on its own (reference semantics, before any removal of inferiors): a superior's cluster
    # counts for the SUPERIORS clause whether or not it is itself removed as inferior to a third rule
    ref_cores = {}
    for name, cutoff, neigh, tree, superiors, extender in rules_spec:
        near = W.near_relation(world, cutoff)
        ref_w = {"hits": {g: hits.get(g, {}) for g in feats}, "near": near}
        own = {g for g in feats if hits.get(g) and rulesem.anchors(tree, g, ref_w)} | set(type_hits.get(name, set()))
        groups = components(own, sets, cutoff, L, circ) if own else []
        if extender is not None and groups:
            groups = _merge_groups_through_extenders(groups, feats, sets, hits, extender, cutoff, L, circ)
        ref_cores[name] = [_expected_core(frozenset().union(*[sets[g] for g in group]), L, circ) for group in groups]
    for name, cutoff, neigh, tree, superiors, extender in rules_spec:
        near = W.near_relation(world, cutoff)
        ref_w = {"hits": {g: hits.get(g, {}) for g in feats}, "near": near}
        true_anchors = {g for g in feats if hits.get(g) and rulesem.anchors(tree, g, ref_w)}
        reported = set(type_hits.get(name, set()))
        profs = _profiles(tree)
        # (1) anchors
        if true_anchors - reported:
            fails.append((f"anchors-missing:{name}", f"{sorted(true_anchors - reported)}"))
            continue
        bad_extra = [e for e in reported - true_anchors
                     if not (profs & set(hits.get(e, {}))) or not any(e in near[a] for a in true_anchors)]
        if bad_extra:
            fails.append((f"anchors-spurious:{name}", f"{bad_extra}"))
            continue
        anchors = reported
        mine = protos_by_rule.get(name, [])
        if not anchors:
            if mine:
                fails.append((f"protocluster-without-anchor:{name}", f"{[str(p.core_location) for p in mine]}"))
            continue
        if stats is not None:
            if any(len(feats[a].location.parts) > 1 for a in anchors):
                stats["origin-spanning-anchor"] += 1
        groups = components(anchors, sets, cutoff, L, circ)
        if extender is not None:
            groups = _merge_groups_through_extenders(groups, feats, sets, hits, extender, cutoff, L, circ)
        cores = [R.bases(p.core_location) for p in mine]
        # every core must be well-formed
        for p in mine:
            for loc, label in ((p.core_location, "core"), (p.location, "extent")):
                why = R.well_formed_span(loc, L)
                if why:
                    fails.append((f"{label}-wellformed:{name}", f"{why}: {loc}"))
        if any(c.startswith(("core-wellformed", "extent-wellformed")) for c, _ in fails):
            continue
        # superiors: decide which groups may / must be dropped
        sup_cores = [core for s in superiors for core in ref_cores.get(s, [])]
        sup_core_genes = [{g for g in feats if sets[g] <= sc} for sc in sup_cores]
        used = set()
        for group in groups:
            union = frozenset().union(*[sets[g] for g in group])
            holders = [i for i, cb in enumerate(cores) if any(sets[g] <= cb for g in group)]
            if len(holders) > 1:
                fails.append((f"group-split:{name}", f"group {sorted(group)} spread over cores {[str(mine[i].core_location) for i in holders]}"))
                continue
            if not holders:
                # allowed only if a superior removed it
                if not superiors:
                    fails.append((f"group-without-protocluster:{name}", f"{sorted(group)}"))
                else:
                    exp_core = _expected_core(union, L, circ)
                    candidates = [exp_core]
                    if circ and 2 * len(exp_core) >= L:
                        # the span may legitimately be the linear hull instead (C04's promise)
                        candidates.append(frozenset(range(min(union), max(union) + 1)))
                    shares = any(any(sets[g] & cand for g in scg) for scg in sup_core_genes for cand in candidates)
                    if not shares:
                        fails.append((f"superior-dropped-unrelated:{name}", f"{sorted(group)}"))
                    elif stats is not None:
                        stats["superior-dropped"] += 1
                continue
            idx = holders[0]
            if idx in used:
                fails.append((f"groups-merged:{name}", f"core {mine[idx].core_location} holds several groups incl. {sorted(group)}"))
                continue
            used.add(idx)
            core = cores[idx]
            members = {g for g in anchors if sets[g] <= core}
            if members != set(group):
                fails.append((f"core-members:{name}", f"core {mine[idx].core_location} holds anchors {sorted(members)} expected {sorted(group)}"))
                continue
            if superiors:
                if any(core <= sc for sc in sup_cores):
                    fails.append((f"superior-not-applied:{name}", f"{mine[idx].core_location} inside a superior core"))
                elif stats is not None:
                    stats["superior-kept"] += 1
            # (3) core span
            admitted = set()
            if extender is not None:
                admitted = _admitted_extenders(union, feats, sets, hits, extender, cutoff, L, circ)
                if admitted and stats is not None:
                    stats["extender-admitted"] += 1
            target = union | frozenset().union(*[sets[g] for g in admitted]) if admitted else union
            exp = _expected_core(target, L, circ)
            strict = (not circ) or 2 * len(exp) < L
            if strict and core != exp:
                fails.append((f"core-span:{name}", f"{mine[idx].core_location} expected bases {_fmt(exp)}"))
                continue
            if not strict and not target <= core:
                fails.append((f"core-span:{name}", f"{mine[idx].core_location} does not cover its group"))
                continue
            if stats is not None and circ and 0 in core and L - 1 in core and len(core) < L and len(group) > 1:
                stats["chain-across-origin"] += 1
            # (4) extent
            extent = R.bases(mine[idx].location)
            if len(core) + 2 * neigh < L or not circ:
                want = R.within(core, neigh, L, circ)
                if extent != want:
                    fails.append((f"extent:{name}", f"core {mine[idx].core_location} n={neigh} extent {mine[idx].location}"))
                elif stats is not None:
                    if circ and (min(core) - neigh < 0 or max(core) + neigh >= L) and len(extent) < L:
                        stats["extent-wrapped"] += 1
                    if not circ and (min(core) - neigh < 0 or max(core) + neigh >= L):
                        stats["extent-clipped"] += 1
            else:
                if not core <= extent or len(extent) < L - 1:
                    fails.append((f"extent-degenerate:{name}", f"core {mine[idx].core_location} extent {mine[idx].location}"))
        for i, p in enumerate(mine):
            if i not in used and not any(c.endswith(f":{name}") for c, _ in fails):
                fails.append((f"protocluster-without-group:{name}", f"{p.core_location}"))
        if stats is not None and len(used) > 1:
            stats["two-protoclusters-one-rule"] += 1
    return fails


def _fmt(bases):
    return sorted(bases)


def _profiles(tree):
    from mc.universe import rules as U  # pylint: disable=import-outside-toplevel
    return U.profiles(tree)


def _expected_core(union, L, circ):
    if not circ:
        return frozenset(range(min(union), max(union) + 1))
    return R.shortest_arc(union, L)


def _admitted_extenders(union, feats, sets, hits, extender, cutoff, L, circ):
    """closure: genes satisfying the extender condition on their own, not inside the current core span,
    within <= cutoff of the current core span"""
    core = _expected_core(union, L, circ)
    admitted = set()
    changed = True
    while changed:
        changed = False
        for g in feats:
            if g in admitted or sets[g] <= core:
                continue
            local = {"hits": {g: hits.get(g, {})}, "near": {g: []}}
            if not hits.get(g) or not rulesem.sem(extender, g, local, True):
                continue
            if R.distance(sets[g], core, L, circ) <= cutoff:
                admitted.add(g)
                core = _expected_core(core | sets[g], L, circ)
                changed = True
    return admitted


def _merge_groups_through_extenders(groups, feats, sets, hits, extender, cutoff, L, circ):
    """cores grown by admitted extender genes that come closer than the cutoff are one protocluster"""
    spans = []
    for group in groups:
        union = frozenset().union(*[sets[g] for g in group])
        admitted = _admitted_extenders(union, feats, sets, hits, extender, cutoff, L, circ)
        span = _expected_core(union | frozenset().union(*[sets[g] for g in admitted]) if admitted else union, L, circ)
        spans.append((set(group), span))
    merged = True
    while merged:
        merged = False
        for i in range(len(spans)):
            for j in range(i + 1, len(spans)):
                if R.distance(spans[i][1], spans[j][1], L, circ) < cutoff:
                    spans[i] = (spans[i][0] | spans[j][0], _expected_core(spans[i][1] | spans[j][1], L, circ))
                    del spans[j]
                    merged = True
                    break
            if merged:
                break
    return [frozenset(g) for g, _ in spans]


def run_shard(shard):
    L, circ, fam, k, chunk, nchunks, tier = shard
    res = Result()
    if fam == "extenders-ring":
        rules_spec = [f for f in families(tier) if f[0] == "extenders"][0][1]
        for index, (world, hits) in enumerate(extender_ring_layouts(tier)):
            if index % nchunks != chunk:
                continue
            res.evals += 1
            res.nontrivial += 1
            fails = check_case(world, hits, rules_spec, res.buckets)
            res.outcomes[("extenders-ring", tuple(sorted({c.split(":")[0] for c, _ in fails})))] += 1
            if fails or res.evals % 2003 == 1:
                case = {"world": world, "hits": hits, "family": "extenders"}
                for clause, detail in fails:
                    res.fail(case, clause, detail)
                res.sample(case)
        return res
    spec = [f for f in families(tier) if f[0] == fam][0]
    _, rules_spec, hit_mode = spec
    index = 0
    for world in (layouts(L, circ, k) if hit_mode != "abc-gapwords" else gapword_layouts(circ, tier)):
        names = [g for g, _ in world["genes"]]
        if hit_mode == "abc-gapwords":
            tables = [dict(zip(names, combo)) for combo in itertools.product(HITS_ABC, repeat=len(names))
                      if sum(1 for c in combo if c) >= 2 and len({p for c in combo for p in c}) >= 2]
        elif hit_mode == "all-a":
            tables = [{g: {"a": 7} for g in names}]
        else:
            menu = HITS_AB_FULL if (tier == "thorough" or len(names) < 3) else HITS_AB_SMALL
            tables = [dict(zip(names, combo)) for combo in itertools.product(menu, repeat=len(names)) if any(combo)]
        for hits in tables:
            index += 1
            if index % nchunks != chunk:
                continue
            res.evals += 1
            res.nontrivial += sum(1 for h in hits.values() if h) > 1
            fails = check_case(world, hits, rules_spec, res.buckets)
            res.outcomes[(fam.split("-")[0], tuple(sorted({c.split(":")[0] for c, _ in fails})))] += 1
            if fails or res.evals % 2003 == 1:
                case = {"world": world, "hits": hits, "family": fam}
                for clause, detail in fails:
                    res.fail(case, clause, detail)
                res.sample(case)
    return res


def replay(case):
    spec = [f for f in families("thorough") if f[0] == case["family"]][0]
    return check_case(case["world"], case["hits"], spec[1])
