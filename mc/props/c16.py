"""C16 Sanitised record identifiers are unique, short and filesystem-safe.

Every list of 1-3 (quick) / 1-4 (thorough) identifiers from a pool of adversarial ids, both settings of
allow_long_headers, through the real pre_process_sequences (in-process, no-op gene finding). Gene identifiers: every
triple of CDS features from a small name/locus-tag/location menu through add_cds_feature.
"""
import itertools

from Bio.Seq import Seq

from antismash.common import record_processing
from antismash.common.secmet import Record
from antismash.common.secmet.errors import SecmetInvalidInputError
from antismash.common.secmet.features import CDSFeature
from antismash.common.secmet.locations import FeatureLocation as F

from mc.engine.core import Result
from mc.universe import config as Cfg

ID = "C16"
LEVEL = "exploration"
RULE = ("cases = (ordered list of k record ids from the pool, allow_long_headers); every ordered selection without repetition plus "
        "lists with one repeated id; gene cases = (ordered triple of (gene name, locus tag?, location)); non-trivial = the list contains ids that "
        "collide after some sanitising step (duplicates, equal after removing illegal characters, equal 7- or 12-character prefixes, id equal to "
        "another's shortened form); distinct by construction")
ASSUMPTIONS = [
    "gene finding is a no-op module; every record carries one CDS so it is not skipped",
    "illegal characters = the set removed by fix_record_name_id (file name / GenBank header unsafe characters)",
]
BOUNDS = {"quick": "lists of <= 3 from a 30-id pool (ordered), both header settings; structured long-id family: pairs over heads {a,b,:}^3 (64 ids), "
                   "triples over heads {a,:}^3 (26 ids)",
          "thorough": "lists of <= 3 from the full 44-id pool and <= 4 from a 16-id pool; structured long-id family: pairs and triples over heads {a,b,:}^3"}
REQUIRED_BUCKETS = {t: ["ids:duplicates-in-input", "ids:shortened", "ids:illegal-characters", "ids:versioned-accession", "ids:shortened-and-cleaned",
                        "genes:renamed", "genes:rejected"] for t in ("quick", "thorough")}
ILLEGAL = set('''!"#$%&()*+,:;=>?@[]^`'{|}/ ''')
N_CHUNKS = 32

POOL = [
    "a", "ab", "a:b", "a b", "a_b", "a.b", "ab_0", "a_0", "a:", ":a",
    "abcdefghijklmnopq", "abcdefghijklmnopr", "abcdefghijkl_0", "abcdefghijklXYZ12345", "abcdefgXYZ1234567890",
    "c00001_abcdefg..", "c00002_abcdefg..", "c00001_abcdefg", "abcdefghijkl_1",
    "NZ_ABCD01000079.1", "NZ_ABCD01000079", "NZ_ABCD01000079.2", "NZ_ABCDEFGH01000079.1", "NZ_ABCD010000790123.1",
    "contig12 some description x", "contig12 another description", "scaffold123456.abcdefgh", "my scaffold7 of many more", "xx c5 yyyyyyyyyyyyyyy",
    "c00012_contig1..", "c123456_scaffol..", "abcdefg:hijklmnopq", "abcdefg hijklmnopq", "ab(c)", "abc",
    "a" * 16, "a" * 17, "a" * 16 + ":", "x;y", "xy", "x|y", "x/y", "abcdefghijkl:mnopqrs", "abcdefghijklm:nopqrs",
]
QUICK_POOL = POOL[:12] + POOL[15:17] + POOL[19:22] + POOL[24:27] + POOL[29:32] + POOL[33:35] + POOL[35:38] + POOL[42:44]
SMALL_POOL = ["a", "ab", "a:b", "ab_0", "abcdefghijklmnopq", "abcdefghijklmnopr", "abcdefghijkl_0", "c00001_abcdefg..",
              "NZ_ABCD01000079.1", "NZ_ABCD01000079", "contig12 some description x", "contig12 another description",
              "scaffold123456.abcdefgh", "a" * 17, "x;y", "xy"]


def structured_family(letters):
    """long ids generated from a small grammar instead of picked by hand: every 3-character head over `letters` (which include
    an illegal character) followed by a tail that makes the id too long, once with a contig number (shortened to c<number>_...)
    and once without (shortened to c<record index>_...), plus the literal shortened / shortened-and-cleaned forms those can take"""
    out = []
    for head in itertools.product(letters, repeat=3):
        out.append("".join(head) + "cdefgh-contig7")
        out.append("".join(head) + "cdefghijklmnopq")
    out += ["c00007_abcdef..", "c00007_abcdefg..", "c00007_aacdefg..", "c00001_aacdefg..", "c00002_aacdefg..", "c00001_abcdef..",
            "c00002_abcdef..", "c00003_abcdef..", "aacdefgh-con_0", "abcdefgh-con_0"]
    return out


FAMILY_QUICK = structured_family("a:")
FAMILY_FULL = structured_family("ab:")


def make_records(ids):
    out = []
    for rid in ids:
        rec = Record(Seq("ATGAAATAAACGT" * 2))
        rec.id = rid
        rec.name = rid
        rec.add_annotation("topology", "linear")
        rec.add_cds_feature(CDSFeature(F(0, 9, 1), "MK", locus_tag="gene1"))
        out.append(rec)
    return out


def check_ids(ids, long_headers):
    options = Cfg.make_config([] if long_headers else ["--no-allow-long-headers"])
    records = make_records(ids)
    try:
        result = record_processing.pre_process_sequences(records, options, Cfg.DummyGenefinding)
    except Exception as err:  # pylint: disable=broad-except
        return [("preprocessing-raised", f"{type(err).__name__}: {str(err)[:150]}")], None
    fails = []
    new_ids = [r.id for r in result]
    if len(result) != len(ids):
        fails.append(("record-count", f"{len(result)} records for {len(ids)} inputs"))
        return fails, new_ids
    if len(set(new_ids)) != len(new_ids):
        fails.append(("ids-not-unique", f"{ids} -> {new_ids}"))
    for old, rec in zip(ids, result):
        if set(rec.id) & ILLEGAL:
            fails.append(("id-illegal-character", f"{old!r} -> {rec.id!r}"))
        if not long_headers and len(rec.id) > 16:
            fails.append(("id-too-long", f"{old!r} -> {rec.id!r} ({len(rec.id)})"))
        if not rec.id:
            fails.append(("id-empty", f"{old!r}"))
        if rec.id != old:
            if rec.original_id != old:
                fails.append(("original-id-not-remembered", f"{old!r} -> {rec.id!r}, original_id={rec.original_id!r}"))
        elif rec.original_id not in (None, old):
            fails.append(("original-id-spurious", f"{old!r} unchanged but original_id={rec.original_id!r}"))
    return fails, new_ids


GENE_MENU = [
    ("x", None, (0, 9)), ("x", None, (3, 12)), ("x", None, (30, 39)),
    ("x", "x", (0, 9)), ("x", "x", (6, 15)), ("x", "x", (30, 39)),
    ("x y", "x y", (12, 21)), ("x_y", "x_y", (15, 24)), ("y", "y", (0, 9)),
]


def _taken_name():
    """the name the second 'x' gene of the menu is renamed to when it overlaps the first: 'x_<checksum of its location>'"""
    from antismash.common.secmet.record import _location_checksum  # pylint: disable=import-outside-toplevel
    return f"x_{_location_checksum(CDSFeature(F(6, 15, 1), 'MKK', locus_tag='x'))}"


# a gene that already carries the name a splice variant would be renamed to
GENE_MENU.append((_taken_name(), _taken_name(), (40, 49)))


def check_genes(triple):
    rec = Record(Seq("A" * 60))
    rec.id = rec.name = "rec"
    rec.add_annotation("topology", "linear")
    accepted = []
    rejected = 0
    for name, locus, (start, end) in triple:
        kwargs = {"locus_tag": locus} if locus else {"gene": name}
        try:
            cds = CDSFeature(F(start, end, 1), "MKK", **kwargs)
            rec.add_cds_feature(cds)
            accepted.append(cds)
        except SecmetInvalidInputError:
            rejected += 1
        except Exception as err:  # pylint: disable=broad-except
            return [("gene-add-raised", f"{type(err).__name__}: {str(err)[:120]}")], 0, 0
    names = [c.get_name() for c in rec.get_cds_features()]
    fails = []
    if len(set(names)) != len(names):
        fails.append(("gene-names-not-unique", f"{names}"))
    if len(rec.get_cds_features()) != len(accepted):
        fails.append(("gene-count", f"{len(rec.get_cds_features())} vs {len(accepted)} accepted"))
    for cds in accepted:
        try:
            if rec.get_cds_by_name(cds.get_name()) is not cds:
                fails.append(("gene-name-maps-to-other-gene", cds.get_name()))
        except KeyError:
            fails.append(("gene-name-unknown", cds.get_name()))
    renamed = sum(1 for cds, (name, locus, _) in zip(accepted, triple) if cds.get_name() not in (name, locus))
    return fails, renamed, rejected


MANY_SIZES = (9, 11, 99, 101, 999, 1001, 1002, 1100)   # around the places where the counter of a generated id grows a digit


def many_ids(template, n):
    """n ids that all compete for the same generated name"""
    if template == "bins":
        # long ids sharing their first 12 characters and the same contig number: the shortened form is taken from the second on
        return [f"metagenome_bin{i:04d}.contig1" for i in range(n)]
    if template == "repeats":
        return ["abcdefghijklmn"] * n
    if template == "cleaned":
        # distinct ids that all lose their illegal characters to the same 13 characters
        base = "abcdefghijklm"
        out = [base]
        for chars in (":", ";", "::", ":;", ";:", ";;", ":::", "=", "=:", ":=", "==", "?", "?:", ":?", "??", "=?", "?="):
            for pos in range(len(base) + 1):
                out.append(base[:pos] + chars + base[pos:])
            for pos in range(len(base)):
                for pos2 in range(pos + 1, len(base) + 1):
                    out.append(base[:pos] + chars[0] + base[pos:pos2] + chars[-1] + base[pos2:])
        out = list(dict.fromkeys(out))
        assert len(out) >= n, len(out)
        return out[:n]
    raise ValueError(template)


def shards(tier):
    out = []
    for template in ("bins", "repeats", "cleaned"):
        for long_headers in (False, True):
            out.append(["many", template, long_headers])
    for long_headers in (False, True):
        for chunk in range(N_CHUNKS):
            out.append(["ids", "quick" if tier == "quick" else "full", 3, long_headers, chunk])
    if tier == "thorough":
        for long_headers in (False, True):
            for chunk in range(N_CHUNKS):
                out.append(["ids", "small", 4, long_headers, chunk])
    for long_headers in (False, True):
        for chunk in range(N_CHUNKS):
            out.append(["ids", "family-pairs", 2, long_headers, chunk])
            out.append(["ids", "family-quick" if tier == "quick" else "family-full", 3, long_headers, chunk])
    out.append(["genes"])
    return out


def id_lists(pool, k):
    for size in range(1, k + 1):
        for combo in itertools.permutations(pool, size):
            yield list(combo)
        if size >= 2:
            # one repeated id
            for combo in itertools.permutations(pool, size - 1):
                for pos in range(size - 1):
                    yield list(combo) + [combo[pos]]


def run_shard(shard):
    res = Result()
    if shard[0] == "ids":
        _, which, k, long_headers, chunk = shard
        pool = {"quick": QUICK_POOL, "full": POOL, "small": SMALL_POOL, "family-pairs": FAMILY_FULL, "family-quick": FAMILY_QUICK,
                "family-full": FAMILY_FULL}[which]
        sizes_only = k if which in ("small", "family-quick", "family-full") else None
        for idx, ids in enumerate(id_lists(pool, k)):
            if idx % N_CHUNKS != chunk or (sizes_only and len(ids) != sizes_only):
                continue
            res.evals += 1
            fails, new_ids = check_ids(ids, long_headers)
            stripped = ["".join(ch for ch in i if ch not in ILLEGAL) for i in ids]
            collide = len(set(ids)) < len(ids) or len(set(stripped)) < len(stripped) or \
                len({s[:7] for s in stripped}) < len(stripped)
            res.nontrivial += collide
            if len(set(ids)) < len(ids):
                res.buckets["ids:duplicates-in-input"] += 1
            if new_ids and not long_headers and any(len(i) > 16 for i in ids):
                res.buckets["ids:shortened"] += 1
            if any(set(i) & ILLEGAL for i in ids):
                res.buckets["ids:illegal-characters"] += 1
            if not long_headers and any(len(i) > 16 and set(i[:7]) & ILLEGAL for i in ids):
                res.buckets["ids:shortened-and-cleaned"] += 1
            if any(i.startswith("NZ_") for i in ids):
                res.buckets["ids:versioned-accession"] += 1
            res.outcomes[("ids", long_headers, tuple(sorted({c for c, _ in fails})))] += 1
            if fails or res.evals % 2003 == 1:
                case = {"kind": "ids", "ids": ids, "long": long_headers}
                for clause, detail in fails:
                    res.fail(case, clause, detail)
                res.sample(case)
    elif shard[0] == "many":
        _, template, long_headers = shard
        for n in MANY_SIZES:
            res.evals += 1
            res.nontrivial += 1
            fails, _ = check_ids(many_ids(template, n), long_headers)
            res.buckets["ids:many-competing"] += 1
            res.outcomes[("many", template, long_headers, tuple(sorted({c for c, _ in fails})))] += 1
            case = {"kind": "many", "template": template, "n": n, "long": long_headers}
            for clause, detail in fails:
                res.fail(case, clause, detail[:300])
            res.sample(case)
    else:
        for triple in itertools.permutations(range(len(GENE_MENU)), 3):
            res.evals += 1
            res.nontrivial += 1
            fails, renamed, rejected = check_genes([GENE_MENU[i] for i in triple])
            res.buckets["genes:renamed"] += renamed
            res.buckets["genes:rejected"] += rejected
            res.outcomes[("genes", renamed, rejected, tuple(sorted({c for c, _ in fails})))] += 1
            if fails or res.evals % 101 == 1:
                case = {"kind": "genes", "triple": list(triple)}
                for clause, detail in fails:
                    res.fail(case, clause, detail)
                res.sample(case)
    return res


def replay(case):
    if case["kind"] == "ids":
        return check_ids(case["ids"], case["long"])[0]
    if case["kind"] == "many":
        return check_ids(many_ids(case["template"], case["n"]), case["long"])[0]
    return check_genes([GENE_MENU[i] for i in case["triple"]])[0]
