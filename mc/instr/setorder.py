"""Makes the iteration order of every set created in antiSMASH code a choice of the explorer.

install() must run before antismash is imported. Every antismash module is compiled from /repo's source through an
AST transform that routes set displays, set comprehensions and the names `set` / `frozenset` to subclasses whose
__iter__ / pop order is chosen by SCHED (choice 0 = insertion order, the deterministic default).
"""
import ast
import importlib.abc
import importlib.machinery
import math
import sys


class Scheduler:
    """replays a prefix of choice indices, then always takes choice 0; records the arity of every choice point"""
    def __init__(self):
        self.prefix = []
        self.points = []
        self.enabled = True

    def reset(self, prefix=()):
        self.prefix = list(prefix)
        self.points = []

    def choose(self, n):
        if n <= 1 or not self.enabled:
            return 0
        i = len(self.points)
        choice = self.prefix[i] if i < len(self.prefix) else 0
        if choice >= n:
            raise RuntimeError(f"schedule replay diverged: choice {choice} at point {i} with only {n} options")
        self.points.append(n)
        return choice


SCHED = Scheduler()
FULL_PERMUTATIONS_UP_TO = 4


def nth_permutation(items, k):
    items = list(items)
    out = []
    for i in range(len(items), 0, -1):
        f = math.factorial(i - 1)
        j, k = divmod(k, f)
        out.append(items.pop(j))
    return out


def _ordered(items):
    n = len(items)
    if n <= 1:
        return items
    if n <= FULL_PERMUTATIONS_UP_TO:
        return nth_permutation(items, SCHED.choose(math.factorial(n)))
    k = SCHED.choose(n + 1)     # n rotations + reversal
    return items[::-1] if k == n else items[k:] + items[:k]


class OSet(set):
    __slots__ = ("_o",)

    def __init__(self, it=()):
        set.__init__(self)
        self._o = {}
        for x in it:
            self.add(x)

    def add(self, x):
        self._o.setdefault(x, None)
        set.add(self, x)

    def discard(self, x):
        self._o.pop(x, None)
        set.discard(self, x)

    def remove(self, x):
        set.remove(self, x)
        self._o.pop(x, None)

    def pop(self):
        items = list(self._o)
        if not items:
            raise KeyError("pop from an empty set")
        x = items[SCHED.choose(len(items))]
        self.remove(x)
        return x

    def clear(self):
        set.clear(self)
        self._o.clear()

    def update(self, *others):
        for other in others:
            for x in list(other):
                self.add(x)

    def __ior__(self, other):
        self.update(other)
        return self

    def difference_update(self, *others):
        for other in others:
            for x in list(other):
                self.discard(x)

    def __isub__(self, other):
        self.difference_update(other)
        return self

    def intersection_update(self, *others):
        for x in list(self._o):
            if not all(x in other for other in others):
                self.discard(x)

    def __iand__(self, other):
        self.intersection_update(other)
        return self

    def symmetric_difference_update(self, other):
        other = list(other)
        for x in other:
            if x in self:
                self.discard(x)
            else:
                self.add(x)

    def __ixor__(self, other):
        self.symmetric_difference_update(other)
        return self

    def __iter__(self):
        return iter(_ordered(list(self._o)))

    def copy(self):
        return OSet(self._o)

    def union(self, *others):
        out = OSet(self._o)
        out.update(*others)
        return out

    def __or__(self, other):
        return self.union(other)

    def __ror__(self, other):
        out = OSet(other)
        out.update(self._o)
        return out

    def intersection(self, *others):
        return OSet(x for x in self._o if all(x in other for other in others))

    def __and__(self, other):
        return self.intersection(other)

    def __rand__(self, other):
        return OSet(x for x in other if x in self)

    def difference(self, *others):
        return OSet(x for x in self._o if not any(x in other for other in others))

    def __sub__(self, other):
        return self.difference(other)

    def __rsub__(self, other):
        return OSet(x for x in other if x not in self)

    def symmetric_difference(self, other):
        out = self.difference(other)
        out.update(x for x in other if x not in self)
        return out

    def __xor__(self, other):
        return self.symmetric_difference(other)

    def __reduce__(self):
        return (OSet, (list(self._o),))


class OFrozenSet(frozenset):
    def __new__(cls, it=()):
        items = list(dict.fromkeys(it))
        self = super().__new__(cls, items)
        self._o = items
        return self

    def __iter__(self):
        return iter(_ordered(list(self._o)))

    def __reduce__(self):
        return (OFrozenSet, (list(self._o),))


class _Transform(ast.NodeTransformer):
    def visit_Set(self, node):
        self.generic_visit(node)
        return ast.copy_location(ast.Call(ast.Name("__OSet__", ast.Load()), [ast.List(node.elts, ast.Load())], []), node)

    def visit_SetComp(self, node):
        self.generic_visit(node)
        return ast.copy_location(ast.Call(ast.Name("__OSet__", ast.Load()), [ast.GeneratorExp(node.elt, node.generators)], []), node)


class _Loader(importlib.machinery.SourceFileLoader):
    def source_to_code(self, data, path, *, _optimize=-1):
        tree = _Transform().visit(ast.parse(data, path))
        ast.fix_missing_locations(tree)
        return compile(tree, path, "exec", dont_inherit=True, optimize=_optimize)

    def exec_module(self, module):
        module.__dict__["__OSet__"] = OSet
        module.__dict__["set"] = OSet
        module.__dict__["frozenset"] = OFrozenSet
        super().exec_module(module)

    def get_code(self, fullname):   # never use cached bytecode: always compile the working tree
        path = self.get_filename(fullname)
        return self.source_to_code(self.get_data(path), path)


class _Finder(importlib.abc.MetaPathFinder):
    def find_spec(self, fullname, path, target=None):
        if not (fullname == "antismash" or fullname.startswith("antismash.")):
            return None
        spec = importlib.machinery.PathFinder.find_spec(fullname, path)
        if spec and spec.origin and spec.origin.endswith(".py") and "/test/" not in spec.origin:
            spec.loader = _Loader(fullname, spec.origin)
        return spec


_INSTALLED = False


def install():
    global _INSTALLED
    if _INSTALLED:
        return
    if any(name == "antismash" or name.startswith("antismash.") for name in sys.modules):
        raise RuntimeError("set-order hook must be installed before antismash is imported")
    sys.meta_path.insert(0, _Finder())
    _INSTALLED = True
