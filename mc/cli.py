"""./check <ID> [--tier quick|thorough] [--replay FILE] [--dump-failing FILE]"""
import argparse
import logging
import os
import sys
import traceback


def main() -> int:
    parser = argparse.ArgumentParser(prog="check")
    parser.add_argument("prop")
    parser.add_argument("--tier", choices=["quick", "thorough"], default=os.environ.get("VERIF_TIER") or "quick")
    parser.add_argument("--replay")
    parser.add_argument("--dump-failing")
    args = parser.parse_args()
    logging.disable(logging.CRITICAL)
    from mc.engine import core
    try:
        if args.replay:
            return core.run_replay(args.prop.upper(), args.replay)
        return core.run_check(args.prop.upper(), args.tier, dump_path=args.dump_failing)
    except Exception:  # pylint: disable=broad-except
        traceback.print_exc()
        return 2


if __name__ == "__main__":
    sys.exit(main())
