"""Truth-table semantics of rule conditions, straight from the documented meaning.

World W = {"hits": {gene: {profile: score}}, "near": {gene: [genes closer than the cutoff]}}
"""


def sem(n, g, W, local=False):
    P = W["hits"]
    N = W["near"][g]
    k = n[0]
    if k == "id":
        v = n[2] in P[g] or (not local and any(n[2] in P[h] for h in N))
        return v != n[1]
    if k == "min":
        cnt = sum(len(set(n[3]) & set(P[x])) for x in [g] + list(N))
        return (cnt >= n[2]) != n[1]
    if k == "score":
        # inside cds(...) the inner formula is about one single gene on its own, minscore included
        v = any(P[x].get(n[2], -1) >= n[3] for x in ([g] if local else [g] + list(N)))
        return v != n[1]
    if k == "and":
        return all(sem(c, g, W, local) for c in n[1])
    if k == "or":
        return any(sem(c, g, W, local) for c in n[2]) != n[1]
    if k == "cds":
        v = any(sem(n[2], x, W, True) for x in [g] + list(N))
        return v != n[1]
    raise ValueError(k)


def _profiles(n):
    k = n[0]
    if k in ("id", "score"):
        return {n[2]}
    if k == "min":
        return set(n[3])
    if k == "and":
        return set().union(*[_profiles(c) for c in n[1]])
    if k == "or":
        return set().union(*[_profiles(c) for c in n[2]])
    return _profiles(n[2])


def matches(n, g, W):
    """reason profiles: the rule's profiles hitting g; cds groups only when g satisfies the group itself;
    minscore only when g's own score suffices"""
    P = W["hits"]
    k = n[0]
    if k == "id":
        return {n[2]} & set(P[g])
    if k == "min":
        return set(n[3]) & set(P[g])
    if k == "score":
        return {n[2]} if P[g].get(n[2], -1) >= n[3] else set()
    if k == "and":
        return set().union(*[matches(c, g, W) for c in n[1]])
    if k == "or":
        return set().union(*[matches(c, g, W) for c in n[2]])
    if k == "cds":
        # (for groups of identifiers this is every profile of the group that hits g; a minscore in the group counts as above)
        return matches(n[2], g, W) if sem(n[2], g, W, True) else set()
    raise ValueError(k)


def anchors(n, g, W):
    return sem(n, g, W) and bool(matches(n, g, W))
