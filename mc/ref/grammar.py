"""Independent reference recogniser for the documented rule grammar (token level).

parse_file(tokens, known_profiles, categories, existing_rules, existing_aliases) -> list of RefRule
raises IllFormed(reason) for input the documentation calls ill-formed and Unjudged(reason) for
constructs on which the documentation is silent (either outcome of the real parser is accepted).

AST format as in mc.universe.rules.
"""

KEYWORDS = {"RULE", "CATEGORY", "DESCRIPTION", "EXAMPLE", "RELATED", "SUPERIORS", "CUTOFF", "NEIGHBOURHOOD",
            "CONDITIONS", "EXTENDERS", "DEFINE", "AS"}
WORDS = {"and", "or", "not", "cds", "minimum", "minscore"}
PUNCT = set("()[],.")


class IllFormed(Exception):
    pass


class Unjudged(Exception):
    pass


def tokenise(text):
    """whitespace separates; ()[],. are single tokens; # comments run to end of line"""
    tokens = []
    cur = ""
    i = 0
    while i < len(text):
        ch = text[i]
        if ch == "#":
            if cur:
                tokens.append(cur)
                cur = ""
            while i < len(text) and text[i] != "\n":
                i += 1
            continue
        if ch.isspace():
            if cur:
                tokens.append(cur)
                cur = ""
        elif ch in PUNCT:
            if cur:
                tokens.append(cur)
                cur = ""
            tokens.append(ch)
        else:
            cur += ch
        i += 1
    if cur:
        tokens.append(cur)
    return tokens


def is_int(tok):
    return tok.isdigit()


def is_identifier(tok):
    if tok in KEYWORDS or tok in WORDS or tok in PUNCT:
        return False
    if not any(c.isalpha() for c in tok):
        return False
    if not all(c.isalnum() or c in "_-" for c in tok):
        return False
    return tok not in ("cluster", "score")


class RefRule:
    def __init__(self, name, category, cutoff_kb, neighbourhood_kb, conditions, superiors, extenders):
        self.name = name
        self.category = category
        self.cutoff_kb = cutoff_kb
        self.neighbourhood_kb = neighbourhood_kb
        self.conditions = conditions      # AST, top level ["or", False, [...]]
        self.superiors = superiors        # transitively closed, sorted
        self.extenders = extenders        # AST or None


def normalise(n):
    """semantics-preserving canonical form: groups of one unwrapped, nested same-operator groups flattened"""
    k = n[0]
    if k in ("id", "score"):
        return list(n)
    if k == "min":
        return ["min", n[1], n[2], sorted(n[3])]
    if k == "cds":
        return ["cds", n[1], normalise(n[2])]
    if k == "and":
        kids = []
        for c in n[1]:
            c = normalise(c)
            if c[0] == "and":
                kids.extend(c[1])
            else:
                kids.append(c)
        return ["and", kids] if len(kids) > 1 else kids[0]
    if k == "or":
        kids = []
        for c in n[2]:
            c = normalise(c)
            if c[0] == "or" and not c[1]:
                kids.extend(c[2])
            else:
                kids.append(c)
        if len(kids) == 1:
            only = kids[0]
            if not n[1]:
                return only
            if only[0] == "and":
                return ["or", True, [only]]
            flipped = list(only)
            flipped[1] = not only[1]
            if only[0] == "or":
                return normalise(flipped) if len(only[2]) == 1 else flipped
            return flipped
        return ["or", n[1], kids]
    raise ValueError(k)


def positive(n):
    k = n[0]
    if k in ("id", "min", "score"):
        return not n[1]
    if k == "and":
        return any(positive(c) for c in n[1])
    if k == "or":
        return (not n[1]) and any(positive(c) for c in n[2])
    return (not n[1]) and positive(n[2])


def identifiers(n):
    k = n[0]
    if k in ("id", "score"):
        return {n[2]}
    if k == "min":
        return set(n[3])
    if k == "and":
        return set().union(*[identifiers(c) for c in n[1]])
    if k == "or":
        return set().union(*[identifiers(c) for c in n[2]])
    return identifiers(n[2])


def _text(n):
    """the textual form the documentation uses for 'repeated operand'"""
    k = n[0]
    neg = "not " if (k != "and" and n[1]) else ""
    if k == "id":
        return neg + n[2]
    if k == "min":
        return f"{neg}minimum({n[2]},{sorted(n[3])})"
    if k == "score":
        return f"{neg}minscore({n[2]},{n[3]})"
    if k == "cds":
        return f"{neg}cds({_text(n[2])})"
    if k == "and":
        return " and ".join(_text(c) for c in n[1])
    if len(n[2]) == 1 and n[2][0][0] != "and":
        return neg + _text(n[2][0])
    return f"{neg}({' or '.join(_text(c) for c in n[2])})"


class _P:
    def __init__(self, tokens):
        self.toks = tokens
        self.i = 0

    def peek(self):
        return self.toks[self.i] if self.i < len(self.toks) else None

    def take(self, expected=None):
        tok = self.peek()
        if tok is None:
            raise IllFormed(f"unexpected end, expected {expected}")
        if expected is not None and tok != expected:
            raise IllFormed(f"expected {expected} found {tok}")
        self.i += 1
        return tok

    def take_id(self):
        tok = self.peek()
        if tok is None or not is_identifier(tok):
            raise IllFormed(f"expected identifier found {tok}")
        self.i += 1
        return tok

    def take_int(self):
        tok = self.peek()
        if tok is None or not is_int(tok):
            raise IllFormed(f"expected int found {tok}")
        self.i += 1
        return int(tok)

    # ---- conditions
    def conditions(self, in_cds):
        """-> list of or-operands (each possibly an and-chain)"""
        operands = [self.and_chain(in_cds)]
        while self.peek() == "or":
            self.take()
            operands.append(self.and_chain(in_cds))
        self._no_repeats(operands)
        return operands

    def and_chain(self, in_cds):
        first = self.single(in_cds)
        if self.peek() != "and":
            return first
        kids = [first]
        while self.peek() == "and":
            self.take()
            kids.append(self.single(in_cds))
        self._no_repeats(kids)
        return ["and", kids]

    @staticmethod
    def _no_repeats(operands):
        texts = [_text(o) for o in operands]
        if len(set(texts)) != len(texts):
            raise IllFormed("repeated operand")

    def single(self, in_cds):
        neg = False
        if self.peek() == "not":
            self.take()
            neg = True
        tok = self.peek()
        if tok is None:
            raise IllFormed("unexpected end in conditions")
        if tok == "(":
            self.take()
            ops = self.conditions(in_cds)
            self.take(")")
            return ["or", neg, ops]
        if tok == "minimum":
            if in_cds:
                raise IllFormed("minimum inside cds")
            self.take()
            self.take("(")
            count = self.take_int()
            self.take(",")
            self.take("[")
            names = [self.take_id()]
            while self.peek() == ",":
                self.take()
                names.append(self.take_id())
            self.take("]")
            self.take(")")
            if len(set(names)) != len(names):
                raise IllFormed("repeated option in minimum")
            if count < 1:
                raise IllFormed("minimum count < 1")
            return ["min", neg, count, names]
        if tok == "cds":
            if in_cds:
                raise IllFormed("cds inside cds")
            self.take()
            self.take("(")
            ops = self.conditions(True)
            self.take(")")
            if len(ops) == 1 and ops[0][0] == "id":
                raise IllFormed("cds of a single identifier")
            inner = ["or", False, ops] if len(ops) > 1 else ops[0]
            return ["cds", neg, inner]
        if tok == "minscore":
            self.take()
            self.take("(")
            name = self.take_id()
            self.take(",")
            score = self.take_int()
            self.take(")")
            if in_cds:
                raise Unjudged("minscore inside cds: the documented grammar is silent")
            return ["score", neg, name, score]
        return ["id", neg, self.take_id()]


def substitute_aliases(tokens, aliases):
    """textual substitution of alias names (identifier tokens) outside DEFINE/RULE name positions and free text;
    defines are collected on the way. Returns the substituted token list (DEFINE blocks removed)."""
    out = []
    i = 0
    aliases = dict(aliases)
    defined_here = []
    n = len(tokens)
    in_free_text = False
    while i < n:
        tok = tokens[i]
        if tok == "DEFINE":
            if i + 2 >= n or tokens[i + 2] != "AS":
                raise IllFormed("malformed DEFINE")
            name = tokens[i + 1]
            if name in aliases and name not in defined_here or name in defined_here:
                raise IllFormed("duplicate alias name")
            if not is_identifier(name):
                raise IllFormed("invalid alias name")
            j = i + 3
            body = []
            while j < n and tokens[j] not in KEYWORDS:
                body.append(tokens[j])
                j += 1
            if not body:
                raise IllFormed("empty alias")
            # aliases may use earlier aliases
            expanded = []
            for b in body:
                expanded.extend(aliases.get(b, [b]))
            aliases[name] = expanded
            defined_here.append(name)
            i = j
            in_free_text = False
            continue
        if tok in KEYWORDS:
            in_free_text = tok in ("DESCRIPTION", "EXAMPLE")
            out.append(tok)
            if tok == "RULE" and i + 1 < n:
                if tokens[i + 1] in aliases:
                    raise IllFormed("alias used as rule name")
                out.append(tokens[i + 1])
                i += 2
                continue
            i += 1
            continue
        if not in_free_text and tok in aliases:
            out.extend(aliases[tok])
        else:
            out.append(tok)
        i += 1
    return out, aliases, defined_here


def parse_file(tokens, known_profiles, categories, existing_rules=None, existing_aliases=None):
    """-> (list of RefRule for this text only, aliases after this text)"""
    existing_rules = list(existing_rules or [])
    by_name = {r.name: r for r in existing_rules}
    if not tokens:
        raise IllFormed("no rules")
    if tokens[0] not in ("RULE", "DEFINE"):
        raise IllFormed("text must start with RULE or DEFINE")
    tokens, aliases, defined = substitute_aliases(tokens, existing_aliases or {})
    for name in defined:
        if name in known_profiles or name in categories:
            raise IllFormed("alias duplicates a profile or category")
        if name in by_name:
            raise IllFormed("alias duplicates a rule name")
    p = _P(tokens)
    rules = []
    while p.peek() is not None:
        p.take("RULE")
        name = p.take_id()
        p.take("CATEGORY")
        category = p.take_id()
        if category not in categories:
            raise IllFormed("unknown category")
        if p.peek() == "DESCRIPTION":
            p.take()
            while p.peek() is not None and p.peek() not in KEYWORDS:
                p.take()
            if p.peek() is None:
                raise IllFormed("end of input in description")
        while p.peek() == "EXAMPLE":
            p.take()
            while p.peek() is not None and p.peek() not in KEYWORDS:
                p.take()
        if p.peek() == "RELATED":
            p.take()
            p.take_id()
            while p.peek() == ",":
                p.take()
                p.take_id()
        superiors = []
        if p.peek() == "SUPERIORS":
            p.take()
            listed = [p.take_id()]
            while p.peek() == ",":
                p.take()
                listed.append(p.take_id())
            if len(set(listed)) != len(listed):
                raise IllFormed("duplicate superiors")
            closure = set(listed)
            for sup in listed:
                if sup not in by_name:
                    raise IllFormed("superior not yet defined")
                closure.update(by_name[sup].superiors)
            superiors = sorted(closure)
        p.take("CUTOFF")
        cutoff = p.take_int()
        p.take("NEIGHBOURHOOD")
        neighbourhood = p.take_int()
        p.take("CONDITIONS")
        ops = p.conditions(False)
        conditions = ["or", False, ops]
        extenders = None
        if p.peek() == "EXTENDERS":
            p.take()
            if p.peek() == "cds":
                extenders = p.single(False)
            else:
                extenders = ["id", False, p.take_id()]
            if not positive(extenders):
                raise IllFormed("extenders without positive requirement")
        if p.peek() is not None and p.peek() != "RULE":
            raise IllFormed(f"unexpected token {p.peek()} after rule")
        if not positive(conditions):
            raise IllFormed("no positive requirement")
        unknown = identifiers(conditions) - set(known_profiles)
        if unknown:
            raise IllFormed(f"unknown profile {sorted(unknown)}")
        if extenders is not None and identifiers(extenders) - set(known_profiles):
            raise IllFormed("unknown profile in extenders")
        if name in by_name:
            raise IllFormed("duplicate rule name")
        for alias in aliases:
            if alias == name:
                raise IllFormed("rule name duplicates alias")
        rule = RefRule(name, category, cutoff, neighbourhood, conditions, superiors, extenders)
        by_name[name] = rule
        rules.append(rule)
    if not rules and not defined:
        raise IllFormed("no rules")
    return rules, aliases
