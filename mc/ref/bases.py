"""Set-of-bases reference model. Deliberately does not import antismash's location helpers."""


def bases(loc) -> frozenset:
    out = set()
    for p in loc.parts:
        out.update(range(int(p.start), int(p.end)))
    return frozenset(out)


def part_sets(loc):
    return [frozenset(range(int(p.start), int(p.end))) for p in loc.parts]


def overlap(a, b) -> bool:
    return bool(bases(a) & bases(b))


def contains(outer, inner) -> bool:
    outs = part_sets(outer)
    return all(any(ip <= op for op in outs) for ip in part_sets(inner))


def distance(a: frozenset, b: frozenset, L: int, circular: bool) -> int:
    """number of bases strictly between the closest pair of bases, the shorter way round"""
    if a & b:
        return 0
    best = None
    for x in a:
        for y in b:
            d = abs(x - y) - 1
            if circular:
                d = min(d, L - abs(x - y) - 1)
            if best is None or d < best:
                best = d
    return best


def within(a: frozenset, dist: int, L: int, circular: bool) -> frozenset:
    """all bases within `dist` of any base of a"""
    if circular:
        return frozenset((x + k) % L for x in a for k in range(-dist, dist + 1))
    return frozenset(x + k for x in a for k in range(-dist, dist + 1) if 0 <= x + k < L)


def shortest_arc(union: frozenset, L: int) -> frozenset:
    """ring minus the largest gap (first largest in ring order from the smallest base)"""
    pts = sorted(union)
    best = None
    for i, p in enumerate(pts):
        q = pts[(i + 1) % len(pts)]
        gap = (q - p - 1) % L
        if best is None or gap > best[0]:
            best = (gap, p)
    gap, p = best
    return frozenset(range(L)) - frozenset((p + 1 + k) % L for k in range(gap))


def largest_gap_unique(union: frozenset, L: int) -> bool:
    pts = sorted(union)
    gaps = sorted(((pts[(i + 1) % len(pts)] - p - 1) % L for i, p in enumerate(pts)), reverse=True)
    return len(gaps) < 2 or gaps[0] > gaps[1]


def well_formed_span(loc, L: int):
    """None if loc is a well formed span, else the reason"""
    parts = loc.parts
    if len(parts) > 2:
        return "more-than-two-parts"
    for p in parts:
        if not 0 <= int(p.start) < int(p.end) <= L:
            return "part-empty-or-outside-record"
    if len(parts) == 2:
        if int(parts[1].start) != 0:
            return "second-part-not-at-origin"
        if set(range(int(parts[0].start), int(parts[0].end))) & set(range(int(parts[1].start), int(parts[1].end))):
            return "parts-overlap"
    return None


def well_formed_parts(loc, L: int):
    seen = set()
    for p in loc.parts:
        if not 0 <= int(p.start) < int(p.end) <= L:
            return "part-empty-or-outside-record"
        cur = set(range(int(p.start), int(p.end)))
        if cur & seen:
            return "parts-overlap"
        seen |= cur
    return None


def transcript(loc) -> list:
    """bases in transcript order: parts in stored order, each reversed on the reverse strand
    (what Bio's extract() concatenates)"""
    out = []
    for p in loc.parts:
        rng = list(range(int(p.start), int(p.end)))
        if p.strand == -1:
            rng.reverse()
        out.extend(rng)
    return out


def transcript_parts(loc):
    """parts in ascending-around-the-ring order (reverse-strand locations store them last exon first)"""
    parts = list(loc.parts)
    if len(parts) > 1 and loc.strand == -1:
        parts.reverse()
    return parts


def wraps(loc):
    """does a multi-part location step back over the origin between two of its parts"""
    parts = transcript_parts(loc)
    return any(int(b.start) < int(a.start) for a, b in zip(parts, parts[1:]))


def span_bases(loc, L):
    """the bases a gene-like location spans including its introns: from its first exon to its last, over the origin if its parts
    step back over it"""
    parts = transcript_parts(loc)
    if len(parts) == 1:
        return frozenset(range(int(parts[0].start), int(parts[0].end)))
    first, last = int(parts[0].start), int(parts[-1].end)
    if wraps(loc):
        return frozenset(range(first, L)) | frozenset(range(0, last))
    return frozenset(range(first, last))
