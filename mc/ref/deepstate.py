"""Canonical, identity-free picture of an object graph (C18: what crosses a process boundary must come back the same).

Every attribute of every antiSMASH / Biopython object reachable from the root is included - instance dictionaries, all
__slots__ of the class hierarchy and, for subclasses of tuple / list / dict, the raw content regardless of an overridden
__iter__ - so a field that pickling forgets shows up as a difference even if no accessor the checks call happens to read it.
Shared objects and cycles are kept as back references numbered in visiting order.
"""


def deep_state(obj, memo=None, depth=0):
    if memo is None: memo = {}
    if obj is None or isinstance(obj, (bool, int, float, str, bytes)):
        return obj
    oid = id(obj)
    if oid in memo:
        return ("ref", memo[oid])
    mod = type(obj).__module__ or ""
    if isinstance(obj, dict) and not mod.startswith(("antismash", "Bio")):
        memo[oid] = len(memo)
        return ("dict", type(obj).__name__, [(deep_state(k, memo), deep_state(v, memo)) for k, v in obj.items()])
    if isinstance(obj, (list, tuple)) and not mod.startswith(("antismash", "Bio")):
        memo[oid] = len(memo)
        return (type(obj).__name__, [deep_state(x, memo) for x in obj])
    if isinstance(obj, (set, frozenset)):
        memo[oid] = len(memo)
        return ("set", sorted((repr(deep_state(x, memo)) for x in obj)))
    if mod.startswith(("antismash", "Bio")):
        memo[oid] = len(memo)
        attrs = {}
        if hasattr(obj, "__dict__"):
            attrs.update(vars(obj))
        for klass in type(obj).__mro__:
            for slot in getattr(klass, "__slots__", ()) or ():
                if isinstance(slot, str) and slot not in ("__dict__", "__weakref__"):
                    try:
                        attrs[slot] = object.__getattribute__(obj, slot)
                    except AttributeError:
                        attrs[slot] = "<unset>"
        items = []
        if isinstance(obj, tuple):
            items = [deep_state(x, memo) for x in tuple.__iter__(obj)]      # the raw content, whatever __iter__ was overridden to do
        elif isinstance(obj, list):
            items = [deep_state(x, memo) for x in list.__iter__(obj)]
        elif isinstance(obj, dict):
            items = [(deep_state(k, memo), deep_state(v, memo)) for k, v in obj.items()]
        elif isinstance(obj, str):
            items = str(obj)
        return ("obj", type(obj).__qualname__, items, [(k, deep_state(v, memo)) for k, v in sorted(attrs.items())])
    return ("other", type(obj).__qualname__, repr(obj)[:80])
